package ppool

import (
	"fmt"
	"math"
	"sort"
	"strings"
	"sync"

	"github.com/polynetwork/poly/common/config"
	perr "github.com/polynetwork/poly/errors"
	tc "github.com/polynetwork/poly/txnpool/common"
	vt "github.com/polynetwork/poly/validator/types"
)

// ---------------------------------------------------------------------------------------------
// C37: operations, their encoded results, the executor on the real TXPool, and the sequential
// specification (one step function shared by the sequential oracle and the linearizability check)

type c37Attr struct {
	T int    `json:"t"` // 0 stateless, 1 stateful
	H uint32 `json:"h"`
	E int    `json:"e"` // error code value
}

type c37Op struct {
	K  string    `json:"k"`            // add del clean get unv remain gettx status count
	Tx txRef     `json:"tx,omitempty"` // add del gettx status
	At []c37Attr `json:"at,omitempty"` // add
	L  []txRef   `json:"l,omitempty"`  // clean unv
	BC bool      `json:"bc,omitempty"` // get: byCount
	H  uint32    `json:"h,omitempty"`  // get unv: height
	Y  int       `json:"y,omitempty"`  // concurrent part: scheduling noise before the call
}

type c37V struct {
	Tx txRef  `json:"tx"`
	H  uint32 `json:"h"`
	E  int    `json:"e"`
}

// c37Res is what an operation returned, with pointers translated back to harness identities:
// pool entries by the global index of the add operation that created them, transactions by
// (id, copy).
type c37Res struct {
	Ok  bool      `json:"ok,omitempty"`
	N   int       `json:"n,omitempty"`
	Ent []int     `json:"ent,omitempty"`
	A   []txRef   `json:"a,omitempty"`
	B   []txRef   `json:"b,omitempty"`
	V   []c37V    `json:"v,omitempty"`
	At  []c37Attr `json:"at,omitempty"`
	F   int       `json:"f,omitempty"`  // filler entries among the returned entries (counted, not listed)
	FA  int       `json:"fa,omitempty"` // filler transactions in list A
	FB  int       `json:"fb,omitempty"` // filler transactions in list B / the old list of get
	Nil bool      `json:"nil,omitempty"`
	Err string    `json:"err,omitempty"`
	Bad string    `json:"bad,omitempty"` // something the executor could not translate (foreign pointer, panic)
}

// ---- executor ------------------------------------------------------------------------------

type c37Exec struct {
	pool    *tc.TXPool
	ops     []c37Op
	entries []*tc.TXEntry // by global op index; nil for non-add ops
	entBack map[*tc.TXEntry]int
	// fillers: entries that are in the pool from the start, always valid (verified at height
	// 2^32-1) and never named by an operation; they make whole-pool operations long, so that
	// concurrent calls really overlap, and let byCount queries meet more valid entries than allowed
	nFill    int
	fillEnt  map[*tc.TXEntry]bool
	fillTxOf map[*txT]bool
}

var (
	fillMu  sync.Mutex
	fillTxs []*txT
)

func fillerTxs(n int) []*txT {
	fillMu.Lock()
	defer fillMu.Unlock()
	for len(fillTxs) < n {
		i := len(fillTxs)
		fillTxs = append(fillTxs, buildTx(uint32(100000+i), []byte{0xf1, byte(i), byte(i >> 8)}))
	}
	return fillTxs[:n]
}

func newC37Exec(ops []c37Op, maxTx, nFill int) *c37Exec {
	initTxs()
	config.DefConfig.Consensus.MaxTxInBlock = uint(maxTx)
	ex := &c37Exec{pool: &tc.TXPool{}, ops: ops, entries: make([]*tc.TXEntry, len(ops)), entBack: map[*tc.TXEntry]int{},
		nFill: nFill, fillEnt: map[*tc.TXEntry]bool{}, fillTxOf: map[*txT]bool{}}
	ex.pool.Init()
	for _, t := range fillerTxs(nFill) {
		e := &tc.TXEntry{Tx: t, Attrs: []*tc.TXAttr{{Height: 0, Type: vt.Stateless}, {Height: math.MaxUint32, Type: vt.Stateful}}}
		ex.fillEnt[e] = true
		ex.fillTxOf[t] = true
		if !ex.pool.AddTxList(e) {
			panic("harness: filler entry rejected")
		}
	}
	for gi, op := range ops {
		if op.K != "add" {
			continue
		}
		e := &tc.TXEntry{Tx: txOf(op.Tx)}
		for _, a := range op.At {
			t := vt.Stateless
			if a.T == 1 {
				t = vt.Stateful
			}
			e.Attrs = append(e.Attrs, &tc.TXAttr{Height: a.H, Type: t, ErrCode: perr.ErrCode(a.E)})
		}
		ex.entries[gi] = e
		ex.entBack[e] = gi
	}
	return ex
}

func encAttrs(as []*tc.TXAttr) []c37Attr {
	out := make([]c37Attr, 0, len(as))
	for _, a := range as {
		t := 0
		if a.Type == vt.Stateful {
			t = 1
		} else if a.Type != vt.Stateless {
			t = int(a.Type)
		}
		out = append(out, c37Attr{T: t, H: a.Height, E: int(a.ErrCode)})
	}
	return out
}

// apply executes the operation with global index gi on the real pool. A panic of the code under
// test is recorded in Bad (the pool lock may then be left held; the caller fails the case).
func (ex *c37Exec) apply(gi int) (res c37Res) {
	defer func() {
		if r := recover(); r != nil {
			res.Bad = fmt.Sprintf("panic: %v", r)
		}
	}()
	op := ex.ops[gi]
	switch op.K {
	case "add":
		res.Ok = ex.pool.AddTxList(ex.entries[gi])
	case "del":
		res.Ok = ex.pool.DelTxList(txOf(op.Tx))
	case "clean":
		txs := txList(op.L)
		if err := ex.pool.CleanTransactionList(txs); err != nil {
			res.Err = err.Error()
		}
	case "gettx":
		t := ex.pool.GetTransaction(txHash[op.Tx.ID])
		if t == nil {
			res.Nil = true
		} else if r, ok := refOf(t); ok {
			res.A = []txRef{r}
		} else {
			res.Bad = "GetTransaction returned a transaction object that was never put in"
		}
	case "status":
		s := ex.pool.GetTxStatus(txHash[op.Tx.ID])
		if s == nil {
			res.Nil = true
		} else {
			if s.Hash != txHash[op.Tx.ID] {
				res.Bad = fmt.Sprintf("GetTxStatus(%x) answered for hash %x", txHash[op.Tx.ID], s.Hash)
			}
			res.At = encAttrs(s.Attrs)
		}
	case "count":
		res.N = ex.pool.GetTransactionCount()
	case "get":
		ents, old := ex.pool.GetTxPool(op.BC, op.H)
		ex.encEntries(&res, ents)
		res.A = ex.encTxs(&res, old, &res.FB)
	case "unv":
		r := ex.pool.GetUnverifiedTxs(txList(op.L), op.H)
		if r == nil {
			res.Nil = true
			break
		}
		res.A = ex.encTxs(&res, r.UnverifiedTxs, &res.FA)
		res.B = ex.encTxs(&res, r.OldTxs, &res.FB)
		for _, v := range r.VerifiedTxs {
			ref, ok := refOf(v.Tx)
			if !ok {
				res.Bad = "GetUnverifiedTxs returned a foreign transaction object"
			}
			res.V = append(res.V, c37V{Tx: ref, H: v.Height, E: int(v.ErrCode)})
		}
	case "remain":
		res.A = ex.encTxs(&res, ex.pool.Remain(), &res.FA)
	case "obs":
		return ex.observe()
	default:
		panic("harness: unknown op " + op.K)
	}
	return res
}

func txList(l []txRef) []*txT {
	out := make([]*txT, 0, len(l))
	for _, r := range l {
		out = append(out, txOf(r))
	}
	return out
}

func (ex *c37Exec) encEntries(res *c37Res, ents []*tc.TXEntry) {
	var seenFill map[*tc.TXEntry]bool
	for _, e := range ents {
		if ex.fillEnt[e] {
			if seenFill == nil {
				seenFill = make(map[*tc.TXEntry]bool, len(ents))
			}
			if seenFill[e] {
				res.Bad = "pool handed out the same (filler) entry twice in one list"
			}
			seenFill[e] = true
			res.F++
			continue
		}
		gi, ok := ex.entBack[e]
		if !ok {
			res.Bad = "pool handed out an entry object that was never added"
			gi = -1
		}
		res.Ent = append(res.Ent, gi)
	}
}

func (ex *c37Exec) encTxs(res *c37Res, txs []*txT, nFill *int) []txRef {
	out := make([]txRef, 0, 8)
	var seenFill map[*txT]bool
	for _, t := range txs {
		if ex.fillTxOf[t] {
			if seenFill == nil {
				seenFill = make(map[*txT]bool, len(txs))
			}
			if seenFill[t] {
				res.Bad = "pool handed out the same (filler) transaction twice in one list"
			}
			seenFill[t] = true
			*nFill++
			continue
		}
		r, ok := refOf(t)
		if !ok {
			res.Bad = "pool handed out a transaction object that was never put in"
			r = txRef{-1, -1}
		}
		out = append(out, r)
	}
	return out
}

// observe reads the whole pool without changing it: count, every entry (GetTxPool(false, 0): no
// stateful height is below 0, so nothing is "old"), and a lookup per transaction id.
func (ex *c37Exec) observe() (res c37Res) {
	defer func() {
		if r := recover(); r != nil {
			res.Bad = fmt.Sprintf("panic: %v", r)
		}
	}()
	res.N = ex.pool.GetTransactionCount()
	ents, old := ex.pool.GetTxPool(false, 0)
	ex.encEntries(&res, ents)
	res.B = ex.encTxs(&res, old, &res.FB)
	for id := 0; id < maxTxIDs; id++ {
		if t := ex.pool.GetTransaction(txHash[id]); t != nil {
			r, ok := refOf(t)
			if !ok || r.ID != id {
				res.Bad = fmt.Sprintf("GetTransaction(hash of tx %d) returned another transaction (%v)", id, r)
			}
			res.A = append(res.A, r)
		}
	}
	return res
}

// ---- sequential specification ----------------------------------------------------------------

// c37State: per transaction id, 1 + global index of the add operation whose entry the pool holds
// (0 = not in the pool). A map id -> entry can by construction not hold a hash twice; the real
// pool is compared against it.
type c37State struct {
	e    [maxTxIDs]int16
	fill bool // the filler entries are (all) still in the pool
}

type c37Spec struct {
	ops   []c37Op
	maxTx int
	nFill int
}

func (m *c37Spec) initState() c37State { return c37State{fill: m.nFill > 0} }

func (m *c37Spec) fillers(st c37State) int {
	if st.fill {
		return m.nFill
	}
	return 0
}

func (s c37State) String() string {
	var b strings.Builder
	b.WriteString("{")
	for id, v := range s.e {
		if v != 0 {
			fmt.Fprintf(&b, " tx%d<-op%d", id, v-1)
		}
	}
	if s.fill {
		b.WriteString(" +fillers")
	}
	b.WriteString(" }")
	return b.String()
}

func (s c37State) size() int {
	n := 0
	for _, v := range s.e {
		if v != 0 {
			n++
		}
	}
	return n
}

// isOld: the entry was verified statefully below the asked height (needs re-verification)
func isOld(at []c37Attr, h uint32) bool {
	for _, a := range at {
		if a.T == 1 && a.H < h {
			return true
		}
	}
	return false
}

func idsOf(l []txRef) []int {
	out := make([]int, len(l))
	for i, r := range l {
		out[i] = r.ID
	}
	sort.Ints(out)
	return out
}

func sameInts(a, b []int) bool {
	if len(a) != len(b) {
		return false
	}
	for i := range a {
		if a[i] != b[i] {
			return false
		}
	}
	return true
}

func distinctInts(a []int) bool { // a sorted
	for i := 1; i < len(a); i++ {
		if a[i] == a[i-1] {
			return false
		}
	}
	return true
}

func subsetInts(a, b []int) bool { // both sorted, a distinct
	j := 0
	for _, x := range a {
		for j < len(b) && b[j] < x {
			j++
		}
		if j >= len(b) || b[j] != x {
			return false
		}
	}
	return true
}

// step: can operation gi, started in state st, return res? If so, the state afterwards.
func (m *c37Spec) step(st c37State, gi int, res *c37Res) (ok bool, why string, ns c37State) {
	ns = st
	if res.Bad != "" {
		return false, res.Bad, ns
	}
	op := m.ops[gi]
	switch op.K {
	case "add":
		id := op.Tx.ID
		if st.e[id] != 0 {
			if res.Ok {
				return false, fmt.Sprintf("AddTxList accepted tx %d although the pool already holds that hash (entry of op %d): two entries for one hash", id, st.e[id]-1), ns
			}
			return true, "", ns
		}
		if !res.Ok {
			return false, fmt.Sprintf("AddTxList rejected tx %d although the pool does not hold it", id), ns
		}
		ns.e[id] = int16(gi + 1)
		return true, "", ns
	case "del":
		id := op.Tx.ID
		if res.Ok != (st.e[id] != 0) {
			return false, fmt.Sprintf("DelTxList(tx %d) = %v, pool holds it: %v", id, res.Ok, st.e[id] != 0), ns
		}
		ns.e[id] = 0
		return true, "", ns
	case "clean":
		if res.Err != "" {
			return false, "CleanTransactionList returned error " + res.Err, ns
		}
		for _, r := range op.L {
			ns.e[r.ID] = 0
		}
		return true, "", ns
	case "gettx":
		id := op.Tx.ID
		if st.e[id] == 0 {
			if !res.Nil {
				return false, fmt.Sprintf("GetTransaction(tx %d) found a transaction that is not in the pool", id), ns
			}
			return true, "", ns
		}
		if res.Nil || len(res.A) != 1 || res.A[0].ID != id {
			return false, fmt.Sprintf("GetTransaction(tx %d) = nil:%v %v, but the pool holds it", id, res.Nil, res.A), ns
		}
		return true, "", ns
	case "status":
		id := op.Tx.ID
		if st.e[id] == 0 {
			if !res.Nil {
				return false, fmt.Sprintf("GetTxStatus(tx %d) answered for a transaction that is not in the pool", id), ns
			}
			return true, "", ns
		}
		want := m.ops[st.e[id]-1].At
		if res.Nil || fmt.Sprint(res.At) != fmt.Sprint(want) {
			return false, fmt.Sprintf("GetTxStatus(tx %d) = nil:%v %v, entry in the pool has %v", id, res.Nil, res.At, want), ns
		}
		return true, "", ns
	case "count":
		if want := st.size() + m.fillers(st); res.N != want {
			return false, fmt.Sprintf("GetTransactionCount = %d, pool holds %d", res.N, want), ns
		}
		return true, "", ns
	case "obs":
		return m.stepObs(st, res)
	case "remain":
		var want []int
		for id, v := range st.e {
			if v != 0 {
				want = append(want, id)
			}
		}
		got := idsOf(res.A)
		if !sameInts(got, want) || res.FA != m.fillers(st) {
			return false, fmt.Sprintf("Remain returned txs %v (+%d fillers), pool held %v (+%d fillers)", got, res.FA, want, m.fillers(st)), ns
		}
		return true, "", c37State{}
	case "get":
		var valid, old []int // valid: entry indices; old: tx ids
		for id, v := range st.e {
			if v == 0 {
				continue
			}
			if isOld(m.ops[v-1].At, op.H) {
				old = append(old, id)
			} else {
				valid = append(valid, int(v-1))
			}
		}
		sort.Ints(valid)
		got := append([]int(nil), res.Ent...)
		sort.Ints(got)
		gotOld := idsOf(res.A)
		if !distinctInts(got) {
			return false, fmt.Sprintf("GetTxPool returned an entry twice: %v", got), ns
		}
		if !distinctInts(gotOld) {
			return false, fmt.Sprintf("GetTxPool reported a transaction twice for re-verification: %v", gotOld), ns
		}
		if !subsetInts(got, valid) {
			return false, fmt.Sprintf("GetTxPool(byCount=%v, height=%d) returned entries (add ops) %v; entries in the pool verified at or above that height: %v",
				op.BC, op.H, got, valid), ns
		}
		if !subsetInts(gotOld, old) {
			return false, fmt.Sprintf("GetTxPool(byCount=%v, height=%d) reported txs %v as old; txs in the pool verified below that height: %v",
				op.BC, op.H, gotOld, old), ns
		}
		if res.FB != 0 {
			return false, fmt.Sprintf("GetTxPool(height=%d) reported %d filler txs (verified at height 2^32-1) as old", op.H, res.FB), ns
		}
		if res.F > m.fillers(st) {
			return false, fmt.Sprintf("GetTxPool returned %d filler entries, the pool holds %d", res.F, m.fillers(st)), ns
		}
		if op.BC && m.maxTx > 0 {
			if len(got)+res.F > m.maxTx {
				return false, fmt.Sprintf("GetTxPool(byCount) returned %d entries, configured maximum per block is %d", len(got)+res.F, m.maxTx), ns
			}
		} else {
			if !sameInts(got, valid) || res.F != m.fillers(st) {
				return false, fmt.Sprintf("GetTxPool(all, height=%d) returned entries %v (+%d fillers), all valid entries are %v (+%d fillers)",
					op.H, got, res.F, valid, m.fillers(st)), ns
			}
			if !sameInts(gotOld, old) {
				return false, fmt.Sprintf("GetTxPool(all, height=%d) reported old txs %v, all old ones are %v", op.H, gotOld, old), ns
			}
		}
		return true, "", ns
	case "unv":
		if res.Nil {
			return false, "GetUnverifiedTxs returned nil", ns
		}
		var wantUnv, wantOld []int
		type ver struct {
			id int
			at []c37Attr
		}
		var wantVer []ver
		for _, r := range op.L {
			v := ns.e[r.ID]
			switch {
			case v == 0:
				wantUnv = append(wantUnv, r.ID)
			case isOld(m.ops[v-1].At, op.H):
				wantOld = append(wantOld, r.ID)
				ns.e[r.ID] = 0 // handed back for re-verification
			default:
				wantVer = append(wantVer, ver{r.ID, m.ops[v-1].At})
			}
		}
		sort.Ints(wantUnv)
		sort.Ints(wantOld)
		if res.FA != 0 || res.FB != 0 {
			return false, "GetUnverifiedTxs reported filler transactions that were not in the list", st
		}
		if g := idsOf(res.A); !sameInts(g, wantUnv) {
			return false, fmt.Sprintf("GetUnverifiedTxs(height=%d): unverified %v, want %v (txs of the list not in the pool)", op.H, g, wantUnv), st
		}
		if g := idsOf(res.B); !sameInts(g, wantOld) {
			return false, fmt.Sprintf("GetUnverifiedTxs(height=%d): old %v, want %v (txs of the list in the pool verified below the height)", op.H, g, wantOld), st
		}
		if len(res.V) != len(wantVer) {
			return false, fmt.Sprintf("GetUnverifiedTxs(height=%d): %d verified results, want %d", op.H, len(res.V), len(wantVer)), st
		}
		used := make([]bool, len(res.V))
	next:
		for _, w := range wantVer {
			for i, g := range res.V {
				if used[i] || g.Tx.ID != w.id {
					continue
				}
				for _, a := range w.at {
					if a.T == 1 && a.H == g.H && a.E == g.E {
						used[i] = true
						continue next
					}
				}
			}
			return false, fmt.Sprintf("GetUnverifiedTxs(height=%d): no verified result for tx %d carrying its stateful verification %v; got %v", op.H, w.id, w.at, res.V), st
		}
		return true, "", ns
	}
	return false, "harness: unknown op " + op.K, ns
}

// stepObs: a full observation must equal the state exactly
func (m *c37Spec) stepObs(st c37State, res *c37Res) (bool, string, c37State) {
	if res.Bad != "" {
		return false, res.Bad, st
	}
	var ents, ids []int
	for id, v := range st.e {
		if v != 0 {
			ents = append(ents, int(v-1))
			ids = append(ids, id)
		}
	}
	sort.Ints(ents)
	got := append([]int(nil), res.Ent...)
	sort.Ints(got)
	if res.N != len(ents)+m.fillers(st) {
		return false, fmt.Sprintf("pool count is %d, model holds %d %v", res.N, len(ents)+m.fillers(st), st), st
	}
	if !sameInts(got, ents) || res.F != m.fillers(st) {
		return false, fmt.Sprintf("pool content (entries by add op) %v (+%d fillers), model %v (+%d fillers)", got, res.F, ents, m.fillers(st)), st
	}
	if len(res.B) != 0 || res.FB != 0 {
		return false, fmt.Sprintf("GetTxPool(height 0) reported old txs %v", res.B), st
	}
	if g := idsOf(res.A); !sameInts(g, ids) {
		return false, fmt.Sprintf("lookups by hash find txs %v, model holds %v", g, ids), st
	}
	// no hash twice among the entries handed out
	seen := map[int]bool{}
	for _, gi := range res.Ent {
		if gi >= 0 {
			id := m.ops[gi].Tx.ID
			if seen[id] {
				return false, fmt.Sprintf("pool holds two entries for tx %d", id), st
			}
			seen[id] = true
		}
	}
	return true, "", st
}
