// Package ppool holds the checks of the transaction-pool cluster: C37 (TXPool bookkeeping,
// sequential model + sampled concurrent schedules checked for linearizability) and C38
// (recent-block duplicate tracker + stateful validator).
package ppool

import (
	"crypto/sha256"
	"fmt"
	"os"
	"sync"
	"testing"

	"github.com/polynetwork/poly/common"
	"github.com/polynetwork/poly/common/log"
	"github.com/polynetwork/poly/core/payload"
	"github.com/polynetwork/poly/core/types"

	"verif/harness/ev"
)

func TestMain(m *testing.M) {
	// the code under test logs duplicate adds / discontinuous blocks; keep it quiet (and keep the
	// logger's internal mutex out of the schedules of the concurrent part)
	log.InitLog(log.MaxLevelLog)
	if os.Getenv(c37ExecEnv) == "1" {
		c37ExecMain() // child executor of the concurrent part of C37; never returns
	}
	ev.Main(m)
}

// ---------------------------------------------------------------------------------------------
// transaction objects: tx id -> content (nonce), copy -> distinct *Transaction with equal content

const (
	maxTxIDs  = 12
	maxCopies = 3
)

type txT = types.Transaction

type txRef struct {
	ID int `json:"id"`
	Cp int `json:"cp"`
}

var (
	txOnce sync.Once
	txObjs [maxTxIDs + 1][maxCopies]*types.Transaction // id maxTxIDs is the "never added anywhere" tx
	txBack map[*types.Transaction]txRef
	txHash [maxTxIDs + 1]common.Uint256
)

func buildTx(nonce uint32, code []byte) *types.Transaction {
	tx := &types.Transaction{Version: types.CURR_TX_VERSION, TxType: types.Invoke, Nonce: nonce,
		Payload: &payload.InvokeCode{Code: code}}
	sink := common.NewZeroCopySink(nil)
	if err := tx.Serialization(sink); err != nil {
		panic("harness: tx serialization: " + err.Error())
	}
	t2, err := types.TransactionFromRawBytes(sink.Bytes())
	if err != nil {
		panic("harness: tx decode: " + err.Error())
	}
	// the hash a decoded transaction carries is sha256(sha256(unsigned bytes)); this transaction
	// has no signatures, so the unsigned bytes are everything but the trailing sig count byte
	raw := sink.Bytes()
	h1 := sha256.Sum256(raw[:len(raw)-1])
	h2 := sha256.Sum256(h1[:])
	if t2.Hash() != common.Uint256(h2) {
		panic(fmt.Sprintf("harness: unexpected tx hash %x vs %x", t2.Hash(), h2))
	}
	return t2
}

func initTxs() {
	txOnce.Do(func() {
		txBack = map[*types.Transaction]txRef{}
		seen := map[common.Uint256]int{}
		for id := 0; id <= maxTxIDs; id++ {
			for cp := 0; cp < maxCopies; cp++ {
				t := buildTx(uint32(1000+id), []byte{byte(id), 0x51})
				txObjs[id][cp] = t
				txBack[t] = txRef{id, cp}
				if cp == 0 {
					if j, dup := seen[t.Hash()]; dup {
						panic(fmt.Sprintf("harness: tx ids %d and %d share a hash", id, j))
					}
					seen[t.Hash()] = id
					txHash[id] = t.Hash()
				} else if t.Hash() != txHash[id] {
					panic("harness: copies of one tx differ in hash")
				}
			}
		}
	})
}

func txOf(r txRef) *types.Transaction {
	initTxs()
	return txObjs[r.ID][r.Cp]
}

// refOf maps a transaction pointer handed out by the code under test back to (id, copy);
// ok=false means the pointer is not one of the objects the harness put in.
func refOf(t *types.Transaction) (txRef, bool) {
	initTxs()
	r, ok := txBack[t]
	return r, ok
}
