package ppool

import (
	"fmt"
	"sync/atomic"
	"time"

	"github.com/polynetwork/poly/common"
	"github.com/polynetwork/poly/common/config"
	"github.com/polynetwork/poly/core/types"
	perr "github.com/polynetwork/poly/errors"
	"github.com/polynetwork/poly/events/message"
	tc "github.com/polynetwork/poly/txnpool/common"
	vt "github.com/polynetwork/poly/validator/types"
	"pgregory.net/rapid"

	"verif/harness/world"
)

// ---------------------------------------------------------------------------------------------
// C37, server-level conservation part: the real TXPoolServer with tx actor, pool actor (the one
// consensus talks to), verify-response actor and workers, harness validators (stateless +
// stateful) that approve everything and answer AT ONCE with the ledger height the harness sets.
// The pool starts with K transactions verified at height 0. Rounds:
//   get     consensus asks for the pool (GetTxnPoolReq through the pool actor) at a rising height:
//           entries verified below it are handed back to the workers for re-verification while the
//           request is still being served; optionally new submissions arrive at the tx actor at
//           the same time;
//   submit  new transactions through the tx actor;
//   commit  a block with some pooled transactions is committed (SaveBlockCompleteMsg).
// Oracle (conservation, at quiescence after every round): every admitted transaction hash that
// was not in a committed block is in the pool (pending list empty), the pool holds nothing else,
// pool + pending <= capacity; what a pool request hands out is a duplicate-free set of admitted
// transactions, all verified at or above the asked height, at most MaxTxInBlock when byCount.
// (Blocks are not sent for verification: a multi-transaction VerifyBlockReq with instantly
// answering validators can deadlock in the unchanged code - pendingBlock.mu / worker.mu lock
// order - which is outside what this part judges.)

type c37SrvRound struct {
	K   string `json:"k"`             // get | submit | commit
	BC  bool   `json:"bc,omitempty"`  // get: byCount
	DH  int    `json:"dh,omitempty"`  // get: height increment (0..2)
	N   int    `json:"n,omitempty"`   // submit: new transactions; commit: pooled transactions in the block
	Sub int    `json:"sub,omitempty"` // get: submissions sent to the tx actor right before the request (not awaited)
	Pos int    `json:"pos,omitempty"` // commit: where in the (sorted) pool the block's transactions start
}

type c37Srv struct {
	K      int           `json:"k"` // transactions in the pool at the start, verified at height 0
	Rounds []c37SrvRound `json:"rounds"`
}

func genC37Srv(t *rapid.T) c37Case {
	c := c37Case{Mode: "srv"}
	c.MaxTx = []int{0, 5, 100, 50000}[fairInt(t, 4, "maxtx")]
	sv := &c37Srv{K: []int{1, 2, 5, 20, 200, 1000, 4000, 4000}[fairInt(t, 8, "k")]}
	sv.Rounds = rapid.SliceOfN(rapid.Custom(func(t *rapid.T) c37SrvRound {
		r := c37SrvRound{K: []string{"get", "get", "get", "get", "get", "submit", "commit", "get"}[fairInt(t, 8, "kind")]}
		switch r.K {
		case "get":
			r.BC = rapid.Bool().Draw(t, "bc")
			r.DH = []int{1, 1, 2, 0}[fairInt(t, 4, "dh")]
			r.Sub = []int{0, 0, 1, 3}[fairInt(t, 4, "sub")]
		case "submit":
			r.N = 1 + fairInt(t, 4, "n")
		case "commit":
			r.N = 1 + fairInt(t, 8, "n")
			r.Pos = rapid.IntRange(0, 5000).Draw(t, "pos")
		}
		return r
	}), 1, 6).Draw(t, "rounds")
	c.Srv = sv
	return c
}

func srvBody(ctx *capCtx, c c37Case) {
	if c.Srv == nil || c.Srv.K < 1 || c.Srv.K > 20000 {
		ctx.Failf("harness: malformed server case")
	}
	fx := useFixture(ctx, &srvFx)
	fx.dirty = true
	config.DefConfig.Consensus.MaxTxInBlock = uint(c.MaxTx)
	open := make(chan struct{})
	close(open)
	fx.mu.Lock()
	fx.gate = open // validators answer at once
	fx.mu.Unlock()
	atomic.StoreUint32(&fx.vHeight, 0)
	pool := fx.pool

	// start state: exactly K entries verified at height 0
	pool.Remain()
	fx.nFill, fx.extra = 0, nil
	admitted := map[common.Uint256]*types.Transaction{}
	for _, t := range fillerTxs(c.Srv.K) {
		if !pool.AddTxList(capEntry(t)) {
			ctx.Failf("harness: pre-fill rejected")
		}
		admitted[t.Hash()] = t
	}

	counts := func() (int, int) {
		r, err := fx.txPid.RequestFuture(&tc.GetTxnCountReq{}, 60*time.Second).Result()
		if err != nil {
			ctx.Failf("tx actor did not answer a count request: %v", err)
		}
		rsp, ok := r.(*tc.GetTxnCountRsp)
		if !ok || len(rsp.Count) != 2 {
			ctx.Failf("tx actor answered %T to a count request", r)
		}
		return int(rsp.Count[0]), int(rsp.Count[1])
	}
	// quiesce: the pending list drains (every re-verification / verification is answered at once)
	quiesce := func(where string) int {
		for i := 0; ; i++ {
			p, q := counts()
			if p+q > tc.MAX_CAPACITY {
				ctx.Failf("%s: pool=%d + pending=%d exceed the capacity %d", where, p, q, tc.MAX_CAPACITY)
			}
			if q == 0 {
				p, q = counts() // the two numbers are not read atomically: read again now that nothing moves
				if q == 0 {
					return p
				}
			}
			if i > 60000 {
				ctx.Failf("%s: pending list did not drain (pool=%d pending=%d) although every validator answers at once", where, p, q)
			}
			time.Sleep(200 * time.Microsecond)
		}
	}
	conserve := func(where string) {
		p := quiesce(where)
		missing, first := 0, ""
		for h := range admitted {
			if pool.GetTransaction(h) == nil {
				missing++
				if first == "" {
					first = fmt.Sprintf("%x", h[:6])
				}
			}
		}
		if missing > 0 {
			ctx.Failf("%s: %d of %d admitted transactions are in neither the pool nor the pending list although no committed block contained them (e.g. %s...); pool holds %d",
				where, missing, len(admitted), first, p)
		}
		if p != len(admitted) {
			ctx.Failf("%s: pool holds %d transactions, %d were admitted and not committed", where, p, len(admitted))
		}
	}
	nonce := capNonce
	defer func() { capNonce = nonce }()
	type pendingSub struct {
		tx *types.Transaction
		ch chan *tc.TxResult
	}
	var subsOut []pendingSub
	submit := func(n int, i int) {
		for j := 0; j < n; j++ {
			nonce++
			tx := capTx(nonce, world.Acct((i+j)%4))
			ch := make(chan *tc.TxResult, 1)
			fx.txPid.Tell(&tc.TxReq{Tx: tx, Sender: tc.HttpSender, TxResultCh: ch})
			admitted[tx.Hash()] = tx // K <= 20000 and a handful of submissions: far below the capacity, admission is required
			subsOut = append(subsOut, pendingSub{tx, ch})
		}
	}
	checkSubs := func(where string) {
		for _, s := range subsOut {
			select {
			case r := <-s.ch:
				if r.Err != perr.ErrNoError {
					ctx.Failf("%s: a new transaction of a permitted sender, submitted far below the capacity and approved by both validators, was answered %v", where, r)
				}
			default:
				ctx.Failf("%s: a submitted transaction left the pending list but its submitter got no result", where)
			}
		}
		subsOut = nil
	}

	conserve("before the first round")
	height := uint32(0)
	metOld := false
	for i, r := range c.Srv.Rounds {
		where := fmt.Sprintf("round %d (%s)", i, r.K)
		switch r.K {
		case "get":
			height += uint32(r.DH)
			where = fmt.Sprintf("round %d (pool request byCount=%v height=%d, %d submissions meanwhile)", i, r.BC, height, r.Sub)
			atomic.StoreUint32(&fx.vHeight, height) // the ledger (stateful validator) is at the height consensus asks for
			submit(r.Sub, i)
			res, err := fx.poolPid.RequestFuture(&tc.GetTxnPoolReq{ByCount: r.BC, Height: height}, 120*time.Second).Result()
			if err != nil {
				ctx.Failf("%s: pool actor did not answer: %v", where, err)
			}
			rsp, ok := res.(*tc.GetTxnPoolRsp)
			if !ok {
				ctx.Failf("%s: pool actor answered %T", where, res)
			}
			seen := map[common.Uint256]bool{}
			for _, e := range rsp.TxnPool {
				h := e.Tx.Hash()
				if seen[h] {
					ctx.Failf("%s: transaction %x handed to consensus twice", where, h[:6])
				}
				seen[h] = true
				if admitted[h] == nil {
					ctx.Failf("%s: consensus was handed transaction %x which was never admitted or is already committed", where, h[:6])
				}
				for _, a := range e.Attrs {
					if a.Type == vt.Stateful && a.Height < height {
						ctx.Failf("%s: consensus was handed transaction %x verified at height %d", where, h[:6], a.Height)
					}
				}
			}
			if r.BC && c.MaxTx > 0 && len(rsp.TxnPool) > c.MaxTx {
				ctx.Failf("%s: %d transactions handed out, MaxTxInBlock is %d", where, len(rsp.TxnPool), c.MaxTx)
			}
			if r.DH > 0 && len(admitted) > r.Sub {
				metOld = true
			}
		case "submit":
			submit(r.N, i)
		case "commit":
			// the block holds N transactions that are in the pool now (quiescent), chosen by position
			var txs []*types.Transaction
			all := fillerTxs(c.Srv.K)
			for j := 0; j < len(all) && len(txs) < r.N; j++ {
				t := all[(r.Pos+j)%len(all)]
				if admitted[t.Hash()] != nil {
					txs = append(txs, t)
				}
			}
			fx.poolPid.Tell(&message.SaveBlockCompleteMsg{Block: &types.Block{Header: &types.Header{Height: height}, Transactions: txs}})
			// the pool actor handles its mailbox in order: wait for the next answer
			if _, err := fx.poolPid.RequestFuture(&tc.GetPendingTxnReq{}, 60*time.Second).Result(); err != nil {
				ctx.Failf("%s: pool actor did not answer: %v", where, err)
			}
			for _, t := range txs {
				delete(admitted, t.Hash())
				if pool.GetTransaction(t.Hash()) != nil {
					ctx.Failf("%s: transaction %x of the committed block is still in the pool", where, t.Hash())
				}
			}
		default:
			ctx.Failf("harness: unknown round kind %q", r.K)
		}
		conserve("after " + where)
		checkSubs("after " + where)
	}
	ctx.Label(fmt.Sprintf("srv:pooled=%d", c.Srv.K))
	if metOld {
		ctx.Label("srv:request-met-outdated-entries")
		ctx.NonTrivial()
	}
	// leave the fixture empty, server and ledger height back at 0
	pool.Remain()
	atomic.StoreUint32(&fx.vHeight, 0)
	if _, err := fx.poolPid.RequestFuture(&tc.GetTxnPoolReq{ByCount: false, Height: 0}, 60*time.Second).Result(); err != nil {
		ctx.Failf("harness: pool actor did not answer the reset request: %v", err)
	}
	fx.dirty = false
}
