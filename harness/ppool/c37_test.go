package ppool

import (
	"encoding/json"
	"fmt"
	"math"
	"os"
	"path/filepath"
	"sort"
	"strings"
	"testing"
	"time"

	"github.com/anishathalye/porcupine"
	"pgregory.net/rapid"

	"verif/harness/ev"
)

// ---------------------------------------------------------------------------------------------
// C37 Transaction pool bookkeeping is consistent under concurrency
//
// mode "seq":  one operation list on one TXPool, every result and (after every step) the whole
//              pool content compared with a map model.
// mode "conc": per-goroutine operation programs on one TXPool, executed in a child process of the
//              same test binary (so that "fatal error: concurrent map writes" and race-detector
//              reports, which cannot be recovered in-process, are observed as a failure of the case
//              instead of killing the shard); the recorded call/return history (timestamps from
//              one atomic counter) is checked for linearizability against the same sequential
//              specification with porcupine; the pool content at quiescence is part of the history.
//              The interleavings are whatever the Go scheduler produced for that run: sampled,
//              not enumerated; a failing history is saved and can be re-checked deterministically,
//              the schedule that produced it cannot be forced again.
// mode "cap":  capacity (c37_cap_test.go).

type c37Ev struct {
	G    int    `json:"g"`
	GI   int    `json:"gi"`
	Call int64  `json:"call"`
	Ret  int64  `json:"ret"`
	Res  c37Res `json:"res"`
}

type c37Hist struct {
	Pre   []c37Res `json:"pre,omitempty"`
	Ev    []c37Ev  `json:"ev"`
	Obs   c37Res   `json:"obs"`
	Crash string   `json:"crash,omitempty"`
}

type c37Case struct {
	Mode  string    `json:"mode"`
	MaxTx int       `json:"maxtx"`
	NIDs  int       `json:"nids"`
	Fill  int       `json:"fill,omitempty"`  // filler entries in the pool from the start (always valid, never named by an op)
	Ops   []c37Op   `json:"ops,omitempty"`   // seq
	Pre   []c37Op   `json:"pre,omitempty"`   // conc: executed before the goroutines start
	Progs [][]c37Op `json:"progs,omitempty"` // conc: one program per goroutine
	P     int       `json:"p,omitempty"`     // conc: GOMAXPROCS of the run
	Rep   int       `json:"rep,omitempty"`   // conc: every goroutine runs its program this many times
	Inner int       `json:"inner,omitempty"` // conc: the goroutines meet at a barrier before every Inner-th pass
	Hist  *c37Hist  `json:"hist,omitempty"`  // replay of a saved history: re-check only, nothing is executed
	Cap   *c37Cap   `json:"cap,omitempty"`
	Srv   *c37Srv   `json:"srv,omitempty"`
	Hgt   *c37Hgt   `json:"hgt,omitempty"`
}

// ---- generators ------------------------------------------------------------------------------

func genHeight() *rapid.Generator[uint32] {
	return rapid.OneOf(rapid.Uint32Range(0, 8), rapid.Uint32Range(0, 8), rapid.Uint32Range(0, 8),
		rapid.SampledFrom([]uint32{0, 1, math.MaxUint32 - 1, math.MaxUint32}))
}

var c37ErrCodes = []int{0, 0, 0, 45002, -1, 45021}

func genAttrs(t *rapid.T, plain bool) []c37Attr {
	sf := c37Attr{T: 1, H: genHeight().Draw(t, "sfh"), E: rapid.SampledFrom(c37ErrCodes).Draw(t, "sfe")}
	var at []c37Attr
	shape := rapid.IntRange(0, 9).Draw(t, "shape")
	sl := c37Attr{T: 0, H: genHeight().Draw(t, "slh"), E: rapid.SampledFrom(c37ErrCodes).Draw(t, "sle")}
	switch {
	case shape <= 3: // what the worker builds: stateless result first or second
		at = []c37Attr{sl, sf}
	case shape <= 6:
		at = []c37Attr{sf, sl}
	case shape == 7:
		at = []c37Attr{sf}
	case shape == 8 && !plain: // stateless verified twice
		at = []c37Attr{sl, sf, {T: 0, H: genHeight().Draw(t, "slh2"), E: 0}}
	case shape == 9 && !plain: // two stateful results for the same height (the error codes may differ)
		at = []c37Attr{sf, sl, {T: 1, H: sf.H, E: rapid.SampledFrom(c37ErrCodes).Draw(t, "sfe2")}}
	default:
		at = []c37Attr{sl, sf}
	}
	return at
}

func genRef(t *rapid.T, n int) txRef {
	return txRef{ID: rapid.IntRange(0, n-1).Draw(t, "id"), Cp: rapid.IntRange(0, maxCopies-1).Draw(t, "cp")}
}

var c37Kinds = []string{"add", "add", "add", "add", "add", "add", "add", "add", "add", "add", "del", "del", "clean", "clean",
	"get", "get", "get", "get", "unv", "unv", "unv", "remain", "gettx", "gettx", "status", "count"}

func genC37Op(n int, conc bool) func(*rapid.T) c37Op {
	return func(t *rapid.T) c37Op {
		op := c37Op{K: rapid.SampledFrom(c37Kinds).Draw(t, "k")}
		if conc {
			op.Y = rapid.IntRange(0, 7).Draw(t, "y")
			if op.K == "remain" && rapid.Bool().Draw(t, "lessremain") {
				op.K = "add"
			}
		}
		switch op.K {
		case "add":
			op.Tx = genRef(t, n)
			op.At = genAttrs(t, conc)
		case "del", "gettx", "status":
			op.Tx = genRef(t, n)
		case "clean":
			op.L = rapid.SliceOfN(rapid.Custom(func(t *rapid.T) txRef { return genRef(t, n) }), 0, 4).Draw(t, "l")
		case "unv":
			// a block never lists a hash twice (verifyBlock rejects that before asking the pool)
			l := rapid.SliceOfN(rapid.Custom(func(t *rapid.T) txRef { return genRef(t, n) }), 0, 5).Draw(t, "l")
			seen := map[int]bool{}
			for _, r := range l {
				if !seen[r.ID] {
					seen[r.ID] = true
					op.L = append(op.L, r)
				}
			}
			op.H = genHeight().Draw(t, "h")
		case "get":
			op.BC = rapid.Bool().Draw(t, "bycount")
			op.H = genHeight().Draw(t, "h")
		}
		return op
	}
}

func genC37Seq(t *rapid.T) c37Case {
	c := c37Case{Mode: "seq"}
	c.NIDs = rapid.IntRange(1, 10).Draw(t, "nids")
	c.MaxTx = rapid.SampledFrom([]int{0, 1, 2, 2, 3, 5, 100}).Draw(t, "maxtx")
	c.Fill = rapid.SampledFrom([]int{0, 0, 0, 1, 3, 16}).Draw(t, "fill")
	c.Ops = rapid.SliceOfN(rapid.Custom(genC37Op(c.NIDs, false)), 1, ev.Scale(40, 80)).Draw(t, "ops")
	return c
}

// fairInt draws 0..n-1 from fair coin flips (rapid's integer and sampling generators favour small
// values, which here would mean: few goroutines, one pass, hardly any overlap).
func fairInt(t *rapid.T, n int, label string) int {
	v := 0
	for span := 1; span < n; span *= 2 {
		v *= 2
		if rapid.Bool().Draw(t, label) {
			v++
		}
	}
	return v % n
}

func genC37Conc(t *rapid.T) c37Case {
	c := c37Case{Mode: "conc"}
	c.NIDs = rapid.IntRange(1, 5).Draw(t, "nids")
	c.MaxTx = rapid.SampledFrom([]int{0, 1, 2, 3, 100}).Draw(t, "maxtx")
	c.P = []int{2, 6, 9, 9}[fairInt(t, 4, "p")]
	c.Fill = []int{0, 0, 8, 64, 256, 256, 2048, 2048}[fairInt(t, 8, "fill")]
	pre := rapid.SliceOfN(rapid.Custom(genC37Op(c.NIDs, true)), 0, 4).Draw(t, "pre")
	for _, op := range pre {
		op.Y = 0
		if op.K == "add" {
			c.Pre = append(c.Pre, op)
		}
	}
	g := 2 + fairInt(t, 7, "goroutines")
	per := 8
	if g > 6 {
		per = 4
	} else if g > 4 {
		per = 6
	}
	c.Progs = rapid.SliceOfN(rapid.SliceOfN(rapid.Custom(genC37Op(c.NIDs, true)), 2, per), g, g).Draw(t, "progs")
	// every goroutine loops over its program: long enough runs overlap even when the machine is
	// busy and the OS time-slices the threads; the history is capped at ~400 events
	total := 0
	for _, p := range c.Progs {
		total += len(p)
	}
	c.Rep = []int{1, 2, 4, 8, 16, 32, 16, 8}[fairInt(t, 8, "rep")]
	c.Inner = []int{1, 2, 4, 8}[fairInt(t, 4, "inner")]
	for c.Rep > 1 && c.Rep*total > ev.Scale(400, 600) {
		c.Rep /= 2
	}
	return c
}

func genC37(t *rapid.T) c37Case {
	// (rapid's integer generators are biased towards small values; booleans are fair)
	conc := rapid.Bool().Draw(t, "concurrent")
	if c37CapEnabled {
		switch fairInt(t, 32, "server") {
		case 0:
			return genC37Cap(t)
		case 1, 2:
			return genC37Srv(t)
		case 3, 4:
			return genC37Hgt(t)
		}
	}
	if conc {
		return genC37Conc(t)
	}
	return genC37Seq(t)
}

// ---- sequential part ---------------------------------------------------------------------------

func runC37Seq(ctx *ev.Ctx, c c37Case) {
	for _, op := range c.Ops {
		if op.Tx.ID < 0 || op.Tx.ID >= maxTxIDs {
			ctx.Failf("harness: tx id out of range in case")
		}
	}
	spec := &c37Spec{ops: c.Ops, maxTx: c.MaxTx, nFill: c.Fill}
	ex := newC37Exec(c.Ops, c.MaxTx, c.Fill)
	st := spec.initState()
	var dupRejected, split, capped, copyDup bool
	for i, op := range c.Ops {
		// classification (before the step)
		switch op.K {
		case "add":
			if st.e[op.Tx.ID] != 0 {
				dupRejected = true
				if c.Ops[st.e[op.Tx.ID]-1].Tx.Cp != op.Tx.Cp {
					copyDup = true // same hash carried by a different transaction object
				}
			}
		case "get", "unv":
			nOld, nValid := 0, 0
			for _, v := range st.e {
				if v != 0 {
					if isOld(c.Ops[v-1].At, op.H) {
						nOld++
					} else {
						nValid++
					}
				}
			}
			if nOld > 0 && nValid > 0 {
				split = true
			}
			if op.K == "get" && op.BC && c.MaxTx > 0 && nValid+spec.fillers(st) > c.MaxTx {
				capped = true
			}
		}
		res := ex.apply(i)
		ok, why, ns := spec.step(st, i, &res)
		if !ok {
			ctx.Failf("step %d (%s): %s\n model before the step: %v\n op: %s", i, op.K, why, st, jsonOf(op))
		}
		st = ns
		obs := ex.observe()
		if ok, why, _ := spec.stepObs(st, &obs); !ok {
			ctx.Failf("after step %d (%s): %s\n op: %s", i, op.K, why, jsonOf(op))
		}
	}
	if dupRejected {
		ctx.Label("seq:dup-add-rejected")
	}
	if copyDup {
		ctx.Label("seq:dup-add-other-object")
	}
	if split {
		ctx.Label("seq:query-splits-valid/old")
	}
	if capped {
		ctx.Label("seq:more-valid-than-maxtx")
	}
	if dupRejected && split {
		ctx.NonTrivial()
	}
}

func jsonOf(v interface{}) string {
	b, _ := json.Marshal(v)
	return string(b)
}

// ---- concurrent part -----------------------------------------------------------------------------

// flatten: global op index = position in Pre ++ Progs[0] ++ Progs[1] ++ ... ++ [obs]
func (c *c37Case) flatten() (all []c37Op, start []int) {
	all = append(all, c.Pre...)
	for _, p := range c.Progs {
		start = append(start, len(all))
		all = append(all, p...)
	}
	all = append(all, c37Op{K: "obs"})
	return all, start
}

func isMutator(k string) bool {
	return k == "add" || k == "del" || k == "clean" || k == "unv" || k == "remain"
}

func runC37Conc(ctx *ev.Ctx, c c37Case) {
	all, _ := c.flatten()
	for _, op := range all {
		if op.Tx.ID < 0 || op.Tx.ID >= maxTxIDs {
			ctx.Failf("harness: tx id out of range in case")
		}
	}
	var h c37Hist
	if c.Hist != nil {
		ctx.Label("conc:saved-history-recheck")
		h = *c.Hist
	} else {
		h = c37Execute(c)
	}
	if h.Crash != "" {
		ctx.Failf("concurrent use of one TXPool by %d goroutines brought the process down (executor child):\n%s", len(c.Progs), h.Crash)
	}
	spec := &c37Spec{ops: all, maxTx: c.MaxTx, nFill: c.Fill}
	// sequential prefix
	st := spec.initState()
	if len(h.Pre) != len(c.Pre) {
		ctx.Failf("harness: history has %d prefix results for %d prefix ops", len(h.Pre), len(c.Pre))
	}
	for i := range c.Pre {
		ok, why, ns := spec.step(st, i, &h.Pre[i])
		if !ok {
			ctx.Failf("sequential prefix step %d: %s", i, why)
		}
		st = ns
	}
	init := st
	total := 0
	for _, p := range c.Progs {
		total += len(p)
	}
	if c.Rep > 1 {
		total *= c.Rep
	}
	if len(h.Ev) != total {
		ctx.Failf("harness: history has %d events for %d operations", len(h.Ev), total)
	}
	ops := make([]porcupine.Operation, 0, len(h.Ev)+1)
	var last int64
	for i := range h.Ev {
		e := &h.Ev[i]
		if e.Res.Bad != "" {
			ctx.Failf("under concurrent use, operation %s of goroutine %d: %s", jsonOf(all[e.GI]), e.G, e.Res.Bad)
		}
		if e.GI < len(c.Pre) || e.GI >= len(all)-1 || e.Call >= e.Ret {
			ctx.Failf("harness: malformed history event %s", jsonOf(e))
		}
		ops = append(ops, porcupine.Operation{ClientId: e.G, Input: e.GI, Call: e.Call, Output: &e.Res, Return: e.Ret})
		if e.Ret > last {
			last = e.Ret
		}
	}
	// the observation at quiescence: after every operation returned
	ops = append(ops, porcupine.Operation{ClientId: len(c.Progs), Input: len(all) - 1, Call: last + 1, Output: &h.Obs, Return: last + 2})
	model := porcupine.Model{
		Init: func() interface{} { return init },
		Step: func(state, in, out interface{}) (bool, interface{}) {
			ok, _, ns := spec.step(state.(c37State), in.(int), out.(*c37Res))
			return ok, ns
		},
		Equal: func(a, b interface{}) bool { return a.(c37State) == b.(c37State) },
	}
	// overlap statistics (what the scheduler actually gave us)
	overlap, mutOverlap := 0, 0
	for i := range h.Ev {
		for j := i + 1; j < len(h.Ev); j++ {
			a, b := &h.Ev[i], &h.Ev[j]
			if a.G != b.G && a.Call < b.Ret && b.Call < a.Ret {
				overlap++
				if isMutator(all[a.GI].K) || isMutator(all[b.GI].K) {
					mutOverlap++
				}
			}
		}
	}
	switch {
	case overlap == 0:
		ctx.Label("conc:overlapping-pairs=0")
	case overlap < 4:
		ctx.Label("conc:overlapping-pairs=1-3")
	case overlap < 16:
		ctx.Label("conc:overlapping-pairs=4-15")
	default:
		ctx.Label("conc:overlapping-pairs>=16")
	}
	ctx.Label(fmt.Sprintf("conc:goroutines=%d", len(c.Progs)))
	ctx.Label(fmt.Sprintf("conc:P=%d,overlap=%v", c.P, overlap > 0))
	ctx.Label(fmt.Sprintf("conc:rep=%d,overlap=%v", c.Rep, overlap > 0))
	ctx.Label(fmt.Sprintf("conc:fill=%d,overlap=%v", c.Fill, overlap > 0))
	if mutOverlap > 0 {
		ctx.NonTrivial()
	}
	res := porcupine.CheckOperationsTimeout(model, ops, 30*time.Second)
	switch res {
	case porcupine.Ok:
	case porcupine.Unknown:
		ctx.Label("conc:linearizability-check-timeout(not judged)")
	default:
		// explain: invariants at quiescence first (cheap to read), then the history
		msg := "recorded call/return history of concurrent TXPool operations is not linearizable w.r.t. the sequential pool model"
		if path := c37SaveHistory(c, h, msg); path != "" {
			msg += " (history saved for deterministic re-check: " + path + ")"
		}
		ctx.Failf("%s\n initial state %v\n%s", msg, init, c37FormatHist(all, h))
	}
}

func c37FormatHist(all []c37Op, h c37Hist) string {
	evs := append([]c37Ev(nil), h.Ev...)
	sort.Slice(evs, func(i, j int) bool { return evs[i].Call < evs[j].Call })
	var b strings.Builder
	for _, e := range evs {
		fmt.Fprintf(&b, " g%d [%d,%d] op%d %s -> %s\n", e.G, e.Call, e.Ret, e.GI, jsonOf(all[e.GI]), jsonOf(e.Res))
		if b.Len() > 6000 {
			b.WriteString(" ...\n")
			break
		}
	}
	fmt.Fprintf(&b, " at quiescence: %s\n", jsonOf(h.Obs))
	return b.String()
}

var c37Saved = map[string]int{}

// c37SaveHistory writes the failing history as a complete replay file (the case with the history
// embedded): `./check C37 replay <file>` re-runs the linearizability check on exactly this
// history without executing anything.
func c37SaveHistory(c c37Case, h c37Hist, msg string) string {
	if c.Hist != nil {
		return ""
	}
	dir := os.Getenv("VERIF_REPLAY_DIR")
	if dir == "" {
		dir = filepath.Join(ev.VerifDir(), "out", "replays")
	}
	dir = filepath.Join(dir, "C37")
	os.MkdirAll(dir, 0o755)
	path := filepath.Join(dir, fmt.Sprintf("history-shard%d-%s.json", ev.Shard(), ev.Tier()))
	if best, ok := c37Saved[path]; ok && len(h.Ev) > best {
		return path
	}
	c37Saved[path] = len(h.Ev)
	c.Hist = &h
	b, _ := json.MarshalIndent(map[string]interface{}{"property": "C37", "msg": msg, "case": c}, "", " ")
	if os.WriteFile(path, b, 0o644) != nil {
		return ""
	}
	return path
}

var c37ModeMs = map[string]int{}

func runC37(ctx *ev.Ctx, c c37Case) {
	ctx.Label("mode:" + c.Mode)
	t0 := time.Now() // bookkeeping only (evidence table mode_wall_us), never part of an oracle
	defer func() {
		c37ModeMs[c.Mode] += int(time.Since(t0).Microseconds())
		ev.Get("C37").Extra("mode_wall_us", c37ModeMs)
	}()
	if c.NIDs > maxTxIDs {
		ctx.Failf("harness: nids out of range")
	}
	switch c.Mode {
	case "seq":
		runC37Seq(ctx, c)
	case "conc":
		runC37Conc(ctx, c)
	case "cap", "srv", "hgt":
		runC37Cap(ctx, c)
	default:
		ctx.Failf("harness: unknown mode %q", c.Mode)
	}
}

func TestC37(t *testing.T) {
	defer c37StopChild()
	defer c37CapCleanup()
	ev.Drive(t, "C37",
		"cases: (seq) 1.."+fmt.Sprint(ev.Scale(40, 80))+" operations add/del/clean/get/unverified/remain/lookups on one TXPool over 1..10 transaction ids "+
			"(same hash carried by up to 3 distinct objects), MaxTxInBlock in {0,1,2,3,5,100}, verification heights 0..8 and extremes, every result and the "+
			"whole pool content after every step compared with a map model; (conc) 2..8 goroutines each looping 1..32 times over 2..8 generated operations (history <= ~400 events) with generated "+
			"scheduling noise on one pool holding 1..5 ids, GOMAXPROCS in {2,6,9}, a barrier before every 1st/2nd/4th/8th pass, call/return history stamped by one atomic counter and checked for "+
			"linearizability (porcupine) against the same model, pool content at quiescence included; schedules are those the Go scheduler produced "+
			"(sampled, not enumerated); (cap, 1 case in 32) the real TXPoolServer + tx actor + workers over a real ledger, pool pre-filled to "+
			"MAX_CAPACITY-0..3, 1..6 submissions (new / duplicate of pool / duplicate of pending / outsider) through the tx actor while gated validators "+
			"hold their answers, then verification completes; (srv, 1 case in 16) the same server with instantly answering validators, pool pre-filled with "+
			"1..4000 transactions verified at height 0, 1..6 rounds of consensus pool requests at rising heights (with submissions arriving meanwhile) / "+
			"submissions / block commits, conservation of every admitted hash checked at quiescence after every round; (hgt, 1 case in 16) a fresh real server whose stateful validator is a harness actor that HOLDS "+
			"its answers: single-transaction block verifications and pool requests at rising heights, and answers released by the case carrying the height at request time, "+
			"one lower, or the current one; a stateful answer below the height consensus works at now must lead to re-validation, never to acceptance. non-trivial: (seq) a duplicate add was rejected and a get/unverified query met both valid and outdated "+
			"entries; (conc) at least one pair of operations of different goroutines really overlapped in time with a mutating operation among "+
			"them; (cap) a submission met pool+pending at the capacity; (srv) a pool request met outdated entries; (hgt) an answer older than the current height was delivered; distinct by JSON encoding of the case",
		genC37, runC37)
}
