package ppool

import (
	"fmt"
	"os"
	"runtime/debug"
	"sort"
	"strings"
	"sync"
	"sync/atomic"
	"time"

	"github.com/ontio/ontology-crypto/keypair"
	"github.com/ontio/ontology-eventbus/actor"
	"github.com/polynetwork/poly/account"
	"github.com/polynetwork/poly/common"
	"github.com/polynetwork/poly/core/ledger"
	"github.com/polynetwork/poly/core/payload"
	"github.com/polynetwork/poly/core/types"
	perr "github.com/polynetwork/poly/errors"
	tc "github.com/polynetwork/poly/txnpool/common"
	"github.com/polynetwork/poly/txnpool/proc"
	vt "github.com/polynetwork/poly/validator/types"
	"pgregory.net/rapid"

	"verif/harness/ev"
	"verif/harness/lworld"
	"verif/harness/world"
)

// ---------------------------------------------------------------------------------------------
// C37, capacity part: the real TXPoolServer with its tx actor, verify-response actor and workers,
// over a real ledger (lworld genesis: validators Acct(0..3) are the permitted senders), the pool
// pre-filled (through the build-tagged accessor VerifTxPool) to MAX_CAPACITY-Below, validators
// replaced by harness actors that approve everything but answer only when the harness opens a
// gate. Transactions are submitted through the tx actor like the HTTP interface does.
//
// judged:  (a) pool + pending <= MAX_CAPACITY after every submission, pool <= MAX_CAPACITY once
//              everything pending was verified;
//          (b) a submission that meets pool+pending >= MAX_CAPACITY, an outsider's and a duplicate
//              (of a pooled or a pending transaction) submission is answered with an error and
//              changes neither the pool nor the pending list (duplicate may be refused as
//              "duplicate" or, when full, as "full");
//          (c) a new transaction of a permitted sender IS admitted while pool+pending < capacity.

const c37CapEnabled = true

type c37Cap struct {
	Below int      `json:"below"` // pool pre-filled to MAX_CAPACITY - Below
	Subs  []string `json:"subs"`  // new | duppool | duppending | outsider
}

func genC37Cap(t *rapid.T) c37Case {
	c := c37Case{Mode: "cap"}
	cp := &c37Cap{Below: fairInt(t, 4, "below")}
	cp.Subs = rapid.SliceOfN(rapid.SampledFrom([]string{"new", "new", "new", "new", "duppool", "duppending", "outsider"}), 1, 6).Draw(t, "subs")
	c.Cap = cp
	return c
}

func capTx(nonce uint32, signer *account.Account) *types.Transaction {
	tx := &types.Transaction{Version: types.CURR_TX_VERSION, TxType: types.Invoke, Nonce: nonce,
		Payload: &payload.InvokeCode{Code: []byte{0xca, byte(nonce)}}}
	// the pool's admission only derives addresses from the listed keys; signatures are the
	// (here: replaced) validators' business
	tx.Sigs = []types.Sig{{SigData: [][]byte{make([]byte, 65)}, PubKeys: []keypair.PublicKey{signer.PublicKey}, M: 1}}
	sink := common.NewZeroCopySink(nil)
	if err := tx.Serialization(sink); err != nil {
		panic(err)
	}
	t2, err := types.TransactionFromRawBytes(sink.Bytes())
	if err != nil {
		panic(err)
	}
	return t2
}

// capFixture: ledger + server + actors + gated validators + pre-filled pool are expensive (100k
// entries), so one fixture per process serves all capacity cases; every case starts by setting the
// pool content exactly (previous submissions removed, fillers added/removed to reach the wanted
// size, counts verified). A failed case discards the fixture.
type capFixture struct {
	dir    string
	ch     *lworld.Chain
	old    *ledger.Ledger
	s      *proc.TXPoolServer
	txPid  *actor.PID
	poolPid *actor.PID // the actor consensus talks to (GetTxnPoolReq, SaveBlockCompleteMsg)
	vHeight uint32     // ledger height the harness validators report (atomic)
	rspPid *actor.PID
	v1, v2 *actor.PID
	pool   *tc.TXPool
	mu     sync.Mutex
	gate   chan struct{}
	inPool *types.Transaction
	nFill  int                  // fillers currently in the pool
	extra  []*types.Transaction // transactions earlier cases got into the pool
	dirty  bool
}

var capFx, srvFx *capFixture // one fixture for the capacity part (pool kept near capacity), one for the server part

var capNonce = uint32(900000)

func (fx *capFixture) curGate() chan struct{} { fx.mu.Lock(); defer fx.mu.Unlock(); return fx.gate }

func (fx *capFixture) close() {
	if fx.gate != nil {
		select {
		case <-fx.gate:
		default:
			close(fx.gate)
		}
	}
	fx.v1.Stop()
	fx.v2.Stop()
	fx.s.Stop()
	// the admission check reads ledger.DefLedger: keep it on a live ledger (all fixtures have the same genesis)
	ledger.DefLedger = nil
	for _, o := range []*capFixture{capFx, srvFx} {
		if o != nil && o != fx {
			ledger.DefLedger = o.ch.Ledger
		}
	}
	fx.ch.Close()
	os.RemoveAll(fx.dir)
}

func c37CapCleanup() {
	dropFixture(&srvFx)
	dropFixture(&capFx)
}

func dropFixture(slot **capFixture) {
	if *slot != nil {
		fx := *slot
		fx.close()
		*slot = nil
	}
}

// useFixture returns the slot's fixture, (re)building it if absent or left dirty by a failed case.
func useFixture(ctx *capCtx, slot **capFixture) *capFixture {
	if *slot != nil && (*slot).dirty {
		dropFixture(slot)
	}
	if *slot == nil {
		*slot = newCapFixture(ctx)
	}
	return *slot
}

func newCapFixture(ctx *capCtx) *capFixture {
	const netID = 2
	fx := &capFixture{dir: lworld.TempDir("c37cap")}
	ch, err := lworld.Open(fx.dir, 4, netID)
	if err != nil {
		os.RemoveAll(fx.dir)
		ctx.Failf("harness: open ledger: %v", err)
	}
	fx.ch = ch
	fx.old = ledger.DefLedger
	ledger.DefLedger = ch.Ledger
	s := proc.NewTxPoolServer(tc.MAX_WORKER_NUM, true, true)
	fx.s = s
	fx.rspPid = actor.Spawn(actor.FromProducer(func() actor.Actor { return proc.NewVerifyRspActor(s) }))
	s.RegisterActor(tc.VerifyRspActor, fx.rspPid)
	fx.txPid = actor.Spawn(actor.FromProducer(func() actor.Actor { return proc.NewTxActor(s) }))
	s.RegisterActor(tc.TxActor, fx.txPid)
	fx.poolPid = actor.Spawn(actor.FromProducer(func() actor.Actor { return proc.NewTxPoolActor(s) }))
	s.RegisterActor(tc.TxPoolActor, fx.poolPid)
	fx.gate = make(chan struct{})
	mkValidator := func(t vt.VerifyType) *actor.PID {
		return actor.Spawn(actor.FromFunc(func(c actor.Context) {
			if m, ok := c.Message().(*vt.CheckTx); ok {
				<-fx.curGate()
				c.Sender().Tell(&vt.CheckResponse{WorkerId: m.WorkerId, Type: t, Hash: m.Tx.Hash(), Height: atomic.LoadUint32(&fx.vHeight), ErrCode: perr.ErrNoError})
			}
		}))
	}
	fx.v1, fx.v2 = mkValidator(vt.Stateless), mkValidator(vt.Stateful)
	fx.rspPid.Tell(&vt.RegisterValidator{Sender: fx.v1, Type: vt.Stateless, Id: "verif-sl"})
	fx.rspPid.Tell(&vt.RegisterValidator{Sender: fx.v2, Type: vt.Stateful, Id: "verif-sf"})
	for i := 0; s.VerifValidatorCount() < 2; i++ {
		if i > 20000 {
			fx.close()
			ctx.Failf("harness: validators did not register")
		}
		time.Sleep(time.Millisecond)
	}
	fx.pool = s.VerifTxPool()
	fx.inPool = capTx(899999, world.Acct(1))
	if !fx.pool.AddTxList(capEntry(fx.inPool)) {
		ctx.Failf("harness: pre-fill rejected")
	}
	return fx
}

func capEntry(t *types.Transaction) *tc.TXEntry {
	return &tc.TXEntry{Tx: t, Attrs: []*tc.TXAttr{{Type: vt.Stateless}, {Type: vt.Stateful}}}
}

// setPool makes the pool hold exactly inPool + (want-1) fillers.
func (fx *capFixture) setPool(ctx *capCtx, want int) {
	for _, t := range fx.extra {
		fx.pool.DelTxList(t)
	}
	fx.extra = nil
	fill := fillerTxs(tc.MAX_CAPACITY)
	for fx.nFill < want-1 {
		if !fx.pool.AddTxList(capEntry(fill[fx.nFill])) {
			ctx.Failf("harness: pre-fill rejected")
		}
		fx.nFill++
	}
	for fx.nFill > want-1 {
		fx.nFill--
		if !fx.pool.DelTxList(fill[fx.nFill]) {
			ctx.Failf("harness: filler vanished")
		}
	}
}

// capOut is the outcome of one capacity case; it crosses the process boundary in -race builds.
type capOut struct {
	Fail       string            `json:"fail,omitempty"`
	Labels     []string          `json:"labels,omitempty"`
	NonTrivial bool              `json:"nontrivial,omitempty"`
	Known      map[string]string `json:"known,omitempty"` // root-cause key -> observation
	Crash      string            `json:"crash,omitempty"`
}

type capCtx struct{ out *capOut }

type capFail struct{}

func (c *capCtx) Failf(format string, a ...interface{}) {
	c.out.Fail = fmt.Sprintf(format, a...)
	panic(capFail{})
}
func (c *capCtx) Label(l string) { c.out.Labels = append(c.out.Labels, l) }
func (c *capCtx) NonTrivial()    { c.out.NonTrivial = true }
func (c *capCtx) Known(key, format string, a ...interface{}) {
	if c.out.Known == nil {
		c.out.Known = map[string]string{}
	}
	c.out.Known[key] = fmt.Sprintf(format, a...)
}

// capRun executes one capacity case on the real server and returns what it saw (no ev.Ctx: in
// -race builds it runs in the executor child, see runC37Cap).
func capRun(c c37Case) (out capOut) {
	ctx := &capCtx{out: &out}
	defer func() {
		if r := recover(); r != nil {
			if _, ok := r.(capFail); !ok {
				out.Fail = fmt.Sprintf("panic: %v\n%s", r, debug.Stack())
			}
		}
	}()
	if c.Mode == "srv" {
		srvBody(ctx, c)
	} else if c.Mode == "hgt" {
		hgtBody(ctx, c)
	} else {
		capBody(ctx, c)
	}
	return out
}

// runC37Cap: in-process normally; in a -race build in a child process of the test binary, whose
// race-detector reports are attributed to the case that was running and routed through
// ctx.Known (the detector reports each distinct race once per process and goes on).
func runC37Cap(ctx *ev.Ctx, c c37Case) {
	var out capOut
	if raceBuild && os.Getenv("VERIF_C37_INPROC") != "1" {
		var races []string
		out, races = c37ExecuteCap(c)
		for _, r := range races {
			key, what := classifyRace(r)
			if key == "" {
				// raised while the harness tears the server down (TXPoolServer.Stop / actor Stop): shutdown is outside
				// C37's statement (bookkeeping while the pool serves requests); counted, not judged
				ctx.Label("cap:race-report-at-teardown:not-judged")
				continue
			}
			ctx.Label("cap:race-report")
			ctx.Known(key, "%s", what)
		}
	} else {
		out = capRun(c)
	}
	for _, l := range out.Labels {
		ctx.Label(l)
	}
	if out.NonTrivial {
		ctx.NonTrivial()
	}
	if out.Crash != "" {
		ctx.Failf("capacity case brought the executor process down:\n%s", out.Crash)
	}
	if out.Fail != "" {
		ctx.Failf("%s", out.Fail)
	}
	keys := make([]string, 0, len(out.Known))
	for k := range out.Known {
		keys = append(keys, k)
	}
	sort.Strings(keys)
	for _, k := range keys {
		ctx.Known(k, "%s", out.Known[k])
	}
}

// classifyRace derives a root-cause key from a race-detector report: the innermost poly frames
// of the two conflicting accesses.
func classifyRace(report string) (key, what string) {
	var fns []string
	lines := strings.Split(report, "\n")
	// a conflicting access made from the teardown path (the harness stopping the server and its actors after the
	// case) is not pool bookkeeping under load: see the caller
	for _, l := range lines {
		l = strings.TrimSpace(l)
		if strings.HasPrefix(l, "Goroutine ") {
			break // creation stacks below do not matter
		}
		if strings.HasPrefix(l, "github.com/polynetwork/poly/txnpool/proc.(*TXPoolServer).Stop()") ||
			strings.HasPrefix(l, "github.com/ontio/ontology-eventbus/actor.(*PID).Stop()") {
			return "", ""
		}
	}
	for i := 0; i < len(lines); i++ {
		l := strings.TrimSpace(lines[i])
		if strings.HasPrefix(l, "Write at") || strings.HasPrefix(l, "Read at") || strings.HasPrefix(l, "Previous write at") || strings.HasPrefix(l, "Previous read at") ||
			strings.HasPrefix(l, "Atomic") || strings.HasPrefix(l, "Previous atomic") {
			for j := i + 1; j < len(lines) && strings.TrimSpace(lines[j]) != ""; j++ {
				f := strings.TrimSpace(lines[j])
				if strings.HasPrefix(f, "github.com/polynetwork/poly/") {
					f = strings.TrimPrefix(f, "github.com/polynetwork/poly/")
					if k := strings.Index(f, "("); k > 0 && strings.HasSuffix(f, "()") {
						f = f[:len(f)-2]
					}
					fns = append(fns, f)
					break
				}
			}
		}
	}
	sort.Strings(fns)
	key = "race:" + strings.Join(fns, "|")
	joined := strings.Join(fns, " ")
	if (strings.Contains(joined, "assignTxToWorker") || strings.Contains(joined, "reVerifyStateful")) && strings.Contains(joined, "txPoolWorker") {
		// one root cause: the load balancer reads len(worker.pendingTxList) without worker.mu
		key = "race:loadbalancer-reads-worker-pending-list-unlocked"
	}
	if len(lines) > 40 {
		lines = lines[:40]
	}
	return key, "race detector report while the real TXPoolServer handled submissions:\n" + strings.Join(lines, "\n")
}

func capBody(ctx *capCtx, c c37Case) {
	if c.Cap == nil || c.Cap.Below < 0 || c.Cap.Below > 16 {
		ctx.Failf("harness: malformed capacity case")
	}
	fx := useFixture(ctx, &capFx)
	fx.dirty = true // cleared at the regular end of the case
	txPid, pool := fx.txPid, fx.pool
	fx.mu.Lock()
	fx.gate = make(chan struct{})
	gate := fx.gate
	fx.mu.Unlock()
	released := false
	defer func() {
		if !released {
			close(gate)
		}
	}()
	want := tc.MAX_CAPACITY - c.Cap.Below
	fx.setPool(ctx, want)
	inPool := fx.inPool
	counts := func() (int, int) {
		r, err := txPid.RequestFuture(&tc.GetTxnCountReq{}, 60*time.Second).Result()
		if err != nil {
			ctx.Failf("tx actor did not answer a count request: %v", err)
		}
		rsp, ok := r.(*tc.GetTxnCountRsp)
		if !ok || len(rsp.Count) != 2 {
			ctx.Failf("tx actor answered %T to a count request", r)
		}
		return int(rsp.Count[0]), int(rsp.Count[1])
	}
	poolN, pendN := counts()
	if poolN != want || pendN != 0 {
		ctx.Failf("harness: after pre-fill pool=%d pending=%d, want %d/0", poolN, pendN, want)
	}

	type sub struct {
		kind     string
		ch       chan *tc.TxResult
		admitted bool
		tx       *types.Transaction
	}
	var subs []*sub
	nonce := capNonce
	defer func() { capNonce = nonce }()
	var lastPending *types.Transaction
	atCap, overAdmit := false, 0
	for i, kind := range c.Cap.Subs {
		var tx *types.Transaction
		switch kind {
		case "new":
			nonce++
			tx = capTx(nonce, world.Acct(i%4))
		case "outsider":
			nonce++
			tx = capTx(nonce, world.Acct(40+i)) // not a consensus peer, not a relayer
		case "duppool":
			tx = inPool // from a permitted sender, already verified and in the pool
		case "duppending":
			if lastPending == nil {
				nonce++
				tx = capTx(nonce, world.Acct(0))
				kind = "new"
			} else {
				tx = lastPending
			}
		default:
			ctx.Failf("harness: unknown submission kind %q", kind)
		}
		sb := &sub{kind: kind, ch: make(chan *tc.TxResult, 1), tx: tx}
		subs = append(subs, sb)
		txPid.Tell(&tc.TxReq{Tx: tx, Sender: tc.HttpSender, TxResultCh: sb.ch})
		p2, q2 := counts() // the actor handles its mailbox in order: the submission has been handled
		var res *tc.TxResult
		select {
		case res = <-sb.ch:
		default:
		}
		what := fmt.Sprintf("submission %d (%s) with pool=%d/%d pending=%d", i, kind, poolN, tc.MAX_CAPACITY, pendN)
		grew := p2 != poolN || q2 != pendN
		full := poolN+pendN >= tc.MAX_CAPACITY // verified + being verified already fill the capacity
		if full {
			atCap = true
		}
		refused := func(why string, reasons ...perr.ErrCode) {
			okReason := false
			if res != nil {
				for _, r := range reasons {
					if res.Err == r {
						okReason = true
					}
				}
			}
			if grew || res == nil || res.Err == perr.ErrNoError || (len(reasons) > 0 && !okReason) {
				ctx.Failf("%s: %s must be refused without effect; pool=%d pending=%d result=%v", what, why, p2, q2, res)
			}
		}
		switch {
		case kind == "outsider":
			refused("a sender that is neither relayer nor consensus peer")
		case kind == "duppool" || kind == "duppending":
			// either reason is a correct refusal; "full" only when it is full
			if full {
				refused("a transaction the pool already holds or is verifying", perr.ErrDuplicateInput, perr.ErrTxPoolFull)
			} else {
				refused("a transaction the pool already holds or is verifying", perr.ErrDuplicateInput)
			}
		case full:
			refused("a submission that meets a full pool (verified + pending = capacity)")
		default:
			// new hash, room left: admission is required
			if p2 != poolN || q2 != pendN+1 || res != nil {
				ctx.Failf("%s: a new transaction from a permitted sender must be admitted for verification while pool+pending is below the capacity; pool=%d pending=%d result=%v",
					what, p2, q2, res)
			}
			sb.admitted = true
			lastPending = tx
		}
		if q2 == pendN+1 && !sb.admitted {
			sb.admitted = true // (only reachable behind a known finding) keep the bookkeeping in step
			lastPending = tx
		}
		if p2+q2 > tc.MAX_CAPACITY {
			overAdmit++
			ctx.Label("cap:overshoot")
			ctx.Known("capacity-check-ignores-pending",
				"after %s: pool=%d + pending=%d exceed the capacity %d (admission check in txnpool_actor.go handleTransaction)", what, p2, q2, tc.MAX_CAPACITY)
		}
		poolN, pendN = p2, q2
	}
	// let the validators answer and wait for the pending list to drain
	released = true
	close(gate)
	for i := 0; ; i++ {
		poolN, pendN = counts()
		if pendN == 0 {
			poolN, pendN = counts() // pool count and pending size are not read atomically: read again now that nothing moves
			break
		}
		if i > 30000 {
			ctx.Failf("pending list did not drain: pool=%d pending=%d", poolN, pendN)
		}
		time.Sleep(time.Millisecond)
	}
	admitted := 0
	for i, sb := range subs {
		if !sb.admitted {
			continue
		}
		admitted++
		select {
		case r := <-sb.ch:
			if r.Err != perr.ErrNoError {
				ctx.Failf("submission %d was verified by approving validators but answered %v", i, r)
			}
		case <-time.After(30 * time.Second):
			ctx.Failf("submission %d was admitted and verified but its submitter never got a result", i)
		}
		if pool.GetTransaction(sb.tx.Hash()) == nil {
			ctx.Failf("submission %d was verified but is not in the pool", i)
		}
		fx.extra = append(fx.extra, sb.tx)
	}
	if poolN != want+admitted {
		ctx.Failf("pool holds %d after verification, pre-fill %d + %d admitted", poolN, want, admitted)
	}
	fx.dirty = false
	ctx.Label(fmt.Sprintf("cap:below=%d", c.Cap.Below))
	if atCap {
		ctx.Label("cap:submission-at-capacity")
	}
	if atCap || overAdmit > 0 {
		ctx.NonTrivial()
	}
	if poolN > tc.MAX_CAPACITY {
		ctx.Label("cap:overshoot")
		ctx.Known("capacity-check-ignores-pending",
			"at quiescence the pool holds %d verified transactions, capacity is %d: %d submissions were admitted while the pool held %d",
			poolN, tc.MAX_CAPACITY, admitted, want)
	}
}
