package ppool

import (
	"pgregory.net/rapid"

	"verif/harness/ev"
)

type c37Cap struct{}

const c37CapEnabled = false

func genC37Cap(t *rapid.T) c37Case { return c37Case{Mode: "cap"} }

func runC37Cap(ctx *ev.Ctx, c c37Case) {}
