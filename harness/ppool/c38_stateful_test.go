package ppool

import (
	"fmt"
	"os"
	"reflect"
	"sync"
	"sync/atomic"
	"testing"
	"time"
	"unsafe"

	"github.com/ontio/ontology-eventbus/actor"
	"github.com/polynetwork/poly/common"
	"github.com/polynetwork/poly/common/config"
	"github.com/polynetwork/poly/core/ledger"
	"github.com/polynetwork/poly/core/store"
	"github.com/polynetwork/poly/core/types"
	perr "github.com/polynetwork/poly/errors"
	"github.com/polynetwork/poly/validator/increment"
	"github.com/polynetwork/poly/validator/stateful"
	vatypes "github.com/polynetwork/poly/validator/types"
	"pgregory.net/rapid"

	"verif/harness/ev"
	"verif/harness/lworld"
)

// ---------------------------------------------------------------------------------------------
// C38, schedule-owning unit for the stateful validator.
//
// A response {ErrNoError, Height: H} of the stateful validator means "the transaction is in no
// block of height <= H": the pool stores H with the entry and a proposer runs the recent-block
// (increment) check only for heights above H. Whether that holds depends on how the validator's
// two ledger reads (current height, is-the-tx-contained) interleave with block commits. Here the
// harness OWNS that interleaving: a pass-through wrapper around the ledger's store (slipped in
// through reflection; everything is delegated to the real ledgerstore) runs a one-shot harness
// callback right after IsContainTransaction returns or right after GetCurrentBlockHeight returns,
// and the callback commits a real block (ExecuteBlock+SubmitBlock through lworld) - exactly what
// the consensus goroutine does while the validator actor is busy. The schedule is part of the
// generated case, so every case is deterministic and replayable.

type c38sStep struct {
	K   string `json:"k"`             // block | check | restart (ledger closed and reopened on the same directory: node restart, caches cold)
	Txs []int  `json:"txs,omitempty"` // block: transaction ids
	Tx  int    `json:"tx,omitempty"`  // check: transaction id asked about
	At  string `json:"at,omitempty"`  // check: when a block is committed: none | before | lookup (right after IsContainTransaction returned) | height (right after GetCurrentBlockHeight returned)
	Blk string `json:"blk,omitempty"` // check: what that block holds: self (the checked tx) | other (a fresh tx) | empty | selfother
}

type c38sCase struct {
	Cap   int        `json:"cap"` // capacity of the recent-block tracker fed with every committed block
	Steps []c38sStep `json:"steps"`
}

func genC38s(t *rapid.T) c38sCase {
	c := c38sCase{Cap: []int{20, 20, 1, 2, 3, 5, 8, 20}[fairInt(t, 8, "cap")]}
	c.Steps = rapid.SliceOfN(rapid.Custom(func(t *rapid.T) c38sStep {
		switch fairInt(t, 8, "kind") {
		case 0, 1:
			return c38sStep{K: "block", Txs: rapid.SliceOfN(rapid.IntRange(0, c38LedgerIDs-1), 0, 3).Draw(t, "txs")}
		case 2:
			return c38sStep{K: "restart"}
		}
		return c38sStep{K: "check", Tx: rapid.IntRange(0, c38LedgerIDs-1).Draw(t, "tx"),
			At:  []string{"none", "before", "lookup", "lookup", "height", "height", "lookup", "none"}[fairInt(t, 8, "at")],
			Blk: []string{"self", "self", "other", "empty", "selfother", "self", "other", "self"}[fairInt(t, 8, "blk")]}
	}), 1, ev.Scale(8, 14)).Draw(t, "steps")
	return c
}

// hookedStore forwards everything to the real ledger store; a one-shot callback can be armed to run
// right after the next IsContainTransaction or GetCurrentBlockHeight has returned.
type hookedStore struct {
	store.LedgerStore
	mu          sync.Mutex
	afterLookup func()
	afterHeight func()
	lookups     int32
	heights     int32
}

func (s *hookedStore) take(which string) func() {
	s.mu.Lock()
	defer s.mu.Unlock()
	var f func()
	if which == "lookup" {
		f, s.afterLookup = s.afterLookup, nil
	} else {
		f, s.afterHeight = s.afterHeight, nil
	}
	return f
}

func (s *hookedStore) IsContainTransaction(h common.Uint256) (bool, error) {
	ok, err := s.LedgerStore.IsContainTransaction(h)
	atomic.AddInt32(&s.lookups, 1)
	if f := s.take("lookup"); f != nil {
		f()
	}
	return ok, err
}

func (s *hookedStore) GetCurrentBlockHeight() uint32 {
	h := s.LedgerStore.GetCurrentBlockHeight()
	atomic.AddInt32(&s.heights, 1)
	if f := s.take("height"); f != nil {
		f()
	}
	return h
}

func (s *hookedStore) arm(which string, f func()) {
	s.mu.Lock()
	if which == "lookup" {
		s.afterLookup = f
	} else {
		s.afterHeight = f
	}
	s.mu.Unlock()
}

func (s *hookedStore) disarm() {
	s.mu.Lock()
	s.afterLookup, s.afterHeight = nil, nil
	s.mu.Unlock()
}

func installHookedStore(l *ledger.Ledger) *hookedStore {
	h := &hookedStore{LedgerStore: l.GetStore()}
	f := reflect.ValueOf(l).Elem().FieldByName("ldgStore")
	if !f.IsValid() {
		panic("harness: ledger.Ledger has no field ldgStore any more")
	}
	reflect.NewAt(f.Type(), unsafe.Pointer(f.UnsafeAddr())).Elem().Set(reflect.ValueOf(store.LedgerStore(h)))
	if l.GetStore() != store.LedgerStore(h) {
		panic("harness: store wrapper not installed")
	}
	return h
}

func runC38s(ctx *ev.Ctx, c c38sCase) {
	const netID = 2
	dir := lworld.TempDir("c38s")
	defer os.RemoveAll(dir)
	ch, err := lworld.Open(dir, 4, netID)
	if err != nil {
		ctx.Failf("harness: open ledger: %v", err)
	}
	defer ch.Close()
	real := ch.Store // the harness's own reads and all commits go to the real store directly
	hooked := installHookedStore(ch.Ledger)
	old := ledger.DefLedger
	ledger.DefLedger = ch.Ledger
	defer func() { ledger.DefLedger = old }()

	got := make(chan *vatypes.RegisterValidator, 1)
	recv := actor.Spawn(actor.FromFunc(func(c actor.Context) {
		if m, ok := c.Message().(*vatypes.RegisterValidator); ok {
			select {
			case got <- m:
			default:
			}
		}
	}))
	defer recv.Stop()
	name := fmt.Sprintf("verif-stateful-sched-%d-%d", os.Getpid(), atomic.AddInt64(&c38ActorSeq, 1))
	v, err := stateful.NewValidator(name)
	if err != nil {
		ctx.Failf("harness: NewValidator: %v", err)
	}
	v.Register(recv)
	var pid *actor.PID
	select {
	case m := <-got:
		pid = m.Sender
	case <-time.After(20 * time.Second):
		ctx.Failf("harness: validator did not register within 20 s")
	}
	defer pid.Tell(&vatypes.UnRegisterAck{Id: name, Type: vatypes.Stateful})

	capEff := c.Cap
	if capEff <= 0 {
		capEff = 20
	}
	iv := increment.NewIncrementValidator(capEff)
	iv.AddBlock(ch.Genesis)

	txs := make([]*types.Transaction, c38LedgerIDs)
	for id := range txs {
		txs[id] = c38LedgerTx(id, netID)
	}
	inclHeight := map[common.Uint256]uint32{} // harness's record: tx hash -> height of the block it was committed in
	fresh := uint32(0)
	var commitErr error
	// commit: one real block; runs on the harness goroutine or, scheduled, on the validator actor's
	commit := func(list []*types.Transaction) {
		var in []*types.Transaction
		seen := map[common.Uint256]bool{}
		for _, t := range list {
			if _, done := inclHeight[t.Hash()]; !done && !seen[t.Hash()] {
				seen[t.Hash()] = true
				in = append(in, t)
			}
		}
		b := lworld.Roundtrip(ch.Build(in, lworld.BlockOpt{}))
		if err := ch.Commit(b); err != nil {
			commitErr = fmt.Errorf("block %d rejected by the ledger: %v", b.Header.Height, err)
			return
		}
		for _, t := range in {
			inclHeight[t.Hash()] = b.Header.Height
		}
		iv.AddBlock(b)
	}
	otherTx := func() *types.Transaction {
		fresh++
		return lworld.MakeSignedTx(config.GetChainIdByNetId(netID), 8000+fresh, lworld.ProbeAddress, "run",
			lworld.EncodeScript([]lworld.Step{{Op: "put", K: ev.B{0xee, byte(fresh)}, V: ev.B{1}}}), nil)
	}

	midSelf := false
	restarted, afterRestart := false, false
	restartHeight := uint32(0) // blocks up to here were committed before the last restart
	for i, st := range c.Steps {
		if st.K == "restart" {
			// node restart: the ledger is closed and opened again on the same directory (block-store
			// caches start cold); it becomes ledger.DefLedger again, behind a new pass-through wrapper
			before := real.GetCurrentBlockHeight()
			if err := ch.Restart(); err != nil {
				ctx.Failf("harness: step %d: restart of the ledger failed: %v", i, err)
			}
			real = ch.Store
			hooked = installHookedStore(ch.Ledger)
			ledger.DefLedger = ch.Ledger
			if h := real.GetCurrentBlockHeight(); h != before {
				ctx.Failf("harness: step %d: ledger height %d after restart, %d before", i, h, before)
			}
			restarted = true
			restartHeight = before
			continue
		}
		if st.K == "block" {
			var list []*types.Transaction
			for _, id := range st.Txs {
				list = append(list, txs[((id%c38LedgerIDs)+c38LedgerIDs)%c38LedgerIDs])
			}
			commit(list)
			if commitErr != nil {
				ctx.Failf("harness: step %d: %v", i, commitErr)
			}
			continue
		}
		tx := txs[((st.Tx%c38LedgerIDs)+c38LedgerIDs)%c38LedgerIDs]
		var blk []*types.Transaction
		switch st.Blk {
		case "self":
			blk = []*types.Transaction{tx}
		case "other":
			blk = []*types.Transaction{otherTx()}
		case "selfother":
			blk = []*types.Transaction{otherTx(), tx}
		case "empty":
		default:
			ctx.Failf("harness: unknown block content %q", st.Blk)
		}
		what := fmt.Sprintf("step %d: CheckTx(tx %d), block [%s] committed %s", i, st.Tx, st.Blk, st.At)
		switch st.At {
		case "before":
			commit(blk)
		case "lookup", "height":
			hooked.arm(st.At, func() { commit(blk) })
		case "none":
		default:
			ctx.Failf("harness: unknown schedule point %q", st.At)
		}
		if commitErr != nil {
			ctx.Failf("harness: %s: %v", what, commitErr)
		}
		h0, wasIn := inclHeight[tx.Hash()]
		if wasIn && restarted && h0 <= restartHeight {
			afterRestart = true
		}
		startHeight := real.GetCurrentBlockHeight()
		l0, g0 := atomic.LoadInt32(&hooked.lookups), atomic.LoadInt32(&hooked.heights)
		res, err := pid.RequestFuture(&vatypes.CheckTx{WorkerId: uint8(i), Tx: tx}, 60*time.Second).Result()
		hooked.disarm()
		if err != nil {
			ctx.Failf("%s: stateful validator did not answer: %v", what, err)
		}
		if commitErr != nil {
			ctx.Failf("harness: %s: %v", what, commitErr)
		}
		r, ok := res.(*vatypes.CheckResponse)
		if !ok {
			ctx.Failf("%s: stateful validator answered %T", what, res)
		}
		if atomic.LoadInt32(&hooked.lookups) == l0 || atomic.LoadInt32(&hooked.heights) == g0 {
			ctx.Label("validator-bypassed-the-store-wrapper") // the schedule points were not reached: nothing scheduled could happen
		}
		endHeight := real.GetCurrentBlockHeight()
		// the ledger itself, asked afterwards through the real store
		_, ledgerIncl, gerr := real.GetTransaction(tx.Hash())
		inLedger := gerr == nil
		if hm, rec := inclHeight[tx.Hash()]; rec != inLedger || (rec && hm != ledgerIncl) {
			ctx.Failf("harness: %s: own record of tx inclusion (%v, %d) disagrees with the ledger (%v, %d)", what, rec, hm, inLedger, ledgerIncl)
		}
		if r.Hash != tx.Hash() || r.WorkerId != uint8(i) || r.Type != vatypes.Stateful {
			ctx.Failf("%s: response does not echo the request", what)
		}
		if r.Height < startHeight || r.Height > endHeight {
			ctx.Failf("%s: response carries height %d, the ledger was at %d when the request was sent and is at %d now", what, r.Height, startHeight, endHeight)
		}
		switch r.ErrCode {
		case perr.ErrNoError:
			if wasIn {
				ctx.Failf("%s: the transaction was already in the ledger (block %d) when the request was sent, yet it passed stateful validation (height %d)", what, h0, r.Height)
			}
			if inLedger && ledgerIncl <= r.Height {
				ctx.Failf("%s: the validator answered \"not in any block up to height %d\", but the transaction is in block %d (committed while the request was served): "+
					"the pool will store height %d and proposers only re-check blocks above it", what, r.Height, ledgerIncl, r.Height)
			}
			if inLedger {
				// the proposer's next step: recent-block check for everything above the validated height
				if verr := iv.Verify(tx, r.Height+1); verr == nil {
					s, e := iv.BlockRange()
					ctx.Failf("%s: duplicate slips through: stateful pass as of height %d, the transaction is in block %d, and the recent-block check from height %d (tracked range [%d,%d)) found nothing",
						what, r.Height, ledgerIncl, r.Height+1, s, e)
				}
			}
		case perr.ErrDuplicatedTx:
			if !inLedger {
				ctx.Failf("%s: reported as duplicate, but the ledger does not contain the transaction", what)
			}
		default:
			ctx.Failf("%s: unexpected error code %d (%s)", what, r.ErrCode, r.ErrCode.Error())
		}
		if st.At == "none" && r.Height != endHeight {
			ctx.Failf("%s: nothing was committed meanwhile, yet the response height %d is not the ledger height %d", what, r.Height, endHeight)
		}
		if (st.At == "lookup" || st.At == "height") && (st.Blk == "self" || st.Blk == "selfother") && !wasIn {
			midSelf = true
			ctx.Label("commit-of-checked-tx-during-request:" + st.At + "->" + map[bool]string{true: "pass", false: "dup"}[r.ErrCode == perr.ErrNoError])
		}
	}
	if afterRestart {
		ctx.Label("committed-tx-asked-after-restart")
	}
	if midSelf || afterRestart {
		ctx.NonTrivial()
	}
}

func TestC38Stateful(t *testing.T) {
	ev.Get("C38").Extra("stateful_schedule_unit", "ppool.TestC38Stateful: real stateful-validator actor over a real ledger whose store is wrapped by a pass-through "+
		"that lets the generated case commit real blocks between the validator's ledger reads")
	ev.Drive(t, "C38",
		"schedule unit: real ledger (4 validators) as DefLedger behind a pass-through store wrapper, real stateful-validator actor, real IncrementValidator (capacity 1..8 or 20) fed "+
			"with every committed block; history of 1.."+fmt.Sprint(ev.Scale(8, 14))+" steps: commit a block of 0..3 transactions, restart the ledger (close + reopen on the same directory, caches cold), or CheckTx(tx) together with a schedule choice - a block "+
			"holding the checked tx / a fresh tx / both / nothing is committed before the request, right after the validator's IsContainTransaction returned, right after its "+
			"GetCurrentBlockHeight returned, or not at all. Judged per response: a tx in the ledger before the request fails; a pass at height H implies the tx is in no block <= H (asked "+
			"from the real store afterwards) and, if it is in a later block, IncrementValidator.Verify(tx, H+1) refuses it; a duplicate verdict implies the tx is in the ledger; H lies "+
			"between the ledger heights at request and response. non-trivial: a block holding the checked (not yet committed) tx was committed while the request was being served, or a committed tx was asked about after a restart; "+
			"distinct by JSON of the case",
		genC38s, runC38s)
}
