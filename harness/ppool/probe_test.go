package ppool

import (
	"fmt"
	"os"
	"testing"
	"time"

	"pgregory.net/rapid"
)

func TestProbe(t *testing.T) {
	gen := rapid.Custom(genC37Conc)
	zero, n := 0, 0
	t0 := time.Now()
	for s := 0; s < 150; s++ {
		c := gen.Example(s)
		probeTweak(&c)
		tot := 0
		for _, p := range c.Progs {
			tot += len(p)
		}
		t1 := time.Now()
		h := c37Execute(c)
		d := time.Since(t1)
		ov := 0
		for i := range h.Ev {
			for j := i + 1; j < len(h.Ev); j++ {
				a, b := &h.Ev[i], &h.Ev[j]
				if a.G != b.G && a.Call < b.Ret && b.Call < a.Ret {
					ov++
				}
			}
		}
		n++
		if ov == 0 {
			zero++
		}
		if s < 60 {
			fmt.Printf("g=%d ops=%d rep=%d inner=%d P=%d fill=%d events=%d overlap=%d %.1fms\n", len(c.Progs), tot, c.Rep, c.Inner, c.P, c.Fill, len(h.Ev), ov, float64(d.Microseconds())/1000)
		}
	}
	fmt.Printf("zero %d/%d in %v\n", zero, n, time.Since(t0))
	c37StopChild()
}

func probeTweak(c *c37Case) {
	tot := 0
	for _, p := range c.Progs {
		tot += len(p)
	}
	switch os.Getenv("PROBE") {
	case "B":
		c.Rep = 400 / tot
		c.Inner = c.Rep
	case "C":
		c.Rep = 400 / tot
		c.Inner = 4
	case "D":
		c.Rep = 1000 / tot
		c.Inner = c.Rep
	}
}
