package ppool

import (
	"fmt"
	"math"
	"testing"

	"github.com/polynetwork/poly/core/types"
	"github.com/polynetwork/poly/validator/increment"
	"pgregory.net/rapid"

	"verif/harness/ev"
)

// ---------------------------------------------------------------------------------------------
// C38 Recent-block duplicate detection is exact
//
// mode "tracker": IncrementValidator against a window model, all (tx, start height) queries after
// every step of the history. mode "ledger": the real stateful-validator actor over a real ledger
// (c38_ledger_test.go).

type c38Op struct {
	K   string `json:"k"`            // add | clean
	HM  string `json:"hm,omitempty"` // next | gap | back | same | abs : how the block height is chosen
	D   uint32 `json:"d,omitempty"`  // gap/back distance (>=0, +1 applied) or absolute height
	Txs []int  `json:"txs,omitempty"`
}

type c38Case struct {
	Mode string  `json:"mode"`
	Cap  int     `json:"cap"`
	Base uint32  `json:"base"`
	Ops  []c38Op `json:"ops,omitempty"`
	// ledger mode
	Blocks  [][]int `json:"blocks,omitempty"`  // transactions (ids) of each committed block
	Queries []int   `json:"queries,omitempty"` // transaction ids asked after every block
}

const c38Universe = 10 // tx ids 0..9 appear in blocks; id maxTxIDs never does

func genC38Op(t *rapid.T) c38Op {
	k := rapid.SampledFrom([]string{"add", "add", "add", "add", "add", "add", "add", "add", "add", "add", "add", "clean"}).Draw(t, "k")
	if k == "clean" {
		return c38Op{K: k}
	}
	op := c38Op{K: "add"}
	op.HM = rapid.SampledFrom([]string{"next", "next", "next", "next", "next", "next", "next", "gap", "back", "same", "abs"}).Draw(t, "hm")
	switch op.HM {
	case "gap", "back":
		op.D = rapid.Uint32Range(0, 4).Draw(t, "d")
	case "abs":
		op.D = rapid.OneOf(rapid.Uint32Range(0, 40), rapid.SampledFrom([]uint32{0, 1, math.MaxUint32})).Draw(t, "abs")
	}
	op.Txs = rapid.SliceOfN(rapid.IntRange(0, c38Universe-1), 0, 4).Draw(t, "txs")
	return op
}

func genC38Tracker(t *rapid.T) c38Case {
	c := c38Case{Mode: "tracker"}
	c.Cap = rapid.SampledFrom([]int{1, 1, 2, 2, 3, 3, 4, 5, 6, 7, 8, 0, -1}).Draw(t, "cap")
	c.Base = rapid.SampledFrom([]uint32{0, 0, 1, 2, 7, 7, 30, 1 << 31, math.MaxUint32 - 40}).Draw(t, "base")
	hi := ev.Scale(28, 48)
	c.Ops = rapid.SliceOfN(rapid.Custom(genC38Op), 1, hi).Draw(t, "ops")
	return c
}

func genC38(t *rapid.T) c38Case {
	if c38LedgerEnabled && c38DrawLedger(t) {
		return genC38Ledger(t)
	}
	return genC38Tracker(t)
}

// window model: every accepted block since the last reset is remembered; the tracked window is
// the last `cap` of them.
type c38Blk struct {
	h   uint32
	txs map[int]bool
}

type c38Model struct {
	cap      int
	accepted []c38Blk
}

func (m *c38Model) window() []c38Blk {
	if len(m.accepted) > m.cap {
		return m.accepted[len(m.accepted)-m.cap:]
	}
	return m.accepted
}

func (m *c38Model) add(h uint32, txs []int) bool {
	if n := len(m.accepted); n > 0 && m.accepted[n-1].h+1 != h {
		return false
	}
	b := c38Blk{h: h, txs: map[int]bool{}}
	for _, id := range txs {
		b.txs[id] = true
	}
	m.accepted = append(m.accepted, b)
	return true
}

// query: (mustErr, mustPass): below the window -> must err; otherwise err <=> duplicate
func (m *c38Model) dup(id int, start uint32) (below bool, dup bool) {
	w := m.window()
	if len(w) == 0 {
		return false, false
	}
	if start < w[0].h {
		return true, false
	}
	for _, b := range w {
		if b.h >= start && b.txs[id] {
			return false, true
		}
	}
	return false, false
}

func runC38(ctx *ev.Ctx, c c38Case) {
	ctx.Label("mode:" + c.Mode)
	if c.Mode == "ledger" {
		runC38Ledger(ctx, c)
		return
	}
	initTxs()
	capEff := c.Cap
	if capEff <= 0 {
		capEff = 20 // documented default of NewIncrementValidator
		ctx.Label("cap:default20")
	}
	iv := increment.NewIncrementValidator(c.Cap)
	m := &c38Model{cap: capEff}
	var slid, rejected, shared, cleaned bool
	everIn := map[int]int{} // tx id -> number of accepted blocks holding it

	check := func(step int) {
		w := m.window()
		var wantS, wantE uint32
		if len(w) > 0 {
			wantS, wantE = w[0].h, w[len(w)-1].h+1
		}
		s, e := iv.BlockRange()
		if s != wantS || e != wantE {
			ctx.Failf("after step %d: BlockRange = [%d,%d), window model says [%d,%d) (cap %d, %d accepted blocks)",
				step, s, e, wantS, wantE, capEff, len(m.accepted))
		}
		// all start heights around the window, and the extremes
		starts := []uint32{0, 1, math.MaxUint32, math.MaxUint32 - 1}
		lo, hi := wantS, wantE
		for d := uint32(0); d <= 3; d++ {
			if lo >= d {
				starts = append(starts, lo-d)
			}
			if hi <= math.MaxUint32-d {
				starts = append(starts, hi+d)
			}
		}
		for h := lo; h < hi; h++ {
			starts = append(starts, h)
		}
		for _, st := range starts {
			for id := 0; id <= c38Universe; id++ {
				qid := id
				if id == c38Universe {
					qid = maxTxIDs // a transaction that was never in any block
				}
				for cp := 0; cp < 2; cp++ { // same content, different object
					var err error
					if p := ev.Catch(func() { err = iv.Verify(txOf(txRef{qid, cp}), st) }); p != "" {
						ctx.Failf("after step %d: Verify(tx %d, start %d) panicked: %s", step, qid, st, p)
					}
					below, dup := m.dup(qid, st)
					switch {
					case below:
						if err == nil {
							ctx.Failf("after step %d: Verify(tx %d, start %d) passed although start is below the tracked range [%d,%d): blocks before the window cannot be vouched for",
								step, qid, st, wantS, wantE)
						}
					case dup:
						if err == nil {
							ctx.Failf("after step %d: Verify(tx %d, start %d) passed, but the tx is in a tracked block at height >= %d (window [%d,%d), model %s)",
								step, qid, st, st, wantS, wantE, m.describe())
						}
					default:
						if err != nil {
							ctx.Failf("after step %d: Verify(tx %d, start %d) = %q, but no tracked block at height >= %d holds it (window [%d,%d), model %s)",
								step, qid, st, err.Error(), st, wantS, wantE, m.describe())
						}
					}
				}
			}
		}
	}

	check(-1)
	for i, op := range c.Ops {
		if op.K == "clean" {
			iv.Clean()
			m.accepted = nil
			cleaned = true
			check(i)
			continue
		}
		// resolve the height against the model state
		var h uint32
		n := len(m.accepted)
		var end uint32 // next contiguous height
		if n == 0 {
			end = c.Base
		} else {
			last := m.accepted[n-1].h
			if last == math.MaxUint32 {
				ctx.Label("stop:height-wrap") // heights beyond 2^32-1 do not exist; not judged
				break
			}
			end = last + 1
		}
		switch op.HM {
		case "next":
			h = end
		case "gap":
			if end > math.MaxUint32-op.D-1 {
				h = end
			} else {
				h = end + 1 + op.D
			}
		case "back":
			if end < op.D+1 {
				h = end
			} else {
				h = end - 1 - op.D
			}
		case "same":
			if n == 0 {
				h = end
			} else {
				h = m.accepted[n-1].h
			}
		case "abs":
			h = op.D
		default:
			h = end
		}
		blk := &types.Block{Header: &types.Header{Height: h}}
		for j, id := range op.Txs {
			blk.Transactions = append(blk.Transactions, txOf(txRef{id % c38Universe, j % maxCopies}))
		}
		if p := ev.Catch(func() { iv.AddBlock(blk) }); p != "" {
			ctx.Failf("step %d: AddBlock(height %d) panicked: %s", i, h, p)
		}
		ids := make([]int, len(op.Txs))
		for j, id := range op.Txs {
			ids[j] = id % c38Universe
		}
		if m.add(h, ids) {
			for id := range m.accepted[len(m.accepted)-1].txs {
				everIn[id]++
				if everIn[id] > 1 {
					shared = true
				}
			}
			if len(m.accepted) > capEff {
				slid = true
			}
		} else {
			rejected = true
		}
		check(i)
	}
	if slid {
		ctx.Label("window-slid")
	}
	if rejected {
		ctx.Label("noncontiguous-ignored")
	}
	if shared {
		ctx.Label("tx-in-several-blocks")
	}
	if cleaned {
		ctx.Label("cleaned")
	}
	// non-trivial: the window slid past its capacity AND a non-contiguous block was offered AND
	// some transaction sits in more than one accepted block
	if slid && rejected && shared {
		ctx.NonTrivial()
	}
}

func (m *c38Model) describe() string {
	s := ""
	for _, b := range m.window() {
		s += fmt.Sprintf("%d:[", b.h)
		for id := 0; id < c38Universe; id++ {
			if b.txs[id] {
				s += fmt.Sprintf("%d ", id)
			}
		}
		s += "] "
	}
	return s
}

func TestC38(t *testing.T) {
	ev.Drive(t, "C38",
		"cases: tracker capacity 1..8 (or the default 20), a history of 1.."+fmt.Sprint(ev.Scale(28, 48))+" AddBlock/Clean steps whose heights are "+
			"contiguous, gapped, repeated, lower or absolute, blocks of 0..4 transactions from a universe of 10 (shared across blocks, "+
			"same content as different objects); after EVERY step BlockRange and Verify(tx, start) for all 11 transactions x all start heights "+
			"in and around the window (and 0, 2^32-1) are compared with a window model; plus ledger cases: real stateful-validator actor over a "+
			"real ledger after every committed block. non-trivial (tracker): the window slid past its capacity, a non-contiguous block was "+
			"offered and some transaction is in more than one accepted block; (ledger): at least one committed and one fresh transaction asked; "+
			"distinct by JSON encoding of the case",
		genC38, runC38)
}
