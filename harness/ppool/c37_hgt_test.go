package ppool

import (
	"fmt"
	"time"

	"github.com/ontio/ontology-eventbus/actor"
	"github.com/polynetwork/poly/common"
	"github.com/polynetwork/poly/common/config"
	"github.com/polynetwork/poly/core/types"
	perr "github.com/polynetwork/poly/errors"
	tc "github.com/polynetwork/poly/txnpool/common"
	"github.com/polynetwork/poly/txnpool/proc"
	vt "github.com/polynetwork/poly/validator/types"
	"pgregory.net/rapid"

	"verif/harness/world"
)

// ---------------------------------------------------------------------------------------------
// C37, height-race part: "hands consensus ... transactions all verified at or after the requested
// height". A stateful answer is only worth the ledger height it was computed at; the height
// consensus works at can rise (block verification / pool request at a larger height) while the
// answer is on its way. The harness OWNS that schedule: a fresh real TXPoolServer (pool actor,
// verify-response actor, tx actor, 1..2 workers), a stateless stub answering at once, and a
// stateful stub that only records requests; the generated case decides when an outstanding
// request is answered and with which height. Blocks sent for verification hold ONE transaction
// (a multi-transaction proposal can deadlock in the unchanged code, see the server part).
//
// Steps:   verify  VerifyBlockReq{cur+DH, [tx]} through the pool actor (consensus stub collects the result)
//          getpool GetTxnPoolReq{cur+DH}
//          answer  the oldest outstanding stateful request is answered with the height at which it
//                  was asked ("asked"), one lower ("older") or the current one ("now")
// Judged:  (a) an answer whose height is below the current height is never accepted: the
//              transaction stays pending and the stateful validator is asked again;
//          (b) every transaction reported valid (ErrNoError) in a block-verification result for
//              height H, and every entry handed out by a pool request for H, carries a stateful
//              verification at a height >= H;
//          (c) a transaction whose answer is current ends up in the pool recorded with exactly that
//              height; nothing is lost: at the end every transaction ever sent is in the pool.

type c37HStep struct {
	K   string `json:"k"`             // verify | getpool | answer
	Tx  int    `json:"tx,omitempty"`  // verify: transaction id 0..2
	DH  int    `json:"dh,omitempty"`  // verify / getpool: height increment
	Ans string `json:"ans,omitempty"` // answer: asked | older | now
}

type c37Hgt struct {
	Workers int        `json:"workers"`
	Start   uint32     `json:"start"`
	Steps   []c37HStep `json:"steps"`
}

func genC37Hgt(t *rapid.T) c37Case {
	c := c37Case{Mode: "hgt", MaxTx: []int{0, 1, 100, 100}[fairInt(t, 4, "maxtx")]}
	h := &c37Hgt{Workers: 1 + fairInt(t, 2, "workers"), Start: []uint32{1, 5, 5, 1000}[fairInt(t, 4, "start")]}
	h.Steps = rapid.SliceOfN(rapid.Custom(func(t *rapid.T) c37HStep {
		st := c37HStep{K: []string{"verify", "verify", "verify", "getpool", "answer", "answer", "answer", "getpool"}[fairInt(t, 8, "kind")]}
		switch st.K {
		case "verify":
			st.Tx = fairInt(t, 4, "tx") % 3
			st.DH = []int{0, 1, 1, 2}[fairInt(t, 4, "dh")]
		case "getpool":
			st.DH = []int{0, 1, 1, 2}[fairInt(t, 4, "dh")]
		case "answer":
			st.Ans = []string{"asked", "asked", "now", "older"}[fairInt(t, 4, "ans")]
		}
		return st
	}), 1, 12).Draw(t, "steps")
	c.Hgt = h
	return c
}

type hgtReq struct {
	req   *vt.CheckTx
	reply *actor.PID
	asked uint32 // the height consensus was at when the request was issued
}

func hgtStateful(attrs []*tc.TXAttr) (uint32, bool) {
	for _, a := range attrs {
		if a.Type == vt.Stateful {
			return a.Height, true
		}
	}
	return 0, false
}

func hgtBody(ctx *capCtx, c c37Case) {
	if c.Hgt == nil || c.Hgt.Workers < 1 || c.Hgt.Workers > 4 {
		ctx.Failf("harness: malformed height-race case")
	}
	config.DefConfig.Consensus.MaxTxInBlock = uint(c.MaxTx)
	s := proc.NewTxPoolServer(uint8(c.Hgt.Workers), true, true)
	defer s.Stop()
	spawn := func(f func() actor.Actor) *actor.PID { return actor.Spawn(actor.FromProducer(f)) }
	rspPid := spawn(func() actor.Actor { return proc.NewVerifyRspActor(s) })
	s.RegisterActor(tc.VerifyRspActor, rspPid)
	poolPid := spawn(func() actor.Actor { return proc.NewTxPoolActor(s) })
	s.RegisterActor(tc.TxPoolActor, poolPid)
	txPid := spawn(func() actor.Actor { return proc.NewTxActor(s) })
	s.RegisterActor(tc.TxActor, txPid)

	arrivals := make(chan hgtReq, 256)
	results := make(chan *tc.VerifyBlockRsp, 256)
	stl := actor.Spawn(actor.FromFunc(func(c actor.Context) {
		if m, ok := c.Message().(*vt.CheckTx); ok {
			c.Sender().Tell(&vt.CheckResponse{WorkerId: m.WorkerId, Type: vt.Stateless, Hash: m.Tx.Hash(), ErrCode: perr.ErrNoError})
		}
	}))
	stf := actor.Spawn(actor.FromFunc(func(c actor.Context) {
		if m, ok := c.Message().(*vt.CheckTx); ok {
			arrivals <- hgtReq{req: m, reply: c.Sender()}
		}
	}))
	cons := actor.Spawn(actor.FromFunc(func(c actor.Context) {
		if m, ok := c.Message().(*tc.VerifyBlockRsp); ok {
			results <- m
		}
	}))
	defer func() { stl.Stop(); stf.Stop(); cons.Stop() }()
	rspPid.Tell(&vt.RegisterValidator{Sender: stl, Type: vt.Stateless, Id: "verif-sl"})
	rspPid.Tell(&vt.RegisterValidator{Sender: stf, Type: vt.Stateful, Id: "verif-sf"})
	for i := 0; s.VerifValidatorCount() < 2; i++ {
		if i > 20000 {
			ctx.Failf("harness: validators did not register")
		}
		time.Sleep(time.Millisecond)
	}
	pool := s.VerifTxPool()

	txs := []*types.Transaction{capTx(770001, world.Acct(0)), capTx(770002, world.Acct(1)), capTx(770003, world.Acct(2))}
	idOf := map[common.Uint256]int{}
	for i, t := range txs {
		idOf[t.Hash()] = i
	}
	cur := c.Hgt.Start
	var outstanding []hgtReq
	sent := map[int]bool{}      // transactions consensus ever sent for verification
	var last struct {           // the block verification consensus is waiting for
		h        uint32
		tx       int
		awaiting bool
	}
	staleDelivered := false

	pendingN := func() int {
		r, err := txPid.RequestFuture(&tc.GetTxnCountReq{}, 60*time.Second).Result()
		if err != nil {
			ctx.Failf("tx actor did not answer a count request: %v", err)
		}
		rsp, ok := r.(*tc.GetTxnCountRsp)
		if !ok || len(rsp.Count) != 2 {
			ctx.Failf("tx actor answered %T to a count request", r)
		}
		return int(rsp.Count[1])
	}
	// settle: stateless answers come at once, stateful ones are held, so at rest every pending
	// transaction has exactly one outstanding stateful request
	settle := func(where string) {
		for i := 0; ; i++ {
			for more := true; more; {
				select {
				case a := <-arrivals:
					a.asked = cur
					outstanding = append(outstanding, a)
				default:
					more = false
				}
			}
			if p := pendingN(); p == len(outstanding) {
				// stable? look once more after the worker had a chance to run
				if i > 0 || p == 0 {
					select {
					case a := <-arrivals:
						a.asked = cur
						outstanding = append(outstanding, a)
						continue
					default:
					}
					return
				}
			}
			if i > 20000 {
				ctx.Failf("%s: %d transactions are pending but %d stateful requests are outstanding (stateless answers come at once, stateful ones are held by the harness)",
					where, pendingN(), len(outstanding))
			}
			time.Sleep(250 * time.Microsecond)
		}
	}
	syncPool := func(where string) {
		if _, err := poolPid.RequestFuture(&tc.GetPendingTxnReq{}, 60*time.Second).Result(); err != nil {
			ctx.Failf("%s: pool actor did not answer: %v", where, err)
		}
	}
	// judge (b) for a block result
	checkResult := func(where string, rsp *tc.VerifyBlockRsp) {
		for _, e := range rsp.TxnPool {
			if e.ErrCode != perr.ErrNoError {
				ctx.Failf("%s: block result reports transaction %d invalid (%v) although both validators approve everything", where, idOf[e.Tx.Hash()], e.ErrCode)
			}
			st := pool.GetTxStatus(e.Tx.Hash())
			if st == nil {
				ctx.Failf("%s: block result reports transaction %d valid, but it is not in the pool", where, idOf[e.Tx.Hash()])
			}
			h, ok := hgtStateful(st.Attrs)
			if !ok || h < last.h {
				ctx.Failf("%s: consensus is told transaction %d is valid for the block at height %d (result entry height %d), but its stateful verification was done at height %d",
					where, idOf[e.Tx.Hash()], last.h, e.Height, h)
			}
		}
	}
	awaitResult := func(where string) {
		select {
		case rsp := <-results:
			checkResult(where, rsp)
			last.awaiting = false
		case <-time.After(20 * time.Second):
			ctx.Failf("%s: consensus never got the result of verifying the block at height %d (transaction %d is verified and in the pool)", where, last.h, last.tx)
		}
	}
	drainResults := func(where string) {
		for {
			select {
			case rsp := <-results:
				checkResult(where, rsp)
				last.awaiting = false
			default:
				return
			}
		}
	}
	validInPool := func(id int, h uint32) bool {
		st := pool.GetTxStatus(txs[id].Hash())
		if st == nil {
			return false
		}
		sh, ok := hgtStateful(st.Attrs)
		return ok && sh >= h
	}
	answer := func(where string, mode string) {
		if len(outstanding) == 0 {
			return
		}
		rq := outstanding[0]
		outstanding = outstanding[1:]
		id := idOf[rq.req.Tx.Hash()]
		h := rq.asked
		switch mode {
		case "now":
			h = cur
		case "older":
			if h > 0 {
				h--
			}
		}
		where = fmt.Sprintf("%s: stateful answer for transaction %d with height %d (asked at %d, consensus now at %d)", where, id, h, rq.asked, cur)
		before := pendingN()
		rq.reply.Tell(&vt.CheckResponse{WorkerId: rq.req.WorkerId, Type: vt.Stateful, Hash: rq.req.Tx.Hash(), Height: h, ErrCode: perr.ErrNoError})
		// the worker either accepts the answer (transaction leaves the pending list) or asks again
		for i := 0; ; i++ {
			asked := false
			select {
			case a := <-arrivals:
				a.asked = cur
				outstanding = append(outstanding, a)
				asked = idOf[a.req.Tx.Hash()] == id
			default:
			}
			if asked {
				break
			}
			if pendingN() < before {
				break
			}
			if i > 40000 {
				ctx.Failf("%s: the worker neither accepted the answer nor asked the stateful validator again", where)
			}
			time.Sleep(250 * time.Microsecond)
		}
		settle(where)
		st := pool.GetTxStatus(rq.req.Tx.Hash())
		if h < cur {
			staleDelivered = true
			if st != nil {
				sh, _ := hgtStateful(st.Attrs)
				if sh < cur {
					ctx.Failf("%s: a stale answer was accepted - the transaction is in the pool with a stateful verification at height %d while consensus works at height %d; "+
						"a stateful answer below the current height must be sent back for re-validation", where, sh, cur)
				}
			}
		} else if st != nil {
			if sh, ok := hgtStateful(st.Attrs); !ok || sh != h {
				ctx.Failf("%s: accepted, but the pool records stateful height %d", where, sh)
			}
		}
		if st != nil && last.awaiting && last.tx == id {
			awaitResult(where)
		}
		drainResults(where)
	}

	for i, st := range c.Hgt.Steps {
		where := fmt.Sprintf("step %d (%s)", i, st.K)
		switch st.K {
		case "verify":
			id := ((st.Tx % 3) + 3) % 3
			cur += uint32(st.DH)
			where = fmt.Sprintf("step %d (verify block at height %d holding transaction %d)", i, cur, id)
			immediate := validInPool(id, cur)
			drainResults(where)
			last.h, last.tx, last.awaiting = cur, id, true
			sent[id] = true
			poolPid.Request(&tc.VerifyBlockReq{Height: cur, Txs: []*types.Transaction{txs[id]}}, cons)
			syncPool(where)
			settle(where)
			if immediate {
				awaitResult(where)
			}
			drainResults(where)
		case "getpool":
			cur += uint32(st.DH)
			where = fmt.Sprintf("step %d (pool request at height %d)", i, cur)
			res, err := poolPid.RequestFuture(&tc.GetTxnPoolReq{ByCount: true, Height: cur}, 60*time.Second).Result()
			if err != nil {
				ctx.Failf("%s: pool actor did not answer: %v", where, err)
			}
			rsp, ok := res.(*tc.GetTxnPoolRsp)
			if !ok {
				ctx.Failf("%s: pool actor answered %T", where, res)
			}
			for _, e := range rsp.TxnPool {
				if h, ok := hgtStateful(e.Attrs); !ok || h < cur {
					ctx.Failf("%s: consensus was handed transaction %d whose stateful verification was done at height %d", where, idOf[e.Tx.Hash()], h)
				}
			}
			if c.MaxTx > 0 && len(rsp.TxnPool) > c.MaxTx {
				ctx.Failf("%s: %d transactions handed out, MaxTxInBlock is %d", where, len(rsp.TxnPool), c.MaxTx)
			}
			settle(where)
			drainResults(where)
		case "answer":
			answer(fmt.Sprintf("step %d", i), st.Ans)
		default:
			ctx.Failf("harness: unknown step kind %q", st.K)
		}
	}
	// the validator catches up: everything outstanding is answered at the current height
	for n := 0; len(outstanding) > 0; n++ {
		if n > 64 {
			ctx.Failf("at the end: the stateful validator keeps being asked although it answers with the current height %d", cur)
		}
		answer("at the end", "now")
	}
	settle("at the end")
	for id := range sent {
		if pool.GetTransaction(txs[id].Hash()) == nil {
			ctx.Failf("at the end: transaction %d was sent for verification, approved by both validators and is in neither the pool nor the pending list", id)
		}
	}
	if p := pool.GetTransactionCount(); p != len(sent) {
		ctx.Failf("at the end: pool holds %d transactions, %d were sent", p, len(sent))
	}
	if staleDelivered {
		ctx.Label("hgt:stale-answer-delivered")
		ctx.NonTrivial()
	}
}
