package ppool

import (
	"bufio"
	"encoding/json"
	"fmt"
	"os"
	"os/exec"
	"runtime"
	"strconv"
	"strings"
	"sync"
	"sync/atomic"
	"syscall"
	"time"
)

// ---------------------------------------------------------------------------------------------
// execution of the concurrent part of C37
//
// c37RunConc runs the goroutine programs on one real TXPool and records the history. It runs in a
// child process (the same test binary started with VERIF_C37_EXEC=1, requests on fd 3, answers on
// fd 4, one JSON document per line) because the two ways Go reports unsynchronised map access -
// "fatal error: concurrent map writes" and, in -race builds, a race report - cannot be recovered
// inside the process. The parent turns a dead child into a failure of the case that was running.

const c37ExecEnv = "VERIF_C37_EXEC"

var c37Sink uint64

var c37Yield = func() int { n, _ := strconv.Atoi(os.Getenv("VERIF_C37_YIELD")); return n }()

// c37Noise: generated scheduling noise before a call. It must stay short compared with the
// operations themselves (~0.1 us on a small pool), otherwise the goroutines spend their time
// outside the pool and calls hardly ever overlap.
func c37Noise(y int) {
	n := 0
	switch y {
	case 4:
		runtime.Gosched()
	case 5:
		n = 8
	case 6:
		n = 64
	case 7:
		n = 400
	}
	var x uint64
	for i := 0; i < n; i++ {
		x += uint64(i) * 2654435761
	}
	if x == 1 {
		atomic.AddUint64(&c37Sink, x)
	}
}

func c37RunConc(c c37Case) c37Hist {
	all, start := c.flatten()
	if c.P > 0 && runtime.GOMAXPROCS(0) != c.P {
		runtime.GOMAXPROCS(c.P) // (a child executor is started with GOMAXPROCS=c.P already; this is the in-process path)
	}
	rep, inner := c.Rep, c.Inner // rep passes over each program, a barrier before every inner-th pass
	if rep < 1 {
		rep = 1
	}
	if inner < 1 {
		inner = 1
	}
	ex := newC37Exec(all, c.MaxTx, c.Fill)
	var h c37Hist
	for i := range c.Pre {
		h.Pre = append(h.Pre, ex.apply(i))
	}
	var clock int64
	// All goroutines meet at a barrier before every (inner-th) pass over their programs, so that the passes
	// starts (nearly) together: a pass is only a few microseconds long and wake-ups are staggered
	// by more than that, in particular when the machine is busy. If every goroutine has a P the
	// barrier is a pure spin, otherwise it yields.
	var arrived int64
	var ready, done sync.WaitGroup
	n := int64(len(c.Progs))
	spin := runtime.GOMAXPROCS(0) > len(c.Progs)
	evs := make([][]c37Ev, len(c.Progs))
	for g := range c.Progs {
		ready.Add(1)
		done.Add(1)
		go func(g int) {
			defer done.Done()
			prog := c.Progs[g]
			out := make([]c37Ev, 0, len(prog)*rep)
			ready.Done()
			for r := 0; r < rep; r++ {
				if r%inner == 0 {
					atomic.AddInt64(&arrived, 1)
					want := n * int64(r/inner+1)
					for k := 0; atomic.LoadInt64(&arrived) < want; k++ {
						if !spin {
							runtime.Gosched()
						} else if c37Yield > 0 && k%c37Yield == c37Yield-1 {
							// a sibling thread was descheduled by the OS: give the core away instead of
							// competing with it
							syscall.Syscall(syscall.SYS_SCHED_YIELD, 0, 0, 0)
						}
					}
				}
				for i := range prog {
					gi := start[g] + i
					c37Noise(prog[i].Y)
					call := atomic.AddInt64(&clock, 1)
					res := ex.apply(gi)
					ret := atomic.AddInt64(&clock, 1)
					out = append(out, c37Ev{G: g, GI: gi, Call: call, Ret: ret, Res: res})
				}
			}
			evs[g] = out
		}(g)
	}
	ready.Wait()
	done.Wait()
	for _, e := range evs {
		h.Ev = append(h.Ev, e...)
	}
	h.Obs = ex.observe()
	return h
}

// ---- child side --------------------------------------------------------------------------------

func c37ExecMain() {
	in := os.NewFile(3, "req")
	out := os.NewFile(4, "resp")
	rd := bufio.NewReaderSize(in, 1<<20)
	for {
		line, err := rd.ReadBytes('\n')
		if err != nil {
			c37CapCleanup() // removes the capacity fixture's ledger directory
			os.Exit(0)
		}
		var c c37Case
		if err := json.Unmarshal(line, &c); err != nil {
			fmt.Fprintln(os.Stderr, "harness: executor cannot decode case:", err)
			os.Exit(3)
		}
		var b []byte
		if c.Mode == "cap" || c.Mode == "srv" || c.Mode == "hgt" {
			b, _ = json.Marshal(capRun(c))
		} else {
			b, _ = json.Marshal(c37RunConc(c))
		}
		out.Write(append(b, '\n'))
	}
}

// ---- parent side -------------------------------------------------------------------------------

type tailBuf struct {
	mu  sync.Mutex
	b   []byte
	max int
}

func (t *tailBuf) Write(p []byte) (int, error) {
	t.mu.Lock()
	if room := t.max - len(t.b); room > 0 { // keep the head: the runtime names the fault first
		if len(p) < room {
			room = len(p)
		}
		t.b = append(t.b, p[:room]...)
	}
	t.mu.Unlock()
	return len(p), nil
}

func (t *tailBuf) String() string { t.mu.Lock(); defer t.mu.Unlock(); return string(t.b) }

type c37ChildT struct {
	cmd   *exec.Cmd
	req   *os.File
	lines chan []byte
	errb  *tailBuf
}

var c37Children = map[int]*c37ChildT{} // one executor per GOMAXPROCS value

func c37StartChild(p int) (*c37ChildT, error) { return c37StartChildEnv(p, "GORACE=halt_on_error=1", 24000) }

func c37StartChildEnv(p int, gorace string, logCap int) (*c37ChildT, error) {
	reqR, reqW, err := os.Pipe()
	if err != nil {
		return nil, err
	}
	respR, respW, err := os.Pipe()
	if err != nil {
		return nil, err
	}
	cmd := exec.Command(os.Args[0])
	cmd.Env = append(os.Environ(), c37ExecEnv+"=1", gorace)
	if p > 0 {
		cmd.Env = append(cmd.Env, fmt.Sprintf("GOMAXPROCS=%d", p))
	}
	cmd.ExtraFiles = []*os.File{reqR, respW}
	eb := &tailBuf{max: logCap}
	cmd.Stdout = eb
	cmd.Stderr = eb
	if err := cmd.Start(); err != nil {
		return nil, err
	}
	reqR.Close()
	respW.Close()
	ch := &c37ChildT{cmd: cmd, req: reqW, lines: make(chan []byte, 1), errb: eb}
	go func() {
		rd := bufio.NewReaderSize(respR, 1<<20)
		for {
			line, err := rd.ReadBytes('\n')
			if err != nil {
				close(ch.lines)
				respR.Close()
				return
			}
			ch.lines <- line
		}
	}()
	return ch, nil
}

func c37StopChild() {
	for p := range c37Children {
		c37StopOne(p)
	}
}

func c37StopOne(p int) {
	if ch := c37Children[p]; ch != nil {
		ch.req.Close() // the child exits on end of input (after removing its temp files)
		done := make(chan struct{})
		go func() { ch.cmd.Wait(); close(done) }()
		select {
		case <-done:
		case <-time.After(10 * time.Second):
			ch.cmd.Process.Kill()
			<-done
		}
		delete(c37Children, p)
	}
}

// c37Execute runs the concurrent case and returns its history; Crash is set when the executor
// process died or hung while running it.
func c37Execute(c c37Case) c37Hist {
	if os.Getenv("VERIF_C37_INPROC") == "1" {
		return c37RunConc(c)
	}
	p := c.P
	if p < 1 {
		p = 4
	}
	if c37Children[p] == nil {
		ch, err := c37StartChild(p)
		if err != nil {
			panic("harness: cannot start the executor child: " + err.Error())
		}
		c37Children[p] = ch
	}
	ch := c37Children[p]
	b, _ := json.Marshal(c)
	if _, err := ch.req.Write(append(b, '\n')); err != nil {
		// died between cases (not attributable to this case): restart once
		c37StopOne(p)
		ch2, err2 := c37StartChild(p)
		if err2 != nil {
			panic("harness: cannot restart the executor child: " + err2.Error())
		}
		c37Children[p], ch = ch2, ch2
		if _, err := ch.req.Write(append(b, '\n')); err != nil {
			panic("harness: executor child does not accept requests: " + err.Error())
		}
	}
	select {
	case line, ok := <-ch.lines:
		if !ok {
			ch.cmd.Wait()
			out := ch.errb.String()
			state := ""
			if ch.cmd.ProcessState != nil {
				state = ch.cmd.ProcessState.String()
			}
			delete(c37Children, p)
			ch.req.Close()
			return c37Hist{Crash: fmt.Sprintf("executor %s\n%s", state, c37CrashExcerpt(out))}
		}
		var h c37Hist
		if err := json.Unmarshal(line, &h); err != nil {
			panic("harness: cannot decode history: " + err.Error())
		}
		return h
	case <-time.After(120 * time.Second):
		out := ch.errb.String()
		c37StopOne(p)
		return c37Hist{Crash: "executor did not finish the case within 120 s (deadlock?)\n" + c37CrashExcerpt(out)}
	}
}

// c37CrashExcerpt keeps the head of the runtime's report (the part that names the fault and the
// first stacks).
func c37CrashExcerpt(out string) string {
	for _, marker := range []string{"fatal error:", "WARNING: DATA RACE", "panic:"} {
		if i := strings.Index(out, marker); i >= 0 {
			out = out[i:]
			break
		}
	}
	lines := strings.Split(out, "\n")
	if len(lines) > 45 {
		lines = lines[:45]
	}
	return strings.Join(lines, "\n")
}

// ---- capacity cases in -race builds ---------------------------------------------------------------

const capChildKey = -1 // slot of the capacity executor in c37Children

var capLogSeen int // how much of the capacity child's output has been scanned for race reports

// c37ExecuteCap runs one capacity case in the capacity executor child (race detector reporting but
// not halting) and returns its outcome plus the race reports that appeared while it ran.
func c37ExecuteCap(c c37Case) (capOut, []string) {
	ch := c37Children[capChildKey]
	if ch == nil {
		var err error
		ch, err = c37StartChildEnv(0, "GORACE=halt_on_error=0", 1<<20)
		if err != nil {
			panic("harness: cannot start the capacity executor child: " + err.Error())
		}
		c37Children[capChildKey] = ch
		capLogSeen = 0
	}
	b, _ := json.Marshal(c)
	var out capOut
	if _, err := ch.req.Write(append(b, '\n')); err != nil {
		c37StopOne(capChildKey)
		out.Crash = "capacity executor does not accept requests: " + err.Error()
		return out, nil
	}
	select {
	case line, ok := <-ch.lines:
		if !ok {
			ch.cmd.Wait()
			out.Crash = c37CrashExcerpt(ch.errb.String())
			delete(c37Children, capChildKey)
			ch.req.Close()
			return out, nil
		}
		if err := json.Unmarshal(line, &out); err != nil {
			panic("harness: cannot decode capacity outcome: " + err.Error())
		}
	case <-time.After(300 * time.Second):
		out.Crash = "capacity executor did not finish the case within 300 s\n" + c37CrashExcerpt(ch.errb.String())
		c37StopOne(capChildKey)
		return out, nil
	}
	// new race reports
	log := ch.errb.String()
	var races []string
	for {
		i := strings.Index(log[capLogSeen:], "WARNING: DATA RACE")
		if i < 0 {
			break
		}
		start := capLogSeen + i
		end := strings.Index(log[start:], "==================\n")
		if end < 0 {
			break // report not complete yet; picked up after the next case
		}
		races = append(races, log[start:start+end])
		capLogSeen = start + end
	}
	return out, races
}
