package ppool

import (
	"fmt"
	"os"
	"sync/atomic"
	"time"

	"github.com/ontio/ontology-eventbus/actor"
	"github.com/polynetwork/poly/common"
	"github.com/polynetwork/poly/common/config"
	"github.com/polynetwork/poly/core/ledger"
	"github.com/polynetwork/poly/core/types"
	perr "github.com/polynetwork/poly/errors"
	"github.com/polynetwork/poly/validator/stateful"
	vatypes "github.com/polynetwork/poly/validator/types"
	"pgregory.net/rapid"

	"verif/harness/ev"
	"verif/harness/lworld"
)

// ---------------------------------------------------------------------------------------------
// C38, ledger-backed part: the real stateful-validator actor (validator/stateful) over a real
// ledger (lworld: ledgerstore on a temp dir, VBFT genesis for 4 pool validators, correctly linked
// and signed blocks committed through ExecuteBlock+SubmitBlock). After genesis and after every
// committed block the actor is asked about every transaction of the case (committed earlier,
// committed just now, not yet committed, never committed), about the genesis transaction, and
// about a re-decoded copy (same hash, other object) of each.
// Oracle: the harness's own record of which transactions it put into committed blocks.

const c38LedgerEnabled = true

const c38LedgerIDs = 8

func genC38Ledger(t *rapid.T) c38Case {
	c := c38Case{Mode: "ledger"}
	c.Blocks = rapid.SliceOfN(rapid.SliceOfN(rapid.IntRange(0, c38LedgerIDs-1), 0, 3), 1, ev.Scale(4, 6)).Draw(t, "blocks")
	return c
}

// ledger cases cost ~50x a tracker case: 1 in 16
func c38DrawLedger(t *rapid.T) bool {
	return rapid.Bool().Draw(t, "l1") && rapid.Bool().Draw(t, "l2") && rapid.Bool().Draw(t, "l3") && rapid.Bool().Draw(t, "l4")
}

var c38ActorSeq int64

func c38LedgerTx(id int, netID uint32) *types.Transaction {
	// odd ids: the script fails when executed; the transaction is in the block (and the ledger) all the same
	steps := []lworld.Step{{Op: "put", K: ev.B{byte(id)}, V: ev.B{0xaa, byte(id)}}}
	if id%2 == 1 {
		steps = append(steps, lworld.Step{Op: "fail"})
	}
	return lworld.MakeSignedTx(config.GetChainIdByNetId(netID), uint32(7000+id), lworld.ProbeAddress, "run", lworld.EncodeScript(steps), nil)
}

func redecode(tx *types.Transaction) *types.Transaction {
	t2, err := types.TransactionFromRawBytes(append([]byte(nil), tx.ToArray()...))
	if err != nil {
		panic("harness: tx does not re-decode: " + err.Error())
	}
	return t2
}

func runC38Ledger(ctx *ev.Ctx, c c38Case) {
	const netID = 2
	dir := lworld.TempDir("c38")
	defer os.RemoveAll(dir)
	ch, err := lworld.Open(dir, 4, netID)
	if err != nil {
		ctx.Failf("harness: open ledger: %v", err)
	}
	defer ch.Close()
	old := ledger.DefLedger
	ledger.DefLedger = ch.Ledger
	defer func() { ledger.DefLedger = old }()

	// the real actor; its PID is only handed out through Register
	got := make(chan *vatypes.RegisterValidator, 1)
	recv := actor.Spawn(actor.FromFunc(func(c actor.Context) {
		if m, ok := c.Message().(*vatypes.RegisterValidator); ok {
			select {
			case got <- m:
			default:
			}
		}
	}))
	defer recv.Stop()
	name := fmt.Sprintf("verif-stateful-%d-%d", os.Getpid(), atomic.AddInt64(&c38ActorSeq, 1))
	v, err := stateful.NewValidator(name)
	if err != nil {
		ctx.Failf("harness: NewValidator: %v", err)
	}
	if v.VerifyType() != vatypes.Stateful {
		ctx.Failf("stateful validator announces verify type %d", v.VerifyType())
	}
	v.Register(recv)
	var pid *actor.PID
	select {
	case m := <-got:
		pid = m.Sender
		if m.Type != vatypes.Stateful || m.Id != name {
			ctx.Failf("stateful validator registered as type %d id %q (want stateful, %q)", m.Type, m.Id, name)
		}
	case <-time.After(20 * time.Second):
		ctx.Failf("harness: validator did not register within 20 s")
	}
	defer pid.Tell(&vatypes.UnRegisterAck{Id: name, Type: vatypes.Stateful}) // the actor stops itself on this

	txs := make([]*types.Transaction, c38LedgerIDs)
	for id := range txs {
		txs[id] = c38LedgerTx(id, netID)
	}
	genesisTx := ch.Genesis.Transactions[0]
	committed := map[int]bool{}
	height := uint32(0)
	var askedCommitted, askedFresh bool

	ask := func(tx *types.Transaction, want perr.ErrCode, what string, worker uint8) {
		res, err := pid.RequestFuture(&vatypes.CheckTx{WorkerId: worker, Tx: tx}, 30*time.Second).Result()
		if err != nil {
			ctx.Failf("stateful validator did not answer for %s: %v", what, err)
		}
		r, ok := res.(*vatypes.CheckResponse)
		if !ok {
			ctx.Failf("stateful validator answered %T for %s", res, what)
		}
		if r.ErrCode != want {
			ctx.Failf("stateful validation of %s at ledger height %d: error code %d (%s), want %d (%s)",
				what, height, r.ErrCode, r.ErrCode.Error(), want, want.Error())
		}
		if r.Hash != tx.Hash() || r.WorkerId != worker || r.Type != vatypes.Stateful {
			ctx.Failf("stateful validator response for %s does not echo the request: hash %x worker %d type %d", what, r.Hash, r.WorkerId, r.Type)
		}
		if r.Height != height {
			ctx.Failf("stateful validator response for %s carries height %d, the ledger is at %d", what, r.Height, height)
		}
	}
	askAll := func() {
		ask(genesisTx, perr.ErrDuplicatedTx, "the genesis transaction", 0)
		for id, tx := range txs {
			want := perr.ErrNoError
			what := fmt.Sprintf("tx %d (not in the ledger)", id)
			if committed[id] {
				want = perr.ErrDuplicatedTx
				what = fmt.Sprintf("tx %d (in a committed block)", id)
				askedCommitted = true
			} else {
				askedFresh = true
			}
			ask(tx, want, what, uint8(id))
			ask(redecode(tx), want, what+" as a re-decoded object", uint8(id+100))
		}
		// a transaction of another chain id with the same nonce/payload is a different transaction
		other := lworld.MakeSignedTx(config.GetChainIdByNetId(netID)+1, 7000, lworld.ProbeAddress, "run",
			lworld.EncodeScript([]lworld.Step{{Op: "put", K: ev.B{0}, V: ev.B{0xaa, 0}}}), nil)
		if other.Hash() == txs[0].Hash() {
			ctx.Failf("harness: chain id does not enter the tx hash")
		}
		ask(other, perr.ErrNoError, "a never-committed transaction", 250)
	}

	askAll()
	for bi, ids := range c.Blocks {
		var list []*types.Transaction
		now := map[int]bool{}
		for _, id := range ids {
			id = ((id % c38LedgerIDs) + c38LedgerIDs) % c38LedgerIDs
			if committed[id] || now[id] {
				continue // a transaction is committed at most once
			}
			now[id] = true
			list = append(list, txs[id])
		}
		b := lworld.Roundtrip(ch.Build(list, lworld.BlockOpt{}))
		if err := ch.Commit(b); err != nil {
			ctx.Failf("harness: block %d rejected by the ledger: %v", bi+1, err)
		}
		for id := range now {
			committed[id] = true
		}
		height++
		if h := ch.Ledger.GetCurrentBlockHeight(); h != height {
			ctx.Failf("harness: ledger height %d after %d blocks", h, height)
		}
		askAll()
	}
	if askedCommitted && askedFresh {
		ctx.NonTrivial()
	}
	var _ = common.Uint256{}
}
