package ppool

import (
	"pgregory.net/rapid"

	"verif/harness/ev"
)

const c38LedgerEnabled = false

func c38LedgerPercent() int { return 0 }

func genC38Ledger(t *rapid.T) c38Case { return c38Case{Mode: "ledger"} }

func runC38Ledger(ctx *ev.Ctx, c c38Case) {}
