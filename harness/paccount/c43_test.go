package paccount

import (
	"bytes"
	"crypto/sha256"
	"encoding/base64"
	"encoding/hex"
	"fmt"
	"math/big"
	"os"
	"path/filepath"
	"strings"
	"testing"
	"unicode"

	"github.com/ontio/ontology-crypto/ec"
	"github.com/ontio/ontology-crypto/keypair"
	s "github.com/ontio/ontology-crypto/signature"
	"github.com/polynetwork/poly/account"
	"golang.org/x/crypto/ed25519"
	"pgregory.net/rapid"

	"verif/harness/ev"
)

func TestMain(m *testing.M) { ev.Main(m) }

// ---------------------------------------------------------------------------------------------
// C43 Wallet accounts round-trip and are password-protected
//
// A case is a small wallet history: 1..3 accounts, each either created in the wallet
// (ClientImpl.NewAccount) or created in a donor wallet and imported (ImportAccount) under a generated
// label, with a generated password. Afterwards the wallet file is re-opened by a FRESH client and
// every account is decrypted with its password (through one of the four lookup paths) and with
// 1..2 other passwords derived from it.
//
// Oracle (round trip against the pre-image, plus an independent password-equivalence model):
//   * the account returned by the fresh client has the same serialized private key, public key,
//     address and signature scheme as the account object handed out at creation time; a signature
//     made with the reloaded private key verifies under the ORIGINAL public key and vice versa;
//   * metadata (address, public key hex, scheme name, label, default flag) survives the reload and
//     is reachable by address, label and index;
//   * the saved file holds the private scalar / seed in no plain encoding (raw, hex, base64);
//   * a different password must be rejected with an error and no account. "Different" is judged by
//     the harness's own model of the key-derivation input: scrypt feeds the password into
//     PBKDF2-HMAC-SHA256 as the HMAC key, and HMAC normalises keys (hash if longer than the 64-byte
//     block, then zero-pad). Two byte strings with the same normal form are the same HMAC key, so
//     they cannot be told apart by ANY scrypt-based scheme; such pairs are routed through a
//     root-cause key instead of being judged as "wrong password accepted" by accident.

const c43KnownHMAC = "password-equivalence-under-hmac-key-normalisation"

type c43Other struct {
	Kind string `json:"kind"`
	Pw   ev.B   `json:"pw"`
}

type c43Acct struct {
	Mode   string     `json:"mode"`   // new | import
	Key    string     `json:"key"`    // key kind, see c43Keys
	Scheme string     `json:"scheme"` // signature scheme name
	Label  string     `json:"label"`
	Pw     ev.B       `json:"pw"`
	Via    string     `json:"via"` // lookup path for the right-password decryption: addr|label|index|default
	Others []c43Other `json:"others"`
}

// c43Op is one step of the wallet history after the accounts exist. Account positions are resolved
// modulo the current number of accounts inside run.
type c43Op struct {
	Op    string   `json:"op"`              // tolow | todefault | chpw | delete | setdefault | setlabel | new | reload | unlock | lock | probe
	At    int      `json:"at,omitempty"`    // account position
	Mode  string   `json:"mode,omitempty"`  // tolow/todefault: right | wrong-at | all-wrong; chpw/delete: right | wrong
	Pw    ev.B     `json:"pw,omitempty"`    // chpw: the new password
	Wrong ev.B     `json:"wrong,omitempty"` // material of the wrong password(s)
	Label string   `json:"label,omitempty"` // setlabel
	Acct  *c43Acct `json:"acct,omitempty"`  // new
	Exp   int      `json:"exp,omitempty"`   // unlock: expiry in seconds (0 = expired at once; otherwise hours, so no run depends on the clock)
	Via   string   `json:"via,omitempty"`   // probe: entry point tried with a wrong password: addr | label | index | default | delete | unlock
}

type c43Case struct {
	Accts []c43Acct `json:"accts"`
	Ops   []c43Op   `json:"ops,omitempty"`
}

type c43KeyKind struct {
	name    string
	typ     keypair.KeyType
	curve   byte
	schemes []s.SignatureScheme
}

var c43ECDSASchemes = []s.SignatureScheme{s.SHA224withECDSA, s.SHA256withECDSA, s.SHA384withECDSA, s.SHA512withECDSA,
	s.SHA3_224withECDSA, s.SHA3_256withECDSA, s.SHA3_384withECDSA, s.SHA3_512withECDSA, s.RIPEMD160withECDSA}

// every key type / curve the wallet CLI offers (cmd/account.go) and checkSigScheme admits
var c43Keys = []c43KeyKind{
	{"ecdsa-p224", keypair.PK_ECDSA, keypair.P224, c43ECDSASchemes},
	{"ecdsa-p256", keypair.PK_ECDSA, keypair.P256, c43ECDSASchemes},
	{"ecdsa-p384", keypair.PK_ECDSA, keypair.P384, c43ECDSASchemes},
	{"ecdsa-p521", keypair.PK_ECDSA, keypair.P521, c43ECDSASchemes},
	{"ecdsa-secp256k1", keypair.PK_ECDSA, keypair.SECP256K1, c43ECDSASchemes},
	{"sm2", keypair.PK_SM2, keypair.SM2P256V1, []s.SignatureScheme{s.SM3withSM2}},
	{"ed25519", keypair.PK_EDDSA, keypair.ED25519, []s.SignatureScheme{s.SHA512withEDDSA}},
}

func c43KeyByName(n string) *c43KeyKind {
	for i := range c43Keys {
		if c43Keys[i].name == n {
			return &c43Keys[i]
		}
	}
	return nil
}

func genC43Pw(t *rapid.T) []byte {
	printable := rapid.ByteRange(0x20, 0x7e)
	switch rapid.SampledFrom([]string{"ascii", "ascii", "utf8", "bytes", "nul-tail", "len64", "long", "single"}).Draw(t, "pwkind") {
	case "ascii":
		return rapid.SliceOfN(printable, 1, 24).Draw(t, "pw")
	case "utf8":
		b := []byte(rapid.StringOfN(rapid.Rune(), 1, 12, 80).Draw(t, "pw"))
		if len(b) == 0 {
			b = []byte{'x'}
		}
		return b
	case "bytes":
		return rapid.SliceOfN(rapid.Byte(), 1, 40).Draw(t, "pw")
	case "nul-tail":
		b := rapid.SliceOfN(printable, 1, 16).Draw(t, "pw")
		return append(b, make([]byte, rapid.IntRange(1, 3).Draw(t, "nuls"))...)
	case "len64":
		return rapid.SliceOfN(printable, 64, 64).Draw(t, "pw")
	case "long":
		return rapid.SliceOfN(printable, 65, 80).Draw(t, "pw")
	}
	return []byte{rapid.Byte().Draw(t, "pw")}
}

func genC43Other(t *rapid.T, pw []byte) c43Other {
	kinds := []string{"prefix", "suffix", "case", "bitflip", "random", "random", "empty", "nul-suffix", "hmac-normal-form"}
	k := rapid.SampledFrom(kinds).Draw(t, "okind")
	cp := append([]byte(nil), pw...)
	switch k {
	case "prefix":
		if len(cp) > 1 {
			cp = cp[:rapid.IntRange(1, len(cp)-1).Draw(t, "cut")]
		} else {
			cp = append(cp, 'x')
		}
	case "suffix":
		cp = append(cp, rapid.SliceOfN(rapid.ByteRange(1, 255), 1, 3).Draw(t, "tail")...)
	case "case":
		done := false
		for i, c := range cp {
			if c < 0x80 && unicode.IsLetter(rune(c)) {
				cp[i] = c ^ 0x20
				done = true
				break
			}
		}
		if !done {
			cp[0] ^= 0x20
		}
	case "bitflip":
		i := rapid.IntRange(0, len(cp)-1).Draw(t, "at")
		cp[i] ^= 1 << uint(rapid.IntRange(0, 7).Draw(t, "bit"))
	case "random":
		cp = rapid.SliceOfN(rapid.Byte(), 1, 80).Draw(t, "rnd")
	case "empty":
		cp = nil
	case "nul-suffix":
		cp = append(cp, make([]byte, rapid.IntRange(1, 2).Draw(t, "nuls"))...)
	case "hmac-normal-form":
		// another spelling of the same HMAC key: strip trailing NULs, or the SHA-256 of a long password
		if len(cp) > 64 {
			h := sha256.Sum256(cp)
			cp = h[:]
		} else {
			cp = bytes.TrimRight(cp, "\x00")
		}
	}
	return c43Other{Kind: k, Pw: cp}
}

func genC43Acct(t *rapid.T) c43Acct {
	kk := rapid.SampledFrom(c43Keys).Draw(t, "key")
	a := c43Acct{
		Mode:   rapid.SampledFrom([]string{"new", "new", "import"}).Draw(t, "mode"),
		Key:    kk.name,
		Scheme: rapid.SampledFrom(kk.schemes).Draw(t, "scheme").Name(),
		Label: rapid.OneOf(
			rapid.SampledFrom([]string{"", "", "a", "a", "a_1", "main", "名前", "x y", "\x00", "quote\"\\"}),
			rapid.StringN(0, 12, 40),
		).Draw(t, "label"),
		Via: rapid.SampledFrom([]string{"addr", "label", "index", "default"}).Draw(t, "via"),
	}
	a.Pw = genC43Pw(t)
	n := rapid.SampledFrom([]int{1, 1, 2}).Draw(t, "nothers")
	for i := 0; i < n; i++ {
		a.Others = append(a.Others, genC43Other(t, a.Pw))
	}
	return a
}

func genC43(t *rapid.T) c43Case {
	maxAccts := ev.Scale(2, 3)
	// mostly one account (each scrypt operation costs ~0.25 s)
	n := rapid.SampledFrom([]int{1, 1, 2, 2, maxAccts}).Draw(t, "naccts")
	c := c43Case{}
	for i := 0; i < n; i++ {
		a := genC43Acct(t)
		if i > 0 && rapid.IntRange(0, 2).Draw(t, "samelabel") == 0 {
			a.Label = c.Accts[rapid.IntRange(0, i-1).Draw(t, "labelof")].Label // label clash
		}
		c.Accts = append(c.Accts, a)
	}
	// history after creation: whole-wallet re-encryption (all passwords right / one wrong / all wrong),
	// password change, deletion, default/label changes, a late account, re-opening the file
	kinds := []string{"tolow", "tolow", "tolow", "todefault", "chpw", "chpw", "delete", "setdefault", "setlabel", "new", "reload", "reload",
		"unlock", "unlock", "unlock", "lock", "probe", "probe"}
	nOps := rapid.SampledFrom([]int{2, 1, 3, 0, 4}).Draw(t, "nops")
	for i := 0; i < nOps; i++ {
		o := c43Op{Op: rapid.SampledFrom(kinds).Draw(t, "op"), At: rapid.IntRange(0, 3).Draw(t, "at")}
		if i > 0 && c.Ops[i-1].Op == "tolow" && c.Ops[i-1].Mode == "right" && rapid.IntRange(0, 2).Draw(t, "late") == 0 {
			o.Op = "new" // an account added to a converted wallet
		}
		if i > 0 && c.Ops[i-1].Op == "unlock" && rapid.IntRange(0, 3).Draw(t, "whileunlocked") < 3 { // (rapid favours small values: mostly taken)
			// wrong passwords against an account that is (or was just asked to be) unlocked
			o.Op, o.At = rapid.SampledFrom([]string{"probe", "probe", "probe", "delete", "unlock"}).Draw(t, "op2"), c.Ops[i-1].At
		}
		switch o.Op {
		case "tolow", "todefault":
			o.Mode = rapid.SampledFrom([]string{"right", "wrong-at", "wrong-at", "all-wrong"}).Draw(t, "convmode")
			o.At = rapid.SampledFrom([]int{1, 1, 1, 2, 3, 0}).Draw(t, "convat") // mostly a later account: the conversion fails half-way
			o.Wrong = rapid.SliceOfN(rapid.ByteRange(0x21, 0x7e), 1, 12).Draw(t, "wrongpw")
		case "chpw":
			o.Mode = rapid.SampledFrom([]string{"right", "right", "wrong"}).Draw(t, "chmode")
			o.Pw = genC43Pw(t)
			o.Wrong = rapid.SliceOfN(rapid.ByteRange(0x21, 0x7e), 1, 12).Draw(t, "wrongpw")
		case "delete":
			o.Mode = rapid.SampledFrom([]string{"right", "wrong", "wrong"}).Draw(t, "delmode")
			o.Wrong = rapid.SliceOfN(rapid.ByteRange(0x21, 0x7e), 1, 12).Draw(t, "wrongpw")
		case "unlock":
			o.Mode = rapid.SampledFrom([]string{"right", "right", "right", "wrong"}).Draw(t, "unlockmode")
			if i > 0 && c.Ops[i-1].Op == "unlock" && o.At == c.Ops[i-1].At {
				o.Mode = "wrong"
			}
			o.Exp = rapid.SampledFrom([]int{3600, 86400, 36000, 0}).Draw(t, "expiry")
			o.Wrong = rapid.SliceOfN(rapid.ByteRange(0x21, 0x7e), 1, 12).Draw(t, "wrongpw")
		case "probe":
			o.Via = rapid.SampledFrom([]string{"addr", "label", "index", "default", "delete", "unlock"}).Draw(t, "probevia")
			o.Wrong = rapid.OneOf(rapid.SliceOfN(rapid.ByteRange(0x21, 0x7e), 1, 12), rapid.Just([]byte{})).Draw(t, "wrongpw")
		case "setlabel":
			o.Label = rapid.SampledFrom([]string{"", "a", "a_1", "main", "renamed", "名前"}).Draw(t, "newlabel")
		case "new":
			a := genC43Acct(t)
			a.Mode, a.Label = "new", ""
			o.Acct = &a
		}
		c.Ops = append(c.Ops, o)
	}
	return c
}

// hmacNormalForm is the harness's model of what the key-derivation function can see of a password:
// RFC 2104 key preparation for HMAC-SHA256 (block size 64).
func hmacNormalForm(pw []byte) [64]byte {
	var k [64]byte
	if len(pw) > 64 {
		h := sha256.Sum256(pw)
		copy(k[:], h[:])
	} else {
		copy(k[:], pw)
	}
	return k
}

// secretBytes returns the secret part of a private key (EC scalar, Ed25519 seed).
func secretBytes(pri keypair.PrivateKey) []byte {
	switch k := pri.(type) {
	case *ec.PrivateKey:
		return new(big.Int).Set(k.D).Bytes()
	case ed25519.PrivateKey:
		return append([]byte(nil), k[:32]...)
	}
	return nil
}

type c43Made struct {
	spec    c43Acct
	orig    *account.Account
	label   string // label the wallet is expected to hold
	pw      []byte // the account's current password
	deflt   bool   // expected default flag
	changed bool   // password was changed after creation
	lateLow bool   // created by NewAccount while the wallet ran on non-default scrypt parameters
	unlock  bool   // expected: unlocked (without expiry in reach) in the current client
}

// checkUnlockState compares the client's unlock cache with the model for one account; an unlocked
// account is handed out without a password by design (GetUnlockAccount) and must be the right one.
func checkUnlockState(ctx *ev.Ctx, what string, cli *account.ClientImpl, m *c43Made, oi int) {
	got := cli.GetUnlockAccount(m.orig.Address.ToBase58())
	if (got != nil) != m.unlock {
		ctx.Failf("%s: account %s unlocked in the client = %v, expected %v", what, m.orig.Address.ToBase58(), got != nil, m.unlock)
	}
	if got != nil {
		sameAccount(ctx, what+": unlocked account", m.orig, got, oi)
	}
}

// lateKnown routes a refusal of the account's own password to the root-cause key of accounts that
// NewAccount created in a converted wallet; any other account is a plain violation (returns false).
func lateKnown(ctx *ev.Ctx, m *c43Made, what string, err error) bool {
	if !m.lateLow {
		return false
	}
	ctx.Label("finding:late-account-undecryptable")
	return ctx.Known(c43KeyLateAccount, "%s: the account was created with NewAccount in a wallet whose scrypt parameters are not the defaults (after ToLowSecurity); NewAccount encrypts with the "+
		"built-in default parameters while getAccount / ChangePassword / re-encryption decrypt with the wallet's, so the account's own password (%x) is refused: %v", what, m.pw, err)
}

const c43KeyLateAccount = "newaccount-ignores-wallet-scrypt-parameters"

func differs(a, b []byte) bool { return len(a) == 0 || len(b) == 0 || hmacNormalForm(a) != hmacNormalForm(b) }

func sameAccount(ctx *ev.Ctx, what string, orig, got *account.Account, i int) {
	if got == nil {
		ctx.Failf("%s: no account returned", what)
	}
	op, gp := keypair.SerializePrivateKey(orig.PrivateKey), keypair.SerializePrivateKey(got.PrivateKey)
	if !bytes.Equal(op, gp) {
		ctx.Failf("%s: private key differs after reload", what)
	}
	if !bytes.Equal(keypair.SerializePublicKey(orig.PublicKey), keypair.SerializePublicKey(got.PublicKey)) {
		ctx.Failf("%s: public key differs after reload: %x vs %x", what, keypair.SerializePublicKey(orig.PublicKey), keypair.SerializePublicKey(got.PublicKey))
	}
	if orig.Address != got.Address {
		ctx.Failf("%s: address differs after reload: %s vs %s", what, orig.Address.ToBase58(), got.Address.ToBase58())
	}
	if orig.SigScheme != got.SigScheme {
		ctx.Failf("%s: signature scheme differs after reload: %s vs %s", what, orig.SigScheme.Name(), got.SigScheme.Name())
	}
	// cross-signatures: reloaded private key under the original public key and the other way round
	msg := []byte(fmt.Sprintf("verif-c43-message-%d", i))
	sig0, err0 := s.Sign(orig.SigScheme, orig.PrivateKey, msg, nil)
	if err0 != nil {
		ctx.Label("sign:original-key-cannot-sign")
		return
	}
	sig1, err := s.Sign(got.SigScheme, got.PrivateKey, msg, nil)
	if err != nil {
		ctx.Failf("%s: reloaded key cannot sign although the original can: %v", what, err)
	}
	if !s.Verify(orig.PublicKey, msg, sig1) {
		ctx.Failf("%s: signature of the reloaded private key does not verify under the original public key", what)
	}
	if !s.Verify(got.PublicKey, msg, sig0) {
		ctx.Failf("%s: signature of the original private key does not verify under the reloaded public key", what)
	}
}

func runC43(ctx *ev.Ctx, c c43Case) {
	dir, err := os.MkdirTemp("", "verif-c43-")
	if err != nil {
		panic(err)
	}
	defer os.RemoveAll(dir)
	path := filepath.Join(dir, "wallet.dat")
	cli, err := account.NewClientImpl(path)
	if err != nil {
		ctx.Failf("open new wallet: %v", err)
	}
	var donor *account.ClientImpl
	labels := map[string]bool{}
	var made []*c43Made

	for i, a := range c.Accts {
		kk := c43KeyByName(a.Key)
		if kk == nil || len(a.Pw) == 0 {
			ctx.Label("skip:malformed-case")
			continue
		}
		scheme, err := s.GetScheme(a.Scheme)
		if err != nil {
			ctx.Label("skip:malformed-case")
			continue
		}
		ctx.Label("mode:" + a.Mode)
		ctx.Label("key:" + a.Key)
		switch a.Mode {
		case "new":
			dup := a.Label != "" && labels[a.Label]
			var acc *account.Account
			if p := ev.Catch(func() { acc, err = cli.NewAccount(a.Label, kk.typ, kk.curve, scheme, a.Pw) }); p != "" {
				ctx.Failf("account %d: NewAccount panicked: %s", i, p)
			}
			if dup {
				// the wallet refuses a second account with the same label: nothing was created
				ctx.Label("create:duplicate-label")
				if err == nil {
					ctx.Label("create:duplicate-label-accepted")
				}
				if err != nil {
					continue
				}
			}
			if err != nil || acc == nil {
				ctx.Failf("account %d: NewAccount(%q, %s, %s, pw %x) failed: %v", i, a.Label, a.Key, a.Scheme, []byte(a.Pw), err)
			}
			made = append(made, &c43Made{spec: a, orig: acc, label: a.Label, pw: a.Pw, deflt: len(made) == 0})
			if a.Label != "" {
				labels[a.Label] = true
			}
		case "import":
			if donor == nil {
				donor, err = account.NewClientImpl(filepath.Join(dir, "donor.dat"))
				if err != nil {
					ctx.Failf("open donor wallet: %v", err)
				}
			}
			var acc *account.Account
			if p := ev.Catch(func() { acc, err = donor.NewAccount("", kk.typ, kk.curve, scheme, a.Pw) }); p != "" {
				ctx.Failf("account %d: donor NewAccount panicked: %s", i, p)
			}
			if err != nil || acc == nil {
				ctx.Failf("account %d: donor NewAccount(%s, %s) failed: %v", i, a.Key, a.Scheme, err)
			}
			meta := donor.GetAccountMetadataByAddress(acc.Address.ToBase58())
			if meta == nil {
				ctx.Failf("account %d: donor wallet has no metadata for the account it just created", i)
			}
			meta.Label = a.Label
			want := a.Label
			if want != "" && labels[want] {
				want += "_1" // documented rename on import
				ctx.Label("import:renamed")
			}
			stillDup := want != "" && labels[want]
			if p := ev.Catch(func() { err = cli.ImportAccount(meta) }); p != "" {
				ctx.Failf("account %d: ImportAccount panicked: %s", i, p)
			}
			if stillDup {
				ctx.Label("import:duplicate-label")
				if err != nil {
					continue
				}
				ctx.Label("import:duplicate-label-accepted")
			}
			if err != nil {
				ctx.Failf("account %d: ImportAccount(label %q, %s, %s) failed: %v", i, a.Label, a.Key, a.Scheme, err)
			}
			made = append(made, &c43Made{spec: a, orig: acc, label: want, pw: a.Pw, deflt: len(made) == 0})
			if want != "" {
				labels[want] = true
			}
		default:
			ctx.Label("skip:malformed-case")
		}
	}
	if len(made) == 0 {
		ctx.Label("empty-wallet")
		return
	}

	if runC43Ops(ctx, c, path, &cli, &made) {
		ctx.Label("wallet:non-default-scrypt-at-end")
	}

	// the saved file is password-protected: no plain encoding of the secret appears in it
	file, err := os.ReadFile(path)
	if err != nil {
		ctx.Failf("wallet file was not saved: %v", err)
	}
	for i, m := range made {
		sec := secretBytes(m.orig.PrivateKey)
		if len(sec) < 16 {
			continue // a (astronomically unlikely) tiny scalar would match by accident
		}
		for name, enc := range map[string][]byte{
			"raw": sec, "hex": []byte(hex.EncodeToString(sec)), "HEX": bytes.ToUpper([]byte(hex.EncodeToString(sec))),
			"base64": []byte(base64.StdEncoding.EncodeToString(sec)), "base64url": []byte(base64.URLEncoding.EncodeToString(sec)),
		} {
			if bytes.Contains(file, enc) {
				ctx.Failf("account %d: the saved wallet file contains the private key in plain %s form", i, name)
			}
		}
	}

	// fresh client on the same file
	cli2, err := account.NewClientImpl(path)
	if err != nil {
		ctx.Failf("re-open saved wallet: %v", err)
	}
	if n := cli2.GetAccountNum(); n != len(made) {
		ctx.Failf("re-opened wallet holds %d accounts, %d were created/imported", n, len(made))
	}
	judgedWrong, verified := 0, 0
	for i, m := range made {
		addr := m.orig.Address.ToBase58()
		what := fmt.Sprintf("account %d (%s %s %s label %q)", i, m.spec.Mode, m.spec.Key, m.spec.Scheme, m.label)
		// metadata through the three lookups
		md := cli2.GetAccountMetadataByAddress(addr)
		if md == nil {
			ctx.Failf("%s: not found by address after reload", what)
		}
		if md.Address != addr || md.PubKey != hex.EncodeToString(keypair.SerializePublicKey(m.orig.PublicKey)) ||
			md.SigSch != m.spec.Scheme || md.Label != m.label || md.IsDefault != m.deflt {
			ctx.Failf("%s: metadata after reload differs: %+v", what, *md)
		}
		if mi := cli2.GetAccountMetadataByIndex(i + 1); mi == nil || mi.Address != addr {
			ctx.Failf("%s: not found at index %d after reload", what, i+1)
		}
		if m.label != "" {
			if ml := cli2.GetAccountMetadataByLabel(m.label); ml == nil || ml.Address != addr {
				ctx.Failf("%s: not found by label after reload", what)
			}
		}
		// right password
		var got *account.Account
		via := m.spec.Via
		if (via == "label" && m.label == "") || (via == "default" && !m.deflt) {
			via = "addr"
		}
		ctx.Label("via:" + via)
		if p := ev.Catch(func() {
			switch via {
			case "label":
				got, err = cli2.GetAccountByLabel(m.label, m.pw)
			case "index":
				got, err = cli2.GetAccountByIndex(i+1, m.pw)
			case "default":
				got, err = cli2.GetDefaultAccount(m.pw)
			default:
				got, err = cli2.GetAccountByAddress(addr, m.pw)
			}
		}); p != "" {
			ctx.Failf("%s: decrypting with the right password panicked: %s", what, p)
		}
		if err != nil && lateKnown(ctx, m, what, err) {
			continue
		}
		if err != nil {
			ctx.Failf("%s: decrypting with its own password (%x) via %s failed after history %s: %v", what, m.pw, via, opsSummary(c), err)
		}
		sameAccount(ctx, what, m.orig, got, i)
		verified++

		// other passwords
		nf := hmacNormalForm(m.pw)
		others := m.spec.Others
		if m.changed {
			others = append([]c43Other{{Kind: "old-password", Pw: m.spec.Pw}}, others...)
		}
		for _, o := range others {
			if bytes.Equal(o.Pw, m.pw) {
				ctx.Label("other:identical-skipped")
				continue
			}
			var g2 *account.Account
			var e2 error
			if p := ev.Catch(func() { g2, e2 = cli2.GetAccountByAddress(addr, o.Pw) }); p != "" {
				ctx.Failf("%s: decrypting with another password (%x) panicked: %s", what, []byte(o.Pw), p)
			}
			if len(o.Pw) > 0 && hmacNormalForm(o.Pw) == nf {
				// not distinguishable by the key-derivation function
				ctx.Label("other:hmac-equivalent")
				if e2 == nil {
					ctx.Known(c43KnownHMAC, "%s: password %x also unlocks the account protected with %x (same HMAC-SHA256 key after RFC 2104 normalisation: zero padding / pre-hash of >64-byte keys)",
						what, []byte(o.Pw), m.pw)
				}
				continue
			}
			ctx.Label("other:" + o.Kind)
			if e2 == nil || g2 != nil {
				ctx.Failf("%s: protected with password %x but password %x (%s) was accepted", what, m.pw, []byte(o.Pw), o.Kind)
			}
			judgedWrong++
		}
	}
	if verified > 0 && judgedWrong > 0 {
		ctx.NonTrivial()
	}
	if len(made) > 1 {
		ctx.Label("multi-account")
	}
}

func opsSummary(c c43Case) string {
	var b []string
	for _, o := range c.Ops {
		x := o.Op
		if o.Mode != "" {
			x += "/" + o.Mode
		}
		b = append(b, x)
	}
	return "[" + strings.Join(b, " ") + "]"
}

// runC43Ops executes the history after creation on the live client, keeping the model (made) in
// step. It returns whether the wallet currently runs on non-default scrypt parameters.
func runC43Ops(ctx *ev.Ctx, c c43Case, path string, pcli **account.ClientImpl, pmade *[]*c43Made) (low bool) {
	for oi, o := range c.Ops {
		cli, made := *pcli, *pmade
		n := len(made)
		if n == 0 {
			return
		}
		m := made[((o.At%n)+n)%n]
		addr := m.orig.Address.ToBase58()
		what := fmt.Sprintf("op %d (%s %s on account %d of %d)", oi, o.Op, o.Mode, ((o.At%n)+n)%n, n)
		ctx.Label("op:" + o.Op)
		switch o.Op {
		case "tolow", "todefault":
			pws := make([][]byte, n)
			allRight := true
			for k, mk := range made {
				pws[k] = mk.pw
				wrong := append(append([]byte(nil), o.Wrong...), byte('0'+k))
				if (o.Mode == "wrong-at" && mk == m) || o.Mode == "all-wrong" {
					if differs(wrong, mk.pw) {
						pws[k] = wrong
						allRight = false
					}
				}
			}
			var err error
			pn := ev.Catch(func() {
				if o.Op == "tolow" {
					err = cli.GetWalletData().ToLowSecurity(pws)
				} else {
					err = cli.GetWalletData().ToDefaultSecurity(pws)
				}
			})
			switch {
			case pn != "":
				// not judged by this property (a panic converts nothing); counted
				ctx.Label(o.Op + ":panicked")
			case err != nil:
				ctx.Label(o.Op + ":refused")
			default:
				ctx.Label(o.Op + ":converted")
				if !allRight {
					ctx.Failf("%s: the wallet was re-encrypted although a wrong password was supplied (history %s)", what, opsSummary(c))
				}
				low = o.Op == "tolow"
			}
			if !allRight && pn == "" && err != nil {
				ctx.Label("conversion-refused:" + o.Mode)
			}
			// the export flow: conversion, then the wallet data is written out
			if err := cli.GetWalletData().Save(path); err != nil {
				ctx.Failf("%s: saving the wallet data: %v", what, err)
			}
			// whatever the outcome, the account still opens with its own password in this client
			got, gerr := cli.GetAccountByAddress(addr, m.pw)
			if gerr != nil && lateKnown(ctx, m, what, gerr) {
				continue
			}
			if gerr != nil {
				ctx.Failf("%s: afterwards account %s no longer decrypts with its own password (%x) in the same client: %v (history %s)", what, addr, m.pw, gerr, opsSummary(c))
			}
			sameAccount(ctx, what+": account after the conversion attempt", m.orig, got, oi)
		case "chpw":
			old := m.pw
			if o.Mode == "wrong" {
				old = o.Wrong
			}
			if len(o.Pw) == 0 || bytes.Equal(old, o.Pw) {
				ctx.Label("chpw:skipped")
				continue
			}
			var err error
			if pn := ev.Catch(func() { err = cli.ChangePassword(addr, old, o.Pw) }); pn != "" {
				ctx.Failf("%s: ChangePassword panicked: %s", what, pn)
			}
			if differs(old, m.pw) {
				if err == nil {
					ctx.Failf("%s: password of %s changed although the old password given (%x) is not its password (%x)", what, addr, old, m.pw)
				}
				ctx.Label("chpw:refused")
			} else {
				if err != nil && lateKnown(ctx, m, what, err) {
					continue
				}
				if err != nil {
					ctx.Failf("%s: ChangePassword with the account's own password (%x) failed: %v (history %s)", what, m.pw, err, opsSummary(c))
				}
				m.pw, m.changed = append([]byte(nil), o.Pw...), true
				ctx.Label("chpw:changed")
			}
		case "delete":
			pw := m.pw
			if o.Mode == "wrong" {
				pw = o.Wrong
			}
			var acc *account.Account
			var err error
			if pn := ev.Catch(func() { acc, err = cli.DeleteAccount(addr, pw) }); pn != "" {
				ctx.Failf("%s: DeleteAccount panicked: %s", what, pn)
			}
			switch {
			case m.deflt:
				ctx.Label("delete:default-account")
				if err == nil {
					ctx.Label("delete:default-account-deleted")
					*pmade = removeMade(made, m)
				}
			case differs(pw, m.pw):
				if err == nil || acc != nil {
					ctx.Failf("%s: account %s deleted / handed out with password %x, its password is %x", what, addr, pw, m.pw)
				}
				ctx.Label("delete:refused")
			default:
				if err != nil && lateKnown(ctx, m, what, err) {
					continue
				}
				if err != nil {
					ctx.Failf("%s: DeleteAccount with the account's own password (%x) failed: %v (history %s)", what, m.pw, err, opsSummary(c))
				}
				sameAccount(ctx, what+": account handed out by DeleteAccount", m.orig, acc, oi)
				*pmade = removeMade(made, m)
				ctx.Label("delete:deleted")
			}
		case "setdefault":
			if err := cli.SetDefaultAccount(addr); err == nil {
				for _, mk := range made {
					mk.deflt = mk == m
				}
			} else {
				ctx.Label("setdefault:refused")
			}
		case "setlabel":
			if err := cli.SetLabel(addr, o.Label); err == nil {
				m.label = o.Label
			} else {
				ctx.Label("setlabel:refused")
			}
		case "new":
			if o.Acct == nil {
				continue
			}
			kk := c43KeyByName(o.Acct.Key)
			scheme, serr := s.GetScheme(o.Acct.Scheme)
			if kk == nil || serr != nil || len(o.Acct.Pw) == 0 {
				ctx.Label("skip:malformed-case")
				continue
			}
			var acc *account.Account
			var err error
			if pn := ev.Catch(func() { acc, err = cli.NewAccount("", kk.typ, kk.curve, scheme, o.Acct.Pw) }); pn != "" {
				ctx.Failf("%s: NewAccount panicked: %s", what, pn)
			}
			if err != nil || acc == nil {
				ctx.Failf("%s: NewAccount(%s, %s) failed: %v", what, o.Acct.Key, o.Acct.Scheme, err)
			}
			spec := *o.Acct
			spec.Mode = "late"
			*pmade = append(made, &c43Made{spec: spec, orig: acc, label: "", pw: spec.Pw, lateLow: low})
			if low {
				ctx.Label("new:in-converted-wallet")
			}
		case "unlock":
			pw := m.pw
			if o.Mode == "wrong" {
				pw = o.Wrong
			}
			if o.Exp < 0 || (o.Exp > 0 && o.Exp < 3600) {
				ctx.Label("skip:malformed-case") // short expiries would make the verdict depend on the clock
				continue
			}
			var err error
			if pn := ev.Catch(func() { err = cli.UnLockAccount(addr, o.Exp, pw) }); pn != "" {
				ctx.Failf("%s: UnLockAccount panicked: %s", what, pn)
			}
			if differs(pw, m.pw) {
				if err == nil {
					ctx.Failf("%s: account %s unlocked with password %x, its password is %x (history %s)", what, addr, pw, m.pw, opsSummary(c))
				}
				ctx.Label("unlock:refused")
			} else {
				if err != nil && lateKnown(ctx, m, what, err) {
					continue
				}
				if err != nil {
					ctx.Failf("%s: UnLockAccount with the account's own password (%x) failed: %v (history %s)", what, m.pw, err, opsSummary(c))
				}
				m.unlock = o.Exp > 0
				ctx.Label(fmt.Sprintf("unlock:done-expiry-%d", o.Exp))
			}
			checkUnlockState(ctx, what, cli, m, oi) // a refused unlock changes nothing
		case "lock":
			cli.LockAccount(addr)
			m.unlock = false
			checkUnlockState(ctx, what, cli, m, oi)
		case "probe":
			// a wrong password against one password-taking entry point, at this point of the history
			if !differs(o.Wrong, m.pw) {
				ctx.Label("probe:skipped-equivalent-password")
				continue
			}
			idx := 0
			for k, mk := range made {
				if mk == m {
					idx = k + 1
				}
			}
			via := o.Via
			if (via == "label" && m.label == "") || (via == "default" && !m.deflt) {
				via = "addr"
			}
			var acc *account.Account
			var err error
			if pn := ev.Catch(func() {
				switch via {
				case "label":
					acc, err = cli.GetAccountByLabel(m.label, o.Wrong)
				case "index":
					acc, err = cli.GetAccountByIndex(idx, o.Wrong)
				case "default":
					acc, err = cli.GetDefaultAccount(o.Wrong)
				case "delete":
					acc, err = cli.DeleteAccount(addr, o.Wrong)
				case "unlock":
					err = cli.UnLockAccount(addr, 7200, o.Wrong)
				default:
					acc, err = cli.GetAccountByAddress(addr, o.Wrong)
				}
			}); pn != "" {
				ctx.Failf("%s: %s with a wrong password panicked: %s", what, via, pn)
			}
			state := "locked"
			if m.unlock {
				state = "unlocked"
				ctx.Label("probe:while-unlocked")
			}
			ctx.Label("probe:" + via)
			if err == nil || acc != nil {
				ctx.Failf("%s: entry point %q accepted password %x for account %s (%s in this client), whose password is %x (history %s)",
					what, via, []byte(o.Wrong), addr, state, m.pw, opsSummary(c))
			}
			// no effect: still in the wallet, unlock state as before
			if cli.GetAccountMetadataByAddress(addr) == nil {
				ctx.Failf("%s: account %s disappeared after a refused %s", what, addr, via)
			}
			checkUnlockState(ctx, what, cli, m, oi)
		case "reload":
			c2, err := account.NewClientImpl(path)
			if err != nil {
				ctx.Failf("%s: re-open saved wallet: %v", what, err)
			}
			for _, mk := range made {
				mk.unlock = false // the unlock cache belongs to the client instance
			}
			*pcli = c2
			if sp := c2.GetWalletData().Scrypt; sp != nil {
				low = sp.N != keypair.DEFAULT_N
			}
		default:
			ctx.Label("skip:malformed-case")
		}
	}
	return
}

func removeMade(made []*c43Made, m *c43Made) []*c43Made {
	out := make([]*c43Made, 0, len(made))
	for _, x := range made {
		if x != m {
			out = append(out, x)
		}
	}
	return out
}

func TestC43(t *testing.T) {
	ev.Drive(t, "C43",
		"cases: wallets of 1..3 accounts over every key type/curve of the wallet CLI (ECDSA P-224/256/384/521/secp256k1, SM2, Ed25519) x every admitted signature scheme, "+
			"created (NewAccount) or imported from a donor wallet (ImportAccount, incl. label clashes), labels incl. empty/duplicate/non-ASCII, passwords of 1..80 bytes "+
			"(printable, UTF-8, arbitrary bytes, trailing NUL, exactly 64, longer than 64); then 0..4 further wallet operations: ToLowSecurity / ToDefaultSecurity with all passwords right, "+
			"one wrong at a chosen position or all wrong (followed by saving the wallet data), ChangePassword / DeleteAccount with the right or a wrong password, SetDefaultAccount, SetLabel, a late NewAccount, re-opening, UnLockAccount (right/wrong password, expiry 0 or hours), LockAccount, "+
			"and probes with a wrong password through every password-taking entry point (by address/label/index/default, DeleteAccount, UnLockAccount), preferably right after an unlock; "+
			"then a fresh client re-opens the file and every remaining account is opened with its current password and with other passwords (incl. a replaced old password). "+
			"non-trivial: at least one account was decrypted with its own password after the reload and compared with the original key pair, and at least one "+
			"password that differs under the HMAC key normal form was tried against it; distinct by JSON encoding of the case (key material itself is drawn by the code under test)",
		genC43, runC43)
}
