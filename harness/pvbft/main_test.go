// Package pvbft holds the checks of the VBFT consensus cluster: C40 (participant selection),
// C41 (round decisions count distinct participants) and C44 (consensus message codec / signature
// binding). Everything in consensus/vbft is reached through the build-tagged export shim
// /repo/consensus/vbft/verif_export.go (hook H4), because the in-package tests do not build.
package pvbft

import (
	"encoding/json"
	"fmt"
	"sync"
	"testing"

	"github.com/ontio/ontology-crypto/keypair"
	osig "github.com/ontio/ontology-crypto/signature"
	"github.com/polynetwork/poly/account"
	"github.com/polynetwork/poly/common"
	"github.com/polynetwork/poly/common/log"
	"github.com/polynetwork/poly/consensus/vbft"
	vconfig "github.com/polynetwork/poly/consensus/vbft/config"
	"github.com/polynetwork/poly/core/payload"
	"github.com/polynetwork/poly/core/types"

	"verif/harness/ev"
	"verif/harness/world"
)

func init() {
	// the consensus code logs every selection / message at Info level to stdout
	log.InitLog(log.MaxLevelLog)
}

func TestMain(m *testing.M) { ev.Main(m) }

// ---------------------------------------------------------------------------------------------
// participants: position pos (0-based) <-> consensus peer index pos+1, key world.Acct(pos)

func pidx(pos int) uint32             { return uint32(pos + 1) }
func acct(pos int) *account.Account   { return world.Acct(pos) }
func pubOf(pos int) keypair.PublicKey { return acct(pos).PublicKey }

func peerConfigs(n int) []*vconfig.PeerConfig {
	out := make([]*vconfig.PeerConfig, n)
	for i := range out {
		out[i] = &vconfig.PeerConfig{Index: pidx(i), ID: world.PubHex(acct(i))}
	}
	return out
}

// signature cache: ECDSA signing is randomised, which only affects signature bytes; caching keeps
// a (signer, hash) pair stable inside one process and saves time.
var sigCache sync.Map

func signHash(pos int, h common.Uint256) []byte { return signHashV(pos, h, 0) }

// signHashV: variant v > 0 is ANOTHER genuine signature of the same signer over the same hash
// (ECDSA is randomised: a re-signed message carries different signature bytes).
func signHashV(pos int, h common.Uint256, v int) []byte {
	k := fmt.Sprintf("%d/%x/%d", pos, h[:], v)
	if v, ok := sigCache.Load(k); ok {
		return append([]byte(nil), v.([]byte)...)
	}
	s := signBytes(pos, h[:])
	sigCache.Store(k, s)
	return append([]byte(nil), s...)
}

// signBytes signs data with the key of participant pos using ontology-crypto directly (not the
// node's core/signature wrapper), SHA256withECDSA, serialised in the library's wire form.
func signBytes(pos int, data []byte) []byte {
	a := acct(pos)
	sg, err := osig.Sign(a.SigScheme, a.PrivateKey, data, nil)
	if err != nil {
		panic("harness: sign: " + err.Error())
	}
	b, err := osig.Serialize(sg)
	if err != nil {
		panic("harness: serialize signature: " + err.Error())
	}
	return b
}

// sigOK is the harness's own verification path (ontology-crypto directly).
func sigOK(pk keypair.PublicKey, data []byte, sig []byte) bool {
	o, err := osig.Deserialize(sig)
	if err != nil {
		return false
	}
	return osig.Verify(pk, data, o)
}

func pkBytes(pk keypair.PublicKey) string { return string(keypair.SerializePublicKey(pk)) }

// ---------------------------------------------------------------------------------------------
// blocks

func mkTx(nonce uint32, code []byte) *types.Transaction {
	tx := &types.Transaction{Version: types.CURR_TX_VERSION, TxType: types.Invoke, Nonce: nonce,
		Payload: &payload.InvokeCode{Code: code}}
	sink := common.NewZeroCopySink(nil)
	if err := tx.Serialization(sink); err != nil {
		panic("harness: tx serialization: " + err.Error())
	}
	t, err := types.TransactionFromRawBytes(sink.Bytes())
	if err != nil {
		panic("harness: tx decode: " + err.Error())
	}
	return t
}

func txRoot(txs []*types.Transaction) common.Uint256 {
	hs := make([]common.Uint256, 0, len(txs))
	for _, t := range txs {
		hs = append(hs, t.Hash())
	}
	return common.ComputeMerkleRoot(hs)
}

type hdrSpec struct {
	ChainID   uint64 `json:"chain,omitempty"`
	Prev      ev.B   `json:"prev,omitempty"`
	Cross     ev.B   `json:"cross,omitempty"`
	BlockRoot ev.B   `json:"broot,omitempty"`
	Timestamp uint32 `json:"ts,omitempty"`
	Height    uint32 `json:"h"`
	ConsData  uint64 `json:"cd,omitempty"`
	NextBk    ev.B   `json:"nbk,omitempty"`
}

func h256(b []byte) (h common.Uint256) { copy(h[:], b); return }

// mkTypesBlock builds a core block with the given consensus payload, signed by signer (position).
func mkTypesBlock(s hdrSpec, info *vconfig.VbftBlockInfo, txs []*types.Transaction, signer int) *types.Block {
	pl, err := json.Marshal(info)
	if err != nil {
		panic(err)
	}
	var nb common.Address
	copy(nb[:], s.NextBk)
	h := &types.Header{Version: types.CURR_HEADER_VERSION, ChainID: s.ChainID, PrevBlockHash: h256(s.Prev),
		TransactionsRoot: txRoot(txs), CrossStateRoot: h256(s.Cross), BlockRoot: h256(s.BlockRoot),
		Timestamp: s.Timestamp, Height: s.Height, ConsensusData: s.ConsData, ConsensusPayload: pl, NextBookkeeper: nb}
	b := &types.Block{Header: h, Transactions: txs}
	if signer >= 0 {
		// signed over the harness's OWN header digest (refHeaderHash, written from the block format),
		// so a deviation of the node's digest shows up as a genuine message that does not verify
		hash := refHeaderHash(h)
		h.Bookkeepers = []keypair.PublicKey{pubOf(signer)}
		h.SigData = [][]byte{signHash(signer, hash)}
	}
	return b
}

// cloneVbftBlock returns a deep copy through the wire format (no cached hashes survive).
func cloneVbftBlock(b *vbft.Block) *vbft.Block {
	raw, err := b.Serialize()
	if err != nil {
		panic("harness: block serialize: " + err.Error())
	}
	nb := &vbft.Block{}
	if err := nb.Deserialize(raw); err != nil {
		panic("harness: block deserialize: " + err.Error())
	}
	return nb
}
