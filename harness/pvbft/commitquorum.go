//go:build verif

package pvbft

// Helpers that extract, behaviourally, the commit quorum implemented by the real
// consensus/vbft.getCommitConsensus (reached through the export shim
// /repo/consensus/vbft/verif_export.go: vbft.VerifGetCommitConsensus). Importable by other harness
// packages ("verif/harness/pvbft"); used by TestC42Vbft in this package.
//
// getCommitConsensus(commitMsgs, C, N) walks the commit messages in order, collects per proposer
// the DISTINCT signers (committer of the message plus the keys of its embedded EndorsersSig map)
// and reports the proposer as soon as  len(signers)+1 >= N-(N-1)/3.  The "+1" is the proposer's
// own signature, so the quorum of distinct signers in commit messages is N-(N-1)/3-1 and the
// block ends up with N-(N-1)/3 = N-f signatures, the block-acceptance threshold of C42.

import (
	"math"

	"github.com/polynetwork/poly/consensus/vbft"
)

// commitPool holds commit messages of distinct committers 2,3,4,... all for proposer 1.
var commitPool []*vbft.VerifBlockCommitMsg

func commitMsgs(k int) []*vbft.VerifBlockCommitMsg {
	for len(commitPool) < k {
		commitPool = append(commitPool, &vbft.VerifBlockCommitMsg{Committer: uint32(len(commitPool) + 2), BlockProposer: 1, BlockNum: 1})
	}
	return commitPool[:k:k]
}

// CommitConsensusAccepts reports whether the real getCommitConsensus(N, C) reports consensus on
// proposer 1 when exactly k distinct committers (none of them the proposer) sent a commit message
// for it. Not safe for concurrent use.
func CommitConsensusAccepts(N, C, k int) bool {
	p, _ := vbft.VerifGetCommitConsensus(commitMsgs(k), C, N)
	return p != math.MaxUint32
}

// CommitConsensusAcceptsEmbedded is the same question when the k distinct signers arrive as ONE
// commit message: one committer plus k-1 embedded endorser signatures (k >= 1).
func CommitConsensusAcceptsEmbedded(N, C, k int) bool {
	if k < 1 {
		return false
	}
	es := make(map[uint32][]byte, k-1)
	for i := 0; i < k-1; i++ {
		es[uint32(i+3)] = []byte{1}
	}
	m := &vbft.VerifBlockCommitMsg{Committer: 2, BlockProposer: 1, BlockNum: 1, EndorsersSig: es}
	p, _ := vbft.VerifGetCommitConsensus([]*vbft.VerifBlockCommitMsg{m}, C, N)
	return p != math.MaxUint32
}

// CommitQuorumScan returns the smallest number k in 0..N of distinct commit signers for which
// getCommitConsensus(N, C) reports consensus, or -1 if none does (linear scan, O(N^2)).
func CommitQuorumScan(N, C int) int {
	for k := 0; k <= N; k++ {
		if CommitConsensusAccepts(N, C, k) {
			return k
		}
	}
	return -1
}
