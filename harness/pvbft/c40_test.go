package pvbft

import (
	"crypto/sha512"
	"encoding/json"
	"fmt"
	"math"
	"reflect"
	"testing"

	"github.com/polynetwork/poly/common/config"
	"github.com/polynetwork/poly/consensus/vbft"
	vconfig "github.com/polynetwork/poly/consensus/vbft/config"
	"pgregory.net/rapid"

	"verif/harness/ev"
	"verif/harness/world"
)

// ---------------------------------------------------------------------------------------------
// C40 VBFT participant selection is well formed
//
// Two routes to the selection code:
//   build  - the real Server.buildParticipantConfig on a generated previous block (the seed goes
//            through the real getParticipantSelectionSeed) and a chain configuration that is either
//            produced by the real vconfig.GenesisChainConfig from a generated peer list ("genesis")
//            or an arbitrary position table ("table": skewed weights, peers missing from the table);
//   direct - calcParticipantPeers called three times with an arbitrary raw 64-byte seed (uniform,
//            low-entropy, single-bit), which buildParticipantConfig can never produce because its
//            seed is a SHA-512 output.
// Oracle (explicit, from the property text): lists are subsets of the table values, duplicate
// free, |proposers| >= C+1, |endorsers|,|committers| >= 2C, endorsers/committers disjoint from the
// first C proposers; histories: after the configuration was built and used, 0..3 further chain configurations (same/smaller/larger pools, other heights) are generated in the same process and the selection is repeated on the same object, on a JSON-decoded copy and on a freshly built one; a second evaluation by a different node (other Server index, fresh objects,
// peers listed in another order) yields the same selection. Errors of buildParticipantConfig are
// allowed and counted.

type c40Case struct {
	Route  string   `json:"route"` // build | direct
	Table  string   `json:"table"` // genesis | table
	N      int      `json:"n"`
	C      int      `json:"c"`                // -1: keep what GenesisChainConfig computes (N/3)
	Height uint32   `json:"height"`           // shuffle height of GenesisChainConfig
	PosTab []uint32 `json:"postab,omitempty"` // table route: entries are peer positions (mod N)
	Idx    []uint32 `json:"idx,omitempty"`    // governance index of the peer at each position (N distinct values); absent: 1..N
	// previous block (build route)
	BlkNum   uint32 `json:"blknum"`
	Proposer uint32 `json:"prevproposer"`
	BRoot    ev.B   `json:"broot,omitempty"`
	Vrf      ev.B   `json:"vrf,omitempty"`
	// raw seed (direct route)
	Seed ev.B `json:"seed,omitempty"`
	// second node
	Index2 uint32 `json:"index2"`
	// further chain configurations generated (by the real GenesisChainConfig, in the same process)
	// AFTER the case's configuration was built and first used, while it is still in force
	Later []c40Later `json:"later,omitempty"`
	// other previous blocks whose selection the same process evaluates between two evaluations of
	// the case's block: siblings (same height and block root, other proposer / VRF value), blocks of
	// other heights, blocks with another root
	Sib []c40Sib `json:"sib,omitempty"`
}

type c40Sib struct {
	Kind     string `json:"kind"` // sibling | height | root
	Proposer uint32 `json:"proposer"`
	Vrf      ev.B   `json:"vrf,omitempty"`
	Delta    uint32 `json:"delta,omitempty"`
}

type c40Later struct {
	N      int      `json:"n"`
	Height uint32   `json:"height"`
	Idx    []uint32 `json:"idx,omitempty"` // absent: the same indexes as the case's pool (first N of them) or 1..N
	KeyOff int      `json:"keyoff,omitempty"`
}

func genSeed64() *rapid.Generator[[]byte] {
	return rapid.Custom(func(t *rapid.T) []byte {
		kind := rapid.SampledFrom([]string{"uniform", "uniform", "const", "onebit", "twobyte", "lowbits"}).Draw(t, "seedkind")
		b := make([]byte, 64)
		switch kind {
		case "uniform":
			copy(b, rapid.SliceOfN(rapid.Byte(), 64, 64).Draw(t, "seed"))
		case "const":
			v := rapid.Byte().Draw(t, "fill")
			for i := range b {
				b[i] = v
			}
		case "onebit":
			bit := rapid.IntRange(0, 511).Draw(t, "bit")
			b[bit/8] = 1 << uint(bit%8)
		case "twobyte":
			b[rapid.IntRange(0, 63).Draw(t, "i")] = rapid.Byte().Draw(t, "v1")
			b[rapid.IntRange(0, 63).Draw(t, "j")] = rapid.Byte().Draw(t, "v2")
		case "lowbits":
			for i := range b {
				b[i] = rapid.ByteRange(0, 3).Draw(t, "lb")
			}
		}
		return b
	})
}

// genPeerIndexes draws the governance indexes of the N peers. Governance hands indexes out
// sequentially and never reuses them, so an aged pool has large, sparse indexes: dense runs from an
// arbitrary base (around 64, 128, 2^16, 2^31, the top of the range) and sparse sets mixing small,
// boundary and arbitrary 32-bit values. 0xFFFFFFFF is the code's reserved "no peer" value.
func genPeerIndexes(t *rapid.T, n int) []uint32 {
	special := []uint32{0, 1, 31, 32, 33, 62, 63, 64, 65, 66, 100, 127, 128, 129, 255, 256, 1000, 1<<16 - 1, 1 << 16, 1<<16 + 1,
		1<<31 - 1, 1 << 31, 1<<31 + 1, 1<<32 - 3, 1<<32 - 2}
	switch rapid.SampledFrom([]string{"1..N", "dense-base", "dense-base", "sparse", "sparse", "sparse-small"}).Draw(t, "idxkind") {
	case "1..N":
		return nil
	case "dense-base":
		base := rapid.OneOf(rapid.SampledFrom(special), rapid.Uint32Range(40, 70), rapid.Uint32()).Draw(t, "idxbase")
		if uint64(base)+uint64(n) > 1<<32-2 {
			base = uint32(1<<32 - 2 - uint64(n))
		}
		out := make([]uint32, n)
		for i := range out {
			out[i] = base + uint32(i)
		}
		return out
	case "sparse-small":
		return rapid.SliceOfNDistinct(rapid.Uint32Range(0, 200), n, n, func(v uint32) uint32 { return v }).Draw(t, "idx")
	}
	one := rapid.OneOf(rapid.SampledFrom(special), rapid.Uint32Range(0, 200), rapid.Uint32Range(0, 1<<32-2))
	return rapid.SliceOfNDistinct(one, n, n, func(v uint32) uint32 { return v }).Draw(t, "idx")
}

// idxOf is the governance index of the peer at position pos.
func (c c40Case) idxOf(pos int) uint32 {
	if len(c.Idx) == c.N {
		return c.Idx[pos]
	}
	return pidx(pos)
}

func genC40(t *rapid.T) c40Case {
	maxN := ev.Scale(40, 40)
	c := c40Case{
		Route: rapid.SampledFrom([]string{"build", "build", "direct"}).Draw(t, "route"),
		Table: rapid.SampledFrom([]string{"genesis", "genesis", "table"}).Draw(t, "table"),
	}
	c.N = rapid.OneOf(rapid.IntRange(4, 13), rapid.IntRange(1, maxN)).Draw(t, "n")
	// C: what the chain computes (N/3), the BFT bound (N-1)/3, or anything smaller
	switch rapid.SampledFrom([]string{"cfg", "f", "f", "small"}).Draw(t, "ckind") {
	case "cfg":
		c.C = -1
	case "f":
		c.C = (c.N - 1) / 3
	default:
		c.C = rapid.IntRange(0, (c.N-1)/3).Draw(t, "c")
	}
	c.Idx = genPeerIndexes(t, c.N)
	c.Height = rapid.OneOf(rapid.Uint32Range(0, 3), rapid.Uint32()).Draw(t, "height")
	if c.Table == "table" {
		if c.C < 0 {
			c.C = c.N / 3
		}
		ln := rapid.OneOf(rapid.IntRange(1, 16), rapid.IntRange(1, 15*c.N)).Draw(t, "tablen")
		skew := rapid.Bool().Draw(t, "skew")
		c.PosTab = make([]uint32, ln)
		for i := range c.PosTab {
			if skew {
				// heavy head: most weight on few peers, some peers missing altogether
				c.PosTab[i] = uint32(rapid.OneOf(rapid.IntRange(0, 2), rapid.IntRange(0, c.N-1)).Draw(t, "pos") % c.N)
			} else {
				c.PosTab[i] = uint32(rapid.IntRange(0, c.N-1).Draw(t, "pos"))
			}
		}
	}
	c.BlkNum = rapid.OneOf(rapid.Uint32Range(1, 4), rapid.Uint32Range(1, math.MaxUint32-1)).Draw(t, "blknum")
	c.Proposer = rapid.OneOf(rapid.Uint32Range(0, 40), rapid.Just(uint32(math.MaxUint32))).Draw(t, "prevproposer")
	c.BRoot = rapid.SliceOfN(rapid.Byte(), 32, 32).Draw(t, "broot")
	c.Vrf = rapid.OneOf(rapid.SliceOfN(rapid.Byte(), 0, 4), rapid.SliceOfN(rapid.Byte(), 64, 64)).Draw(t, "vrf")
	if c.Route == "direct" {
		c.Seed = genSeed64().Draw(t, "rawseed")
	}
	c.Index2 = rapid.Uint32Range(0, 50).Draw(t, "index2")
	if c.Route == "build" {
		ns := rapid.SampledFrom([]int{0, 1, 1, 2, 3}).Draw(t, "nsib")
		for i := 0; i < ns; i++ {
			sb := c40Sib{Kind: rapid.SampledFrom([]string{"sibling", "sibling", "sibling", "height", "root"}).Draw(t, "sibkind"),
				Proposer: rapid.OneOf(rapid.Just(c.Proposer), rapid.Uint32Range(0, 40)).Draw(t, "sibproposer"),
				Delta:    rapid.Uint32Range(1, 3).Draw(t, "sibdelta")}
			sb.Vrf = rapid.OneOf(rapid.Just([]byte(c.Vrf)), rapid.SliceOfN(rapid.Byte(), 0, 4), rapid.SliceOfN(rapid.Byte(), 64, 64)).Draw(t, "sibvrf")
			c.Sib = append(c.Sib, sb)
		}
	}
	nl := rapid.SampledFrom([]int{0, 1, 1, 2, 3}).Draw(t, "nlater")
	for i := 0; i < nl; i++ {
		l := c40Later{Height: rapid.OneOf(rapid.Uint32Range(0, 3), rapid.Uint32()).Draw(t, "lheight")}
		switch rapid.SampledFrom([]string{"same", "same", "smaller", "larger", "any"}).Draw(t, "lsize") {
		case "same":
			l.N = c.N
		case "smaller":
			l.N = rapid.IntRange(1, c.N).Draw(t, "ln")
		case "larger":
			l.N = rapid.IntRange(c.N, 40).Draw(t, "ln")
		default:
			l.N = rapid.IntRange(1, 40).Draw(t, "ln")
		}
		if rapid.Bool().Draw(t, "otherpool") {
			l.Idx = genPeerIndexes(t, l.N)
			l.KeyOff = rapid.SampledFrom([]int{0, 7, 20}).Draw(t, "keyoff")
		}
		c.Later = append(c.Later, l)
	}
	return c
}

// chainConfigC40 builds the chain configuration of the case; reversed lists the peers in the
// opposite order (an irrelevant difference between two nodes' in-memory objects for the "table"
// route; for the "genesis" route the order is an input of the real table construction, so it is
// kept).
func chainConfigC40(c c40Case, reversed bool) (*vconfig.ChainConfig, error) {
	if c.Table == "genesis" {
		peers := make([]*config.VBFTPeerInfo, c.N)
		for i := range peers {
			peers[i] = &config.VBFTPeerInfo{Index: c.idxOf(i), PeerPubkey: world.PubHex(acct(i)), Address: acct(i).Address.ToBase58()}
		}
		conf := &config.VBFTConfig{BlockMsgDelay: 10000, HashMsgDelay: 10000, PeerHandshakeTimeout: 10, MaxBlockChangeView: 1000}
		cfg, err := vconfig.GenesisChainConfig(conf, peers, c.Height)
		if err != nil {
			return nil, err
		}
		if c.C >= 0 {
			cfg.C = uint32(c.C)
		}
		return cfg, nil
	}
	peers := peerConfigs(c.N)
	for i := range peers {
		peers[i].Index = c.idxOf(i)
	}
	if reversed {
		for i, j := 0, len(peers)-1; i < j; i, j = i+1, j-1 {
			peers[i], peers[j] = peers[j], peers[i]
		}
	}
	tab := make([]uint32, len(c.PosTab))
	for i, p := range c.PosTab {
		tab[i] = c.idxOf(int(p) % c.N)
	}
	return &vconfig.ChainConfig{Version: 1, View: 1, N: uint32(c.N), C: uint32(c.C), Peers: peers, PosTable: tab}, nil
}

func prevBlockC40(c c40Case) *vbft.Block {
	info := &vconfig.VbftBlockInfo{Proposer: c.Proposer, VrfValue: append([]byte(nil), c.Vrf...), LastConfigBlockNum: 0}
	blk := mkTypesBlock(hdrSpec{Height: c.BlkNum - 1, BlockRoot: c.BRoot, Timestamp: 1}, info, nil, -1)
	return &vbft.Block{Block: blk, Info: info}
}

type selection struct {
	P, E, Cm []uint32
	Err      string
}

// laterConfigC40 generates another chain configuration with the real GenesisChainConfig.
func laterConfigC40(ctx *ev.Ctx, c c40Case, l c40Later) *vconfig.ChainConfig {
	if l.N < 1 {
		return nil
	}
	peers := make([]*config.VBFTPeerInfo, l.N)
	seen := map[uint32]bool{}
	for i := range peers {
		idx := pidx(i)
		switch {
		case len(l.Idx) == l.N:
			idx = l.Idx[i]
		case i < c.N:
			idx = c.idxOf(i)
		default:
			idx = uint32(3000000 + i) // pool grew: fresh indexes
		}
		if seen[idx] || idx == math.MaxUint32 {
			return nil
		}
		seen[idx] = true
		a := acct(l.KeyOff + i)
		peers[i] = &config.VBFTPeerInfo{Index: idx, PeerPubkey: world.PubHex(a), Address: a.Address.ToBase58()}
	}
	conf := &config.VBFTConfig{BlockMsgDelay: 5000, HashMsgDelay: 5000, PeerHandshakeTimeout: 10, MaxBlockChangeView: 1000}
	var cfg *vconfig.ChainConfig
	var err error
	if p := ev.Catch(func() { cfg, err = vconfig.GenesisChainConfig(conf, peers, l.Height) }); p != "" {
		ctx.Failf("GenesisChainConfig panicked on a well-formed peer list of %d: %s", l.N, p)
	}
	if err != nil {
		ctx.Failf("GenesisChainConfig failed on a well-formed peer list: %v", err)
	}
	return cfg
}

func mustConfigC40(ctx *ev.Ctx, c c40Case, reversed bool) *vconfig.ChainConfig {
	cfg, err := chainConfigC40(c, reversed)
	if err != nil {
		ctx.Failf("GenesisChainConfig failed on a well-formed peer list: %v", err)
	}
	return cfg
}

func selectC40(ctx *ev.Ctx, c c40Case, cfg *vconfig.ChainConfig, index uint32) selection {
	srv, err := vbft.VerifNewServer(index, cfg)
	if err != nil {
		ctx.Failf("harness: VerifNewServer: %v", err)
	}
	var sel selection
	if c.Route == "build" {
		var pc *vbft.BlockParticipantConfig
		if p := ev.Catch(func() { pc, err = srv.VerifBuildParticipantConfig(c.BlkNum, prevBlockC40(c), cfg) }); p != "" {
			ctx.Failf("buildParticipantConfig panicked (N=%d C=%d table %d entries): %s", cfg.N, cfg.C, len(cfg.PosTable), p)
		}
		// the seed of this very block, computed by the harness from the block's own fields
		ref := refSeedC40(c)
		var got vconfig.VRFValue
		if p := ev.Catch(func() { got = vbft.VerifGetParticipantSelectionSeed(prevBlockC40(c)) }); p != "" {
			ctx.Failf("getParticipantSelectionSeed panicked: %s", p)
		}
		if got != ref {
			ctx.Failf("selection seed of the block (height %d, proposer %d, vrf %x, root %x) is %x..., but double SHA-512 over (block_num, prev_block_proposer, block_root, vrf_value) of that block is %x...",
				c.BlkNum-1, c.Proposer, []byte(c.Vrf), clipB8(c.BRoot), got[:8], ref[:8])
		}
		// what the three selection calls give for the reference seed
		c2 := c
		c2.Route, c2.Seed = "direct", ref[:]
		exp := selectC40(ctx, c2, cfg, index)
		if err != nil {
			sel.Err = err.Error()
			if exp.Err == "" {
				ctx.Failf("buildParticipantConfig fails (%v) although the reference seed of the block yields a full selection %+v", err, exp)
			}
			return sel
		}
		if pc == nil {
			ctx.Failf("buildParticipantConfig returned (nil, nil)")
		}
		if pc.BlockNum != c.BlkNum {
			ctx.Failf("participant config is for block %d, asked for %d", pc.BlockNum, c.BlkNum)
		}
		if pc.Vrf != ref {
			ctx.Failf("participant config of block %d (previous proposer %d) carries seed %x..., the block's own seed is %x...", c.BlkNum, c.Proposer, pc.Vrf[:8], ref[:8])
		}
		sel = selection{P: pc.Proposers, E: pc.Endorsers, Cm: pc.Committers}
		if exp.Err != "" || !reflect.DeepEqual(sel, exp) {
			ctx.Failf("buildParticipantConfig selects %+v, the block's own seed yields %+v", sel, exp)
		}
		return sel
	}
	// direct: the three calls with a raw seed
	var seed vconfig.VRFValue
	copy(seed[:], c.Seed)
	pc := &vbft.BlockParticipantConfig{BlockNum: c.BlkNum, Vrf: seed, ChainConfig: cfg}
	call := func(start, end int) (out []uint32) {
		if p := ev.Catch(func() { out = vbft.VerifCalcParticipantPeers(pc, cfg, start, end) }); p != "" {
			ctx.Failf("calcParticipantPeers(%d,%d) panicked (N=%d C=%d table %d entries): %s", start, end, cfg.N, cfg.C, len(cfg.PosTable), p)
		}
		return out
	}
	s := 0
	all := call(s, s+vconfig.MAX_PROPOSER_COUNT)
	if len(all) < int(cfg.C)+1 {
		sel.Err = "direct: too few proposers"
		// what was returned must still be well formed
		checkList(ctx, "proposers(short)", all, cfg, nil)
		return sel
	}
	checkList(ctx, "proposers(all)", all, cfg, nil)
	pc.Proposers = all[:cfg.C+1]
	s += vconfig.MAX_PROPOSER_COUNT
	pc.Endorsers = call(s, s+vconfig.MAX_ENDORSER_COUNT)
	s += vconfig.MAX_ENDORSER_COUNT
	pc.Committers = call(s, s+vconfig.MAX_COMMITTER_COUNT)
	sel = selection{P: pc.Proposers, E: pc.Endorsers, Cm: pc.Committers}
	if len(sel.E) < 2*int(cfg.C) || len(sel.Cm) < 2*int(cfg.C) {
		// buildParticipantConfig would refuse this; lists must still be well formed
		checkList(ctx, "endorsers(short)", sel.E, cfg, pc.Proposers)
		checkList(ctx, "committers(short)", sel.Cm, cfg, pc.Proposers)
		sel.Err = "direct: too few endorsers/committers"
	}
	return sel
}

// checkList: subset of the table values, duplicate free, disjoint from the first C proposers.
func checkList(ctx *ev.Ctx, name string, l []uint32, cfg *vconfig.ChainConfig, proposers []uint32) {
	inTable := map[uint32]bool{}
	for _, v := range cfg.PosTable {
		inTable[v] = true
	}
	seen := map[uint32]bool{}
	for i, v := range l {
		if !inTable[v] {
			ctx.Failf("%s[%d]=%d is not a value of the position table (N=%d C=%d) list=%v", name, i, v, cfg.N, cfg.C, l)
		}
		if seen[v] {
			ctx.Failf("%s contains peer %d twice (N=%d C=%d) list=%v", name, v, cfg.N, cfg.C, l)
		}
		seen[v] = true
	}
	lead := int(cfg.C)
	if lead > len(proposers) {
		lead = len(proposers)
	}
	for _, p := range proposers[:lead] {
		if seen[p] {
			ctx.Failf("%s contains leading proposer %d (first C=%d proposers %v) list=%v", name, p, cfg.C, proposers[:lead], l)
		}
	}
}

func runC40(ctx *ev.Ctx, c c40Case) {
	world.ResetGlobals(0)
	if c.N < 1 || (c.Table == "table" && len(c.PosTab) == 0) {
		ctx.Label("skip:degenerate")
		return
	}
	ctx.Label("route:" + c.Route)
	ctx.Label("table:" + c.Table)
	{
		seen, big := map[uint32]bool{}, false
		for i := 0; i < c.N; i++ {
			v := c.idxOf(i)
			if seen[v] || v == math.MaxUint32 {
				ctx.Label("skip:peer-indexes-not-distinct-or-reserved")
				return
			}
			seen[v] = true
			big = big || v >= 64
		}
		switch {
		case len(c.Idx) != c.N:
			ctx.Label("idx:1..N")
		case big:
			ctx.Label("idx:some>=64")
		default:
			ctx.Label("idx:arbitrary<64")
		}
	}
	// node 1 generates configuration A, keeps the very object (as the Server does) and selects
	cfg := mustConfigC40(ctx, c, false)
	wire, err := json.Marshal(cfg) // what other nodes receive (ChainConfig.Serialize is JSON)
	if err != nil {
		ctx.Failf("harness: marshal chain config: %v", err)
	}
	own := map[uint32]bool{}
	for i := 0; i < c.N; i++ {
		own[c.idxOf(i)] = true
	}
	a := selectC40(ctx, c, cfg, 1)
	// ... then the process generates further configurations (next governance change, other height)
	var keep []*vconfig.ChainConfig
	for _, l := range c.Later {
		keep = append(keep, laterConfigC40(ctx, c, l))
	}
	if len(c.Later) > 0 {
		ctx.Label(fmt.Sprintf("later-configs:%d", len(c.Later)))
	}
	// ... and evaluates the selection after OTHER candidate blocks (each judged against its own
	// reference seed inside selectC40)
	if c.Route == "build" {
		for _, sb := range c.Sib {
			y := c
			y.Proposer, y.Vrf = sb.Proposer, sb.Vrf
			switch sb.Kind {
			case "height":
				y.BlkNum = c.BlkNum + sb.Delta
				if y.BlkNum < c.BlkNum {
					y.BlkNum = c.BlkNum - sb.Delta
				}
			case "root":
				y.BRoot = append(ev.B{}, c.BRoot...)
				if len(y.BRoot) > 0 {
					y.BRoot[int(sb.Delta)%len(y.BRoot)] ^= 0x40
				}
			}
			if y.BlkNum == 0 {
				continue
			}
			selectC40(ctx, y, cfg, 1)
			ctx.Label("other-block:" + sb.Kind)
		}
	}
	// ... and A is still in force: same object again, a node holding the decoded copy, and a node
	// that builds A afresh must all agree with the first selection
	a2 := selectC40(ctx, c, cfg, 1)
	if !reflect.DeepEqual(a, a2) {
		ctx.Failf("the same node derives a different selection from the same configuration object after %d further chain configurations were generated (N=%d C=%d):\n before: %+v\n after:  %+v\n table now %v", len(c.Later), cfg.N, cfg.C, a, a2, clipU(cfg.PosTable))
	}
	for i, v := range cfg.PosTable {
		if !own[v] {
			ctx.Failf("position table slot %d of the configuration holds peer %d, which is not one of its %d peers (after %d further chain configurations were generated)", i, v, c.N, len(c.Later))
		}
	}
	dec := &vconfig.ChainConfig{}
	if err := json.Unmarshal(wire, dec); err != nil {
		ctx.Failf("harness: unmarshal chain config: %v", err)
	}
	d := selectC40(ctx, c, dec, c.Index2)
	if !reflect.DeepEqual(a, d) {
		ctx.Failf("a node holding the decoded copy of the configuration derives a different selection (N=%d C=%d):\n node 1 (generated it): %+v\n node %d (decoded it):  %+v", cfg.N, cfg.C, a, c.Index2, d)
	}
	b := selectC40(ctx, c, mustConfigC40(ctx, c, true), c.Index2)
	if !reflect.DeepEqual(a, b) {
		ctx.Failf("two nodes derive different selections from the same inputs (N=%d C=%d):\n node index 1:  %+v\n node index %d: %+v", cfg.N, cfg.C, a, c.Index2, b)
	}
	_ = keep
	cfg = dec // the well-formedness oracle below reads the table of the pristine copy
	if a.Err != "" {
		distinct := map[uint32]bool{}
		for _, v := range cfg.PosTable {
			distinct[v] = true
		}
		switch {
		case cfg.N < 3*cfg.C+1:
			ctx.Label("err:N<3C+1") // e.g. GenesisChainConfig's C=N/3 with N divisible by 3: never selectable
		case uint32(len(distinct)) < 3*cfg.C+1:
			ctx.Label("err:table-has<3C+1-peers")
		default:
			ctx.Label("err:other:" + c.Table + ":" + c.Route)
		}
		return
	}
	C := int(cfg.C)
	if len(a.P) < C+1 {
		ctx.Failf("%d proposers selected, need at least C+1=%d: %v", len(a.P), C+1, a.P)
	}
	if len(a.E) < 2*C {
		ctx.Failf("%d endorsers selected, need at least 2C=%d: %v", len(a.E), 2*C, a.E)
	}
	if len(a.Cm) < 2*C {
		ctx.Failf("%d committers selected, need at least 2C=%d: %v", len(a.Cm), 2*C, a.Cm)
	}
	checkList(ctx, "proposers", a.P, cfg, nil)
	checkList(ctx, "endorsers", a.E, cfg, a.P)
	checkList(ctx, "committers", a.Cm, cfg, a.P)
	ctx.Label(fmt.Sprintf("ok:C=%d", minInt(C, 5)))
	if len(a.P) != C+1 {
		ctx.Label("ok:proposers>C+1")
	}
	if C >= 1 {
		ctx.NonTrivial()
	}
}

func clipB8(b []byte) []byte {
	if len(b) > 8 {
		return b[:8]
	}
	return b
}

// refSeedC40: the participant selection seed of the case's previous block, written from the
// protocol: SHA-512(SHA-512(json{block_num, prev_block_proposer, block_root, vrf_value})) where
// block_num is the number of the block being decided and the other fields are the previous block's.
func refSeedC40(c c40Case) vconfig.VRFValue {
	var root [32]byte
	copy(root[:], c.BRoot)
	vrf := append([]byte(nil), c.Vrf...) // as in the block built by prevBlockC40: absent value = JSON null
	data, err := json.Marshal(struct {
		BlockNum          uint32   `json:"block_num"`
		PrevBlockProposer uint32   `json:"prev_block_proposer"`
		BlockRoot         [32]byte `json:"block_root"`
		VrfValue          []byte   `json:"vrf_value"`
	}{c.BlkNum, c.Proposer, root, vrf})
	if err != nil {
		panic(err)
	}
	t := sha512.Sum512(data)
	return vconfig.VRFValue(sha512.Sum512(t[:]))
}

func clipU(l []uint32) []uint32 {
	if len(l) > 40 {
		return l[:40]
	}
	return l
}

func minInt(a, b int) int {
	if a < b {
		return a
	}
	return b
}

func TestC40(t *testing.T) {
	ev.Drive(t, "C40",
		"cases: N=1..40 peers with governance indexes 1..N, dense from an arbitrary base (around 64, 2^16, 2^31, top of range) or sparse arbitrary 32-bit values; C in {N/3 as GenesisChainConfig computes, (N-1)/3, smaller}; position table from the real GenesisChainConfig or an arbitrary (skewed / incomplete) table; "+
			"seed through the real getParticipantSelectionSeed of a generated previous block (buildParticipantConfig) or a raw 64-byte seed (uniform, constant, single-bit, low-entropy) fed to calcParticipantPeers. "+
			"histories: between two evaluations of the case's block the same process evaluates 0..3 other previous blocks (siblings of equal height and root with another proposer / VRF value, other heights, other roots), each judged against the harness's own seed (double SHA-512 over block_num, proposer, root, vrf) and the selection that seed yields; after the configuration was built and first used, 0..3 further chain configurations (same/smaller/larger pools, other heights) are generated in the same process, then the selection is repeated on the same object, on a JSON-decoded copy and on a freshly built configuration: all must agree and the table must still hold only its own peers. "+
			"non-trivial: a selection was produced (no error) with C>=1, so minimum sizes, duplicate freedom and the exclusion of the leading proposers are all constraining; distinct by JSON encoding of the case",
		genC40, runC40)
}
