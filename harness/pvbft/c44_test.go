package pvbft

import (
	"bytes"
	"encoding/hex"
	"encoding/json"
	"fmt"
	"sort"
	"strings"
	"testing"
	"time"

	"github.com/ontio/ontology-crypto/keypair"
	"github.com/polynetwork/poly/common"
	"github.com/polynetwork/poly/consensus/vbft"
	vconfig "github.com/polynetwork/poly/consensus/vbft/config"
	"github.com/polynetwork/poly/core/types"
	ptypes "github.com/polynetwork/poly/p2pserver/message/types"
	"pgregory.net/rapid"

	"verif/harness/ev"
	"verif/harness/world"
)

// ---------------------------------------------------------------------------------------------
// C44 Consensus messages round-trip and signatures bind their content
//
// A case is one VBFT message of one of the ten kinds (built from generated fields through the
// H4 aliases), wrapped in a signed p2p ConsensusPayload, plus one mutation.
//   1. round trip: DeserializeVbftMsg(SerializeVbftMsg(m)) is field-for-field equal to m (the
//      harness's own canonical rendering), re-serialises to identical bytes, the envelope carries
//      the wire type number of the kind (harness's own table) and the payload length; the
//      ConsensusPayload round-trips through both of its codecs.
//   2. binding: the unmutated proposal verifies under the proposer's key and the unmutated
//      payload verifies; after ONE mutation applied to the decoded object and a further trip over
//      the wire (so no cached hash survives) the message is rejected: decode error or Verify
//      error. Mutations of content the statement does not claim to be bound (dropping the
//      optional empty block, extra bookkeepers, fields of endorse/commit messages that only the
//      outer payload signature covers) are counted, and for the latter the OUTER signature is
//      required to fail instead.
//   3. mode garbage: damaged inner payloads / arbitrary bytes never panic the decoders.

var c44Kinds = []string{"proposal", "endorse", "commit", "handshake", "heartbeat", "infofetch", "infofetchresp", "proposalfetch", "blockfetch", "blockfetchresp"}

// wire numbers of the kinds, written down from the protocol (order of the MsgType enumeration)
var c44WireType = map[string]int{"proposal": 0, "endorse": 1, "commit": 2, "handshake": 3, "heartbeat": 4,
	"infofetch": 5, "infofetchresp": 6, "proposalfetch": 7, "blockfetch": 8, "blockfetchresp": 9}

type txSpec struct {
	Nonce uint32 `json:"nonce"`
	Code  ev.B   `json:"code,omitempty"`
}

type chainSpec struct {
	View, N, C uint32
	Delay      int64
	Peers      []int    `json:"peers,omitempty"`
	PosTable   []uint32 `json:"postable,omitempty"`
	MaxView    uint32
}

type blkSpec struct {
	Hdr      hdrSpec    `json:"hdr"`
	Proposer uint32     `json:"proposer"`
	Vrf      ev.B       `json:"vrf,omitempty"`
	Proof    ev.B       `json:"proof,omitempty"`
	LastCfg  uint32     `json:"lastcfg"`
	NewCfg   *chainSpec `json:"newcfg,omitempty"`
	Txs      []txSpec   `json:"txs,omitempty"`
	HasEmpty bool       `json:"hasempty"`
	SysTxs   int        `json:"systxs"`            // leading transactions that are also in the empty block
	ExtraBk  []int      `json:"extrabk,omitempty"` // further bookkeeper signatures in the header
}

type faultySpec struct {
	ID   uint32 `json:"id"`
	Hash ev.B   `json:"hash"`
}

type sigEntry struct {
	Idx uint32 `json:"idx"`
	Sig ev.B   `json:"sig"`
}

type infoSpec struct {
	Num, Proposer uint32
	Sigs          []sigEntry
}

type c44Case struct {
	Mode   string `json:"mode"` // msg | garbage
	Kind   string `json:"kind"`
	Signer int    `json:"signer"`
	// generic fields (meaning depends on the kind)
	U       []uint32     `json:"u,omitempty"`
	Hash    ev.B         `json:"hash,omitempty"`
	Empty   bool         `json:"empty,omitempty"`
	Faulty  []faultySpec `json:"faulty,omitempty"`
	NilList bool         `json:"nillist,omitempty"` // lists/maps nil instead of empty
	PSig    ev.B         `json:"psig,omitempty"`
	Sigs    []sigEntry   `json:"sigs,omitempty"`
	Bytes   []ev.B       `json:"bytes,omitempty"`
	Blk     *blkSpec     `json:"blk,omitempty"`
	Chain   *chainSpec   `json:"chain,omitempty"`
	Infos   []infoSpec   `json:"infos,omitempty"`
	// outer payload
	PVersion uint32 `json:"pversion"`
	PPrev    ev.B   `json:"pprev,omitempty"`
	PHeight  uint32 `json:"pheight"`
	PBkIdx   uint16 `json:"pbkidx"`
	PTime    uint32 `json:"ptime"`
	PPeerID  uint64 `json:"ppeerid"`
	// mutation
	Mut      string `json:"mut"`
	MutArg   uint64 `json:"mutarg"`
	OtherKey int    `json:"otherkey"`
	// history on the SAME object: after the first encoding the object is changed in place and encoded again
	Hist    string `json:"hist,omitempty"`
	HistArg uint64 `json:"histarg,omitempty"`
	// garbage mode
	Raw     ev.B `json:"raw,omitempty"`
	RawType int  `json:"rawtype,omitempty"`
}

// ---- generators

func genBytesN(lo, hi int) *rapid.Generator[[]byte] { return rapid.SliceOfN(rapid.Byte(), lo, hi) }

func genHdr(t *rapid.T) hdrSpec {
	return hdrSpec{ChainID: rapid.Uint64().Draw(t, "chain"), Prev: genBytesN(32, 32).Draw(t, "prev"), Cross: genBytesN(32, 32).Draw(t, "cross"),
		BlockRoot: genBytesN(32, 32).Draw(t, "broot"), Timestamp: rapid.Uint32().Draw(t, "ts"), Height: rapid.Uint32().Draw(t, "h"),
		ConsData: rapid.Uint64().Draw(t, "cd"), NextBk: genBytesN(20, 20).Draw(t, "nbk")}
}

func genChain(t *rapid.T) *chainSpec {
	return &chainSpec{View: rapid.Uint32().Draw(t, "view"), N: rapid.Uint32Range(0, 40).Draw(t, "n"), C: rapid.Uint32Range(0, 13).Draw(t, "c"),
		Delay: rapid.Int64Range(0, 1<<40).Draw(t, "delay"), Peers: rapid.SliceOfN(rapid.IntRange(0, 15), 0, 6).Draw(t, "peers"),
		PosTable: rapid.SliceOfN(rapid.Uint32Range(0, 20), 0, 12).Draw(t, "postable"), MaxView: rapid.Uint32().Draw(t, "maxview")}
}

func genBlk(t *rapid.T) *blkSpec {
	b := &blkSpec{Hdr: genHdr(t), Proposer: rapid.Uint32().Draw(t, "proposer"), Vrf: genBytesN(0, 64).Draw(t, "vrf"), Proof: genBytesN(0, 64).Draw(t, "proof"),
		LastCfg: rapid.Uint32().Draw(t, "lastcfg"), HasEmpty: rapid.SampledFrom([]bool{true, true, true, false}).Draw(t, "hasempty")}
	if rapid.IntRange(0, 3).Draw(t, "newcfg?") == 0 {
		b.NewCfg = genChain(t)
	}
	n := rapid.IntRange(0, 4).Draw(t, "ntx")
	base := rapid.Uint32Range(0, 1<<30).Draw(t, "noncebase")
	for i := 0; i < n; i++ {
		b.Txs = append(b.Txs, txSpec{Nonce: base + uint32(i), Code: genBytesN(0, 12).Draw(t, "code")})
	}
	b.SysTxs = rapid.IntRange(0, n).Draw(t, "systxs")
	b.ExtraBk = rapid.SliceOfN(rapid.IntRange(0, 9), 0, 3).Draw(t, "extrabk")
	return b
}

func genSigEntries(t *rapid.T, label string) []sigEntry {
	n := rapid.IntRange(0, 5).Draw(t, label+"n")
	var out []sigEntry
	seen := map[uint32]bool{}
	for i := 0; i < n; i++ {
		idx := rapid.OneOf(rapid.Uint32Range(0, 12), rapid.Uint32()).Draw(t, label+"idx")
		if seen[idx] {
			continue
		}
		seen[idx] = true
		out = append(out, sigEntry{Idx: idx, Sig: genBytesN(0, 70).Draw(t, label+"sig")})
	}
	return out
}

var c44InnerMuts = map[string][]string{
	"proposal": {"hdr.chainid", "hdr.prev", "hdr.txroot", "hdr.cross", "hdr.broot", "hdr.ts", "hdr.height", "hdr.consdata", "hdr.payload", "hdr.nextbk",
		"empty.chainid", "empty.prev", "empty.txroot", "empty.broot", "empty.ts", "empty.height", "empty.consdata", "empty.payload",
		"sig", "empty.sig", "key", "swap-sigs", "empty.resign-other", "tx.add", "tx.drop", "tx.modify", "tx.add+root", "tx.drop+root",
		"drop-empty", "bookkeepers", "extra-sig"},
	"endorse": {"f.endorser", "f.proposer", "f.blocknum", "hash", "f.empty", "f.faulty", "f.proposersig", "sig", "key"},
	"commit":  {"f.committer", "f.proposer", "f.blocknum", "hash", "f.empty", "f.faulty", "f.proposersig", "f.endorsers", "sig", "key"},
}
var c44OuterMuts = []string{"outer.version", "outer.prevhash", "outer.height", "outer.bkidx", "outer.timestamp", "outer.data.flip", "outer.data.append", "outer.data.truncate",
	"outer.sig", "outer.owner", "outer.peerid"}

func genC44(t *rapid.T) c44Case {
	c := c44Case{Mode: rapid.SampledFrom([]string{"msg", "msg", "msg", "msg", "garbage"}).Draw(t, "mode")}
	c.Kind = rapid.SampledFrom(append([]string{"proposal", "proposal", "endorse", "commit"}, c44Kinds...)).Draw(t, "kind")
	c.Signer = rapid.IntRange(0, 9).Draw(t, "signer")
	c.OtherKey = rapid.IntRange(1, 9).Draw(t, "otherkey")
	c.NilList = rapid.Bool().Draw(t, "nillist")
	switch c.Kind {
	case "proposal":
		c.Blk = genBlk(t)
	case "endorse", "commit":
		c.U = rapid.SliceOfN(rapid.OneOf(rapid.Uint32Range(0, 12), rapid.Uint32()), 3, 3).Draw(t, "u")
		c.Hash = genBytesN(32, 32).Draw(t, "hash")
		c.Empty = rapid.Bool().Draw(t, "empty")
		nf := rapid.IntRange(0, 3).Draw(t, "nfaulty")
		for i := 0; i < nf; i++ {
			c.Faulty = append(c.Faulty, faultySpec{ID: rapid.Uint32().Draw(t, "fid"), Hash: genBytesN(32, 32).Draw(t, "fhash")})
		}
		c.PSig = genBytesN(0, 70).Draw(t, "psig")
		if c.Kind == "commit" {
			c.Sigs = genSigEntries(t, "es")
		}
	case "handshake":
		c.U = rapid.SliceOfN(rapid.Uint32(), 2, 2).Draw(t, "u")
		c.Hash = genBytesN(32, 32).Draw(t, "hash")
		if rapid.Bool().Draw(t, "chain?") {
			c.Chain = genChain(t)
		}
	case "heartbeat":
		c.U = rapid.SliceOfN(rapid.Uint32(), 3, 3).Draw(t, "u")
		c.Hash = genBytesN(32, 32).Draw(t, "hash")
		c.Bytes = rapid.SliceOfN(rapid.Map(genBytesN(0, 40), func(b []byte) ev.B { return ev.B(b) }), 0, 6).Draw(t, "bytes")
	case "infofetch", "blockfetch":
		c.U = rapid.SliceOfN(rapid.Uint32(), 1, 1).Draw(t, "u")
	case "proposalfetch":
		c.U = rapid.SliceOfN(rapid.Uint32(), 2, 2).Draw(t, "u")
	case "infofetchresp":
		n := rapid.IntRange(0, 4).Draw(t, "ninfo")
		for i := 0; i < n; i++ {
			c.Infos = append(c.Infos, infoSpec{Num: rapid.Uint32().Draw(t, "inum"), Proposer: rapid.Uint32().Draw(t, "iprop"), Sigs: genSigEntries(t, "is")})
		}
	case "blockfetchresp":
		c.U = rapid.SliceOfN(rapid.Uint32(), 1, 1).Draw(t, "u")
		c.Hash = genBytesN(32, 32).Draw(t, "hash")
		c.Blk = genBlk(t)
	}
	c.PVersion = rapid.Uint32().Draw(t, "pversion")
	c.PPrev = genBytesN(32, 32).Draw(t, "pprev")
	c.PHeight = rapid.Uint32().Draw(t, "pheight")
	c.PBkIdx = rapid.Uint16().Draw(t, "pbkidx")
	c.PTime = rapid.Uint32().Draw(t, "ptime")
	c.PPeerID = rapid.Uint64().Draw(t, "ppeerid")
	if c.Mode == "garbage" {
		c.Raw = genBytesN(0, 80).Draw(t, "raw")
		c.RawType = rapid.IntRange(0, 11).Draw(t, "rawtype")
		c.Mut = rapid.SampledFrom([]string{"g.flip", "g.truncate", "g.splice", "g.random", "g.payload-random"}).Draw(t, "gmut")
		c.MutArg = rapid.Uint64().Draw(t, "mutarg")
		return c
	}
	muts := c44OuterMuts
	if inner := c44InnerMuts[c.Kind]; len(inner) > 0 && rapid.IntRange(0, 3).Draw(t, "inner?") > 0 {
		muts = inner
	} else if len(inner) == 0 && rapid.Bool().Draw(t, "generic-inner?") {
		muts = []string{"f.generic"}
	}
	c.Mut = rapid.SampledFrom(muts).Draw(t, "mut")
	c.MutArg = rapid.Uint64().Draw(t, "mutarg")
	if rapid.Bool().Draw(t, "hist?") {
		if c.Kind == "proposal" || c.Kind == "blockfetchresp" {
			c.Hist = rapid.SampledFrom(c44BlockHists).Draw(t, "hist")
		} else {
			c.Hist = "field"
		}
		c.HistArg = rapid.Uint64().Draw(t, "histarg")
	}
	return c
}

// in-place changes of a message that holds a vbft.Block, between two encodings of the same object
var c44BlockHists = []string{"seal", "seal", "tx+root", "height", "consdata", "empty.height", "empty.seal", "drop-empty", "resign-other", "info"}

// histMutate changes m IN PLACE (what a node does to a proposal it already broadcast: sealing
// rewrites Header.Bookkeepers/SigData, a fetch response is served from the same object later).
// It returns whether, for a proposal, the signer's signature must still verify afterwards
// (+1), must fail (-1) or is not judged (0).
func histMutate(c c44Case, m vbft.ConsensusMsg, other int) int {
	var blk *vbft.Block
	switch x := m.(type) {
	case *vbft.VerifBlockProposalMsg:
		blk = x.Block
	case *vbft.BlockFetchRespMsg:
		blk = x.BlockData
	case *vbft.VerifBlockEndorseMsg:
		x.BlockNum ^= nz32(c.HistArg)
		x.EndorseForEmpty = !x.EndorseForEmpty
		return 0
	case *vbft.VerifBlockCommitMsg:
		x.BlockNum ^= nz32(c.HistArg)
		if x.EndorsersSig == nil {
			x.EndorsersSig = map[uint32][]byte{}
		}
		x.EndorsersSig[uint32(c.HistArg%9)] = []byte{byte(c.HistArg), 1}
		return 0
	default:
		mutateGeneric(m, c.HistArg)
		return 0
	}
	seal := func(b *types.Block) {
		// like addSignaturesToBlockLocked: fresh slices assigned to the header
		h := refHeaderHash(b.Header)
		bk := []keypair.PublicKey{b.Header.Bookkeepers[0]}
		sd := [][]byte{b.Header.SigData[0]}
		for i := 0; i < 1+int(c.HistArg%3); i++ {
			p := (other + i) % 10
			bk = append(bk, pubOf(p))
			sd = append(sd, signHash(p, h))
		}
		b.Header.Bookkeepers, b.Header.SigData = bk, sd
	}
	hist := c.Hist
	if strings.HasPrefix(hist, "empty.") && blk.EmptyBlock == nil {
		hist = strings.TrimPrefix(hist, "empty.")
	}
	switch hist {
	case "seal":
		seal(blk.Block)
		return +1
	case "empty.seal":
		seal(blk.EmptyBlock)
		return +1
	case "tx+root":
		blk.Block.Transactions = append(blk.Block.Transactions, mkTx(uint32(c.HistArg), []byte{0xEE, 0x01}))
		blk.Block.Header.TransactionsRoot = txRoot(blk.Block.Transactions)
		return -1
	case "height":
		blk.Block.Header.Height ^= nz32(c.HistArg)
		return -1
	case "consdata":
		blk.Block.Header.ConsensusData ^= c.HistArg | 1
		return -1
	case "empty.height":
		blk.EmptyBlock.Header.Height ^= nz32(c.HistArg)
		return -1
	case "drop-empty":
		blk.EmptyBlock = nil
		return 0
	case "resign-other":
		blk.Block.Header.SigData = [][]byte{signHash(other, refHeaderHash(blk.Block.Header))}
		blk.Block.Header.Bookkeepers = []keypair.PublicKey{pubOf(other)}
		return -1
	case "info":
		// the decoder derives Info from the header's consensus payload: change both consistently
		blk.Info.Proposer ^= nz32(c.HistArg)
		pl, _ := json.Marshal(blk.Info)
		blk.Block.Header.ConsensusPayload = pl
		return -1
	}
	return 0
}

// ---- building the objects from the case

func buildChain(s *chainSpec) *vconfig.ChainConfig {
	if s == nil {
		return nil
	}
	cc := &vconfig.ChainConfig{Version: 1, View: s.View, N: s.N, C: s.C, BlockMsgDelay: time.Duration(s.Delay), HashMsgDelay: time.Duration(s.Delay / 2),
		PeerHandshakeTimeout: time.Duration(s.Delay / 3), MaxBlockChangeView: s.MaxView}
	for _, p := range s.Peers {
		cc.Peers = append(cc.Peers, &vconfig.PeerConfig{Index: pidx(p), ID: world.PubHex(acct(p))})
	}
	cc.PosTable = append(cc.PosTable, s.PosTable...)
	return cc
}

func buildBlock(s *blkSpec, signer int) *vbft.Block {
	info := &vconfig.VbftBlockInfo{Proposer: s.Proposer, VrfValue: append([]byte{}, s.Vrf...), VrfProof: append([]byte{}, s.Proof...),
		LastConfigBlockNum: s.LastCfg, NewChainConfig: buildChain(s.NewCfg)}
	var txs []*types.Transaction
	for _, t := range s.Txs {
		txs = append(txs, mkTx(t.Nonce, t.Code))
	}
	full := mkTypesBlock(s.Hdr, info, txs, signer)
	for _, e := range s.ExtraBk {
		full.Header.Bookkeepers = append(full.Header.Bookkeepers, pubOf(e))
		full.Header.SigData = append(full.Header.SigData, signHash(e, refHeaderHash(full.Header)))
	}
	b := &vbft.Block{Block: full, Info: info}
	if s.HasEmpty {
		k := s.SysTxs
		if k > len(txs) {
			k = len(txs)
		}
		b.EmptyBlock = mkTypesBlock(s.Hdr, info, txs[:k:k], signer)
	}
	return b
}

func sigMap(es []sigEntry, nilList bool) map[uint32][]byte {
	if len(es) == 0 && nilList {
		return nil
	}
	m := map[uint32][]byte{}
	for _, e := range es {
		m[e.Idx] = append([]byte{}, e.Sig...)
	}
	return m
}

func faultyList(fs []faultySpec, nilList bool) []*vbft.FaultyReport {
	if len(fs) == 0 && nilList {
		return nil
	}
	out := []*vbft.FaultyReport{}
	for _, f := range fs {
		out = append(out, &vbft.FaultyReport{FaultyID: f.ID, FaultyMsgHash: h256(f.Hash)})
	}
	return out
}

func u(c c44Case, i int) uint32 {
	if i < len(c.U) {
		return c.U[i]
	}
	return 0
}

func buildMsg(c c44Case) vbft.ConsensusMsg {
	switch c.Kind {
	case "proposal":
		return &vbft.VerifBlockProposalMsg{Block: buildBlock(c.Blk, c.Signer)}
	case "endorse":
		h := h256(c.Hash)
		return &vbft.VerifBlockEndorseMsg{Endorser: u(c, 0), EndorsedProposer: u(c, 1), BlockNum: u(c, 2), EndorsedBlockHash: h, EndorseForEmpty: c.Empty,
			FaultyProposals: faultyList(c.Faulty, c.NilList), ProposerSig: append([]byte{}, c.PSig...), EndorserSig: signHash(c.Signer, h)}
	case "commit":
		h := h256(c.Hash)
		return &vbft.VerifBlockCommitMsg{Committer: u(c, 0), BlockProposer: u(c, 1), BlockNum: u(c, 2), CommitBlockHash: h, CommitForEmpty: c.Empty,
			FaultyVerifies: faultyList(c.Faulty, c.NilList), ProposerSig: append([]byte{}, c.PSig...), EndorsersSig: sigMap(c.Sigs, c.NilList), CommitterSig: signHash(c.Signer, h)}
	case "handshake":
		return &vbft.VerifPeerHandshakeMsg{CommittedBlockNumber: u(c, 0), CommittedBlockHash: h256(c.Hash), CommittedBlockLeader: u(c, 1), ChainConfig: buildChain(c.Chain)}
	case "heartbeat":
		m := &vbft.VerifPeerHeartbeatMsg{CommittedBlockNumber: u(c, 0), CommittedBlockHash: h256(c.Hash), CommittedBlockLeader: u(c, 1), ChainConfigView: u(c, 2)}
		if !(len(c.Bytes) == 0 && c.NilList) {
			m.Endorsers, m.EndorsersSig = [][]byte{}, [][]byte{}
		}
		for i, b := range c.Bytes {
			if i%2 == 0 {
				m.Endorsers = append(m.Endorsers, append([]byte{}, b...))
			} else {
				m.EndorsersSig = append(m.EndorsersSig, append([]byte{}, b...))
			}
		}
		return m
	case "infofetch":
		return &vbft.BlockInfoFetchMsg{StartBlockNum: u(c, 0)}
	case "blockfetch":
		return &vbft.VerifBlockFetchMsg{BlockNum: u(c, 0)}
	case "proposalfetch":
		return &vbft.VerifProposalFetchMsg{ProposerID: u(c, 0), BlockNum: u(c, 1)}
	case "infofetchresp":
		m := &vbft.BlockInfoFetchRespMsg{}
		if !(len(c.Infos) == 0 && c.NilList) {
			m.Blocks = []*vbft.BlockInfo_{}
		}
		for _, in := range c.Infos {
			m.Blocks = append(m.Blocks, &vbft.BlockInfo_{BlockNum: in.Num, Proposer: in.Proposer, Signatures: sigMap(in.Sigs, c.NilList)})
		}
		return m
	case "blockfetchresp":
		return &vbft.BlockFetchRespMsg{BlockNumber: u(c, 0), BlockHash: h256(c.Hash), BlockData: buildBlock(c.Blk, c.Signer)}
	}
	panic("harness: kind " + c.Kind)
}

// ---- the harness's canonical rendering of a message (nil and empty containers are equal)

func hx(b []byte) string { return hex.EncodeToString(b) }

func canonSigMap(m map[uint32][]byte) string {
	ks := make([]int, 0, len(m))
	for k := range m {
		ks = append(ks, int(k))
	}
	sort.Ints(ks)
	var sb strings.Builder
	for _, k := range ks {
		fmt.Fprintf(&sb, "%d=%s,", k, hx(m[uint32(k)]))
	}
	return "{" + sb.String() + "}"
}

func canonChain(c *vconfig.ChainConfig) string {
	if c == nil {
		return "nil"
	}
	var sb strings.Builder
	fmt.Fprintf(&sb, "v%d view%d n%d c%d d%d/%d/%d max%d peers[", c.Version, c.View, c.N, c.C, c.BlockMsgDelay, c.HashMsgDelay, c.PeerHandshakeTimeout, c.MaxBlockChangeView)
	for _, p := range c.Peers {
		if p == nil {
			sb.WriteString("nil,")
			continue
		}
		fmt.Fprintf(&sb, "%d:%s,", p.Index, p.ID)
	}
	fmt.Fprintf(&sb, "] pos%v", append([]uint32{}, c.PosTable...))
	return sb.String()
}

func canonInfo(i *vconfig.VbftBlockInfo) string {
	if i == nil {
		return "nil"
	}
	return fmt.Sprintf("leader%d vrf%s proof%s last%d cfg(%s)", i.Proposer, hx(i.VrfValue), hx(i.VrfProof), i.LastConfigBlockNum, canonChain(i.NewChainConfig))
}

func canonTypesBlock(b *types.Block) string {
	if b == nil {
		return "nil"
	}
	h := b.Header
	var sb strings.Builder
	fmt.Fprintf(&sb, "v%d chain%d prev%x txroot%x cross%x broot%x ts%d h%d cd%d payload%x nbk%x bk[", h.Version, h.ChainID, h.PrevBlockHash[:], h.TransactionsRoot[:],
		h.CrossStateRoot[:], h.BlockRoot[:], h.Timestamp, h.Height, h.ConsensusData, h.ConsensusPayload, h.NextBookkeeper[:])
	for _, k := range h.Bookkeepers {
		sb.WriteString(hx(keypair.SerializePublicKey(k)) + ",")
	}
	sb.WriteString("] sig[")
	for _, s := range h.SigData {
		sb.WriteString(hx(s) + ",")
	}
	sb.WriteString("] tx[")
	for _, t := range b.Transactions {
		pl := ""
		if ic, ok := t.Payload.(interface{ Serialization(*common.ZeroCopySink) }); ok {
			sk := common.NewZeroCopySink(nil)
			ic.Serialization(sk)
			pl = hx(sk.Bytes())
		}
		fmt.Fprintf(&sb, "(v%d t%d n%d c%d gl%d gp%d pl%s payer%x sigs%d),", t.Version, t.TxType, t.Nonce, t.ChainID, t.GasLimit, t.GasPrice, pl, t.Payer[:], len(t.Sigs))
	}
	sb.WriteString("]")
	return sb.String()
}

func canonVbftBlock(b *vbft.Block) string {
	if b == nil {
		return "nil"
	}
	return "block{" + canonTypesBlock(b.Block) + "} empty{" + canonTypesBlock(b.EmptyBlock) + "} info{" + canonInfo(b.Info) + "}"
}

func canonFaulty(fs []*vbft.FaultyReport) string {
	var sb strings.Builder
	for _, f := range fs {
		if f == nil {
			sb.WriteString("nil,")
			continue
		}
		fmt.Fprintf(&sb, "%d:%x,", f.FaultyID, f.FaultyMsgHash[:])
	}
	return "[" + sb.String() + "]"
}

func canonBytesList(l [][]byte) string {
	var sb strings.Builder
	for _, b := range l {
		sb.WriteString(hx(b) + ",")
	}
	return "[" + sb.String() + "]"
}

func canonMsg(m vbft.ConsensusMsg) string {
	switch x := m.(type) {
	case *vbft.VerifBlockProposalMsg:
		return "proposal " + canonVbftBlock(x.Block)
	case *vbft.VerifBlockEndorseMsg:
		return fmt.Sprintf("endorse e%d p%d n%d h%x empty%v f%s ps%x es%x", x.Endorser, x.EndorsedProposer, x.BlockNum, x.EndorsedBlockHash[:], x.EndorseForEmpty,
			canonFaulty(x.FaultyProposals), x.ProposerSig, x.EndorserSig)
	case *vbft.VerifBlockCommitMsg:
		return fmt.Sprintf("commit c%d p%d n%d h%x empty%v f%s ps%x es%s cs%x", x.Committer, x.BlockProposer, x.BlockNum, x.CommitBlockHash[:], x.CommitForEmpty,
			canonFaulty(x.FaultyVerifies), x.ProposerSig, canonSigMap(x.EndorsersSig), x.CommitterSig)
	case *vbft.VerifPeerHandshakeMsg:
		return fmt.Sprintf("handshake n%d h%x l%d cfg(%s)", x.CommittedBlockNumber, x.CommittedBlockHash[:], x.CommittedBlockLeader, canonChain(x.ChainConfig))
	case *vbft.VerifPeerHeartbeatMsg:
		return fmt.Sprintf("heartbeat n%d h%x l%d e%s s%s v%d", x.CommittedBlockNumber, x.CommittedBlockHash[:], x.CommittedBlockLeader, canonBytesList(x.Endorsers),
			canonBytesList(x.EndorsersSig), x.ChainConfigView)
	case *vbft.BlockInfoFetchMsg:
		return fmt.Sprintf("infofetch %d", x.StartBlockNum)
	case *vbft.BlockInfoFetchRespMsg:
		var sb strings.Builder
		for _, b := range x.Blocks {
			if b == nil {
				sb.WriteString("nil;")
				continue
			}
			fmt.Fprintf(&sb, "%d/%d/%s;", b.BlockNum, b.Proposer, canonSigMap(b.Signatures))
		}
		return "infofetchresp " + sb.String()
	case *vbft.VerifBlockFetchMsg:
		return fmt.Sprintf("blockfetch %d", x.BlockNum)
	case *vbft.BlockFetchRespMsg:
		return fmt.Sprintf("blockfetchresp %d %x %s", x.BlockNumber, x.BlockHash[:], canonVbftBlock(x.BlockData))
	case *vbft.VerifProposalFetchMsg:
		return fmt.Sprintf("proposalfetch %d %d", x.ProposerID, x.BlockNum)
	}
	return fmt.Sprintf("unknown %T", m)
}

func canonPayload(p *ptypes.ConsensusPayload) string {
	return fmt.Sprintf("v%d prev%x h%d bk%d ts%d data%x owner%x sig%x", p.Version, p.PrevHash[:], p.Height, p.BookkeeperIndex, p.Timestamp, p.Data,
		keypair.SerializePublicKey(p.Owner), p.Signature)
}

// ---- wire helpers (every call into the code under test is panic-guarded)

func ser(ctx *ev.Ctx, what string, m vbft.ConsensusMsg) []byte {
	var b []byte
	var err error
	if p := ev.Catch(func() { b, err = vbft.SerializeVbftMsg(m) }); p != "" {
		ctx.Failf("SerializeVbftMsg(%s) panicked: %s", what, p)
	}
	if err != nil {
		ctx.Failf("SerializeVbftMsg(%s): %v", what, err)
	}
	return b
}

func deser(ctx *ev.Ctx, what string, b []byte) (vbft.ConsensusMsg, error) {
	var m vbft.ConsensusMsg
	var err error
	if p := ev.Catch(func() { m, err = vbft.DeserializeVbftMsg(b) }); p != "" {
		ctx.Failf("DeserializeVbftMsg(%s) panicked: %s\ninput %x", what, p, clipB(b))
	}
	return m, err
}

func clipB(b []byte) []byte {
	if len(b) > 200 {
		return b[:200]
	}
	return b
}

func payloadWire(p *ptypes.ConsensusPayload) []byte {
	sink := common.NewZeroCopySink(nil)
	p.Serialization(sink)
	return sink.Bytes()
}

func payloadFromWire(ctx *ev.Ctx, b []byte) (*ptypes.ConsensusPayload, error) {
	p := &ptypes.ConsensusPayload{}
	var err error
	if pn := ev.Catch(func() { err = p.Deserialization(common.NewZeroCopySource(b)) }); pn != "" {
		ctx.Failf("ConsensusPayload.Deserialization panicked: %s\ninput %x", pn, clipB(b))
	}
	return p, err
}

func verifyMsg(ctx *ev.Ctx, m vbft.ConsensusMsg, pk keypair.PublicKey) error {
	var err error
	if p := ev.Catch(func() { err = m.Verify(pk) }); p != "" {
		ctx.Failf("%T.Verify panicked: %s", m, p)
	}
	return err
}

func verifyPayload(ctx *ev.Ctx, p *ptypes.ConsensusPayload) error {
	var err error
	if pn := ev.Catch(func() { err = p.Verify() }); pn != "" {
		ctx.Failf("ConsensusPayload.Verify panicked: %s", pn)
	}
	return err
}

func flipBit(b []byte, arg uint64) []byte {
	out := append([]byte{}, b...)
	if len(out) == 0 {
		return []byte{byte(arg) | 1}
	}
	i := int(arg % uint64(len(out)*8))
	out[i/8] ^= 1 << uint(i%8)
	return out
}

func flipHash(h common.Uint256, arg uint64) common.Uint256 {
	b := flipBit(h[:], arg)
	return h256(b)
}

func nz32(arg uint64) uint32 { return uint32(arg%0xFFFFFFFF) + 1 } // never 0: x ^ nz32 != x

// ---- the check

func runC44(ctx *ev.Ctx, c c44Case) {
	world.ResetGlobals(0)
	ctx.Label("mode:" + c.Mode)
	if c.Mode == "wire" {
		runC44Wire(ctx, c) // byte-level decode side, driven by FuzzC44 (c44_fuzz_test.go)
		return
	}
	ctx.Label("kind:" + c.Kind)
	wt, okKind := c44WireType[c.Kind]
	if !okKind || (c.Blk == nil && (c.Kind == "proposal" || c.Kind == "blockfetchresp")) {
		ctx.Label("skip:malformed-case")
		return
	}
	m := buildMsg(c)
	signerPk := pubOf(c.Signer)

	// ---- 1. round trip
	b1 := ser(ctx, c.Kind, m)
	var env struct {
		Type    int    `json:"type"`
		Len     uint32 `json:"len"`
		Payload []byte `json:"payload"`
	}
	if err := json.Unmarshal(b1, &env); err != nil {
		ctx.Failf("envelope of %s is not JSON: %v", c.Kind, err)
	}
	if env.Type != wt {
		ctx.Failf("envelope of %s carries wire type %d, protocol number is %d", c.Kind, env.Type, wt)
	}
	if int(env.Len) != len(env.Payload) {
		ctx.Failf("envelope of %s declares len %d but carries %d payload bytes", c.Kind, env.Len, len(env.Payload))
	}
	m2, err := deser(ctx, c.Kind, b1)
	if err != nil {
		ctx.Failf("a serialised %s does not decode: %v", c.Kind, err)
	}
	if int(m2.Type()) != wt {
		ctx.Failf("%s decoded as message type %d", c.Kind, m2.Type())
	}
	if a, b := canonMsg(m), canonMsg(m2); a != b {
		ctx.Failf("%s changed over the wire:\n sent %s\n got  %s", c.Kind, clipS(a), clipS(b))
	}
	if m.GetBlockNum() != m2.GetBlockNum() {
		ctx.Failf("%s: GetBlockNum %d became %d", c.Kind, m.GetBlockNum(), m2.GetBlockNum())
	}
	b2 := ser(ctx, c.Kind+" (decoded)", m2)
	if !bytes.Equal(b1, b2) {
		ctx.Failf("%s does not re-serialise identically:\n first  %s\n second %s", c.Kind, clipS(string(b1)), clipS(string(b2)))
	}

	// ---- 1b. history on the same object: change it in place, encode AGAIN, decode: must be the current object
	if c.Hist != "" && c.Mode == "msg" {
		ctx.Label("hist:" + c.Hist)
		if c.Kind == "proposal" {
			verifyMsg(ctx, m, signerPk) // a node verifies (and thereby hashes) a proposal before it keeps it
		}
		o := (c.Signer + c.OtherKey) % 10
		if o == c.Signer {
			o = (c.Signer + 1) % 10
		}
		before := canonMsg(m)
		expect := histMutate(c, m, o)
		after := canonMsg(m)
		b4 := ser(ctx, c.Kind+" (same object, changed in place)", m)
		m4, err := deser(ctx, c.Kind+" (same object, changed in place)", b4)
		if err != nil {
			ctx.Failf("%s changed in place (%s) and encoded again does not decode: %v", c.Kind, c.Hist, err)
		}
		if got := canonMsg(m4); got != after {
			stale := ""
			if got == before {
				stale = " (it is the object as it was at the FIRST encoding)"
			}
			ctx.Failf("%s encoded, changed in place (%s) and encoded again: the decoded message is not the current object%s:\n current %s\n decoded %s", c.Kind, c.Hist, stale, clipS(after), clipS(got))
		}
		if c.Kind == "proposal" && after != before {
			verr := verifyMsg(ctx, m4, signerPk)
			if want, _ := refVerify(m4, signerPk); (verr == nil) != want {
				ctx.Failf("proposal changed in place (%s): Verify says %v, the reference digest says covered=%v", c.Hist, verr, want)
			}
			if expect > 0 && verr != nil {
				ctx.Failf("proposal sealed in place (%s) no longer verifies under its proposer's key after the wire: %v", c.Hist, verr)
			}
			if expect < 0 && verr == nil {
				ctx.Failf("proposal changed in place after signing (%s) and sent again still verifies under the proposer's key", c.Hist)
			}
		}
		if after != before {
			ctx.NonTrivial()
		}
	}

	// outer payload, signed by the sender
	pay := &ptypes.ConsensusPayload{Version: c.PVersion, PrevHash: h256(c.PPrev), Height: c.PHeight, BookkeeperIndex: c.PBkIdx, Timestamp: c.PTime,
		Data: b1, Owner: signerPk, PeerId: c.PPeerID}
	{
		// signed over the harness's OWN rendering of the unsigned content (refPayloadUnsigned)
		pay.Signature = signBytes(c.Signer, refPayloadUnsigned(pay))
	}
	w1 := payloadWire(pay)
	pay2, err := payloadFromWire(ctx, w1)
	if err != nil {
		ctx.Failf("a serialised ConsensusPayload does not decode: %v", err)
	}
	if a, b := canonPayload(pay), canonPayload(pay2); a != b {
		ctx.Failf("ConsensusPayload changed over the wire:\n sent %s\n got  %s", clipS(a), clipS(b))
	}
	if !bytes.Equal(w1, payloadWire(pay2)) {
		ctx.Failf("ConsensusPayload does not re-serialise identically")
	}
	{ // the streaming codec writes and reads the same bytes
		buf := new(bytes.Buffer)
		if err := pay.Serialize(buf); err != nil {
			ctx.Failf("ConsensusPayload.Serialize: %v", err)
		}
		if !bytes.Equal(buf.Bytes(), w1) {
			ctx.Failf("ConsensusPayload: streaming and zero-copy encoders differ")
		}
		p3 := &ptypes.ConsensusPayload{}
		if err := p3.Deserialize(bytes.NewReader(w1)); err != nil {
			ctx.Failf("ConsensusPayload.Deserialize (stream) of own encoding: %v", err)
		}
		if a, b := canonPayload(pay), canonPayload(p3); a != b {
			ctx.Failf("ConsensusPayload changed through the streaming decoder")
		}
	}

	if c.Mode == "garbage" {
		runC44Garbage(ctx, c, env.Payload, b1, w1)
		return
	}

	// ---- 2. positive half of binding
	if err := verifyPayload(ctx, pay2); err != nil {
		ctx.Failf("the untouched payload does not verify after the wire: %v", err)
	}
	hasInnerVerify := c.Kind == "proposal" || c.Kind == "endorse" || c.Kind == "commit"
	if hasInnerVerify {
		if err := verifyMsg(ctx, m2, signerPk); err != nil {
			ctx.Failf("the untouched %s, signed over the reference digest, does not verify under its signer's key: %v", c.Kind, err)
		}
		if want, _ := refVerify(m2, signerPk); !want {
			ctx.Failf("harness: the untouched %s is not valid by the reference", c.Kind)
		}
	}

	// ---- 3. one mutation
	ctx.Label("mut:" + c.Mut)
	other := (c.Signer + c.OtherKey) % 10
	if other == c.Signer {
		other = (c.Signer + 1) % 10
	}
	if strings.HasPrefix(c.Mut, "outer.") {
		p := pay2 // decoded object
		judged := true
		switch c.Mut {
		case "outer.version":
			p.Version ^= nz32(c.MutArg)
		case "outer.prevhash":
			p.PrevHash = flipHash(p.PrevHash, c.MutArg)
		case "outer.height":
			p.Height ^= nz32(c.MutArg)
		case "outer.bkidx":
			p.BookkeeperIndex ^= uint16(c.MutArg%0xFFFF) + 1
		case "outer.timestamp":
			p.Timestamp ^= nz32(c.MutArg)
		case "outer.data.flip":
			p.Data = flipBit(p.Data, c.MutArg)
		case "outer.data.append":
			p.Data = append(append([]byte{}, p.Data...), byte(c.MutArg))
		case "outer.data.truncate":
			if len(p.Data) == 0 {
				ctx.Label("mut:noop")
				return
			}
			p.Data = p.Data[:int(c.MutArg%uint64(len(p.Data)))]
		case "outer.sig":
			p.Signature = flipBit(p.Signature, c.MutArg)
		case "outer.owner":
			p.Owner = pubOf(other)
		case "outer.peerid":
			p.PeerId ^= c.MutArg | 1
			judged = false // transport-local field, not part of the signed or serialised content
		}
		p3, err := payloadFromWire(ctx, payloadWire(p))
		if err != nil {
			ctx.Label("rejected:decode")
			ctx.NonTrivial()
			return
		}
		verr := verifyPayload(ctx, p3)
		// expected verdict from the reference: does the owner's signature cover the CURRENT content?
		want := sigOK(p3.Owner, refPayloadUnsigned(p3), p3.Signature)
		if (verr == nil) != want {
			ctx.Failf("ConsensusPayload.Verify says %v after mutation %s (arg %d), but by the reference digest the owner's signature covers the content: %v", verr, c.Mut, c.MutArg, want)
		}
		if !judged {
			ctx.Label("unjudged:" + c.Mut)
			if verr != nil {
				ctx.Failf("changing the transport-local PeerId made the payload signature fail: %v", verr)
			}
			return
		}
		if verr == nil {
			ctx.Failf("ConsensusPayload still verifies after mutation %s (arg %d)", c.Mut, c.MutArg)
		}
		ctx.Label("rejected:verify")
		ctx.NonTrivial()
		return
	}

	// inner mutation on the decoded message m2
	verifyKey := signerPk
	innerJudged := false // does the inner Verify have to fail?
	switch x := m2.(type) {
	case *vbft.VerifBlockProposalMsg:
		innerJudged = mutateProposal(ctx, c, x, other, &verifyKey)
	case *vbft.VerifBlockEndorseMsg:
		switch c.Mut {
		case "f.endorser":
			x.Endorser ^= nz32(c.MutArg)
		case "f.proposer":
			x.EndorsedProposer ^= nz32(c.MutArg)
		case "f.blocknum":
			x.BlockNum ^= nz32(c.MutArg)
		case "hash":
			x.EndorsedBlockHash = flipHash(x.EndorsedBlockHash, c.MutArg)
			innerJudged = true
		case "f.empty":
			x.EndorseForEmpty = !x.EndorseForEmpty
		case "f.faulty":
			x.FaultyProposals = append(x.FaultyProposals, &vbft.FaultyReport{FaultyID: uint32(c.MutArg)})
		case "f.proposersig":
			x.ProposerSig = flipBit(x.ProposerSig, c.MutArg)
		case "sig":
			x.EndorserSig = flipBit(x.EndorserSig, c.MutArg)
			innerJudged = true
		case "key":
			verifyKey = pubOf(other)
			innerJudged = true
		}
	case *vbft.VerifBlockCommitMsg:
		switch c.Mut {
		case "f.committer":
			x.Committer ^= nz32(c.MutArg)
		case "f.proposer":
			x.BlockProposer ^= nz32(c.MutArg)
		case "f.blocknum":
			x.BlockNum ^= nz32(c.MutArg)
		case "hash":
			x.CommitBlockHash = flipHash(x.CommitBlockHash, c.MutArg)
			innerJudged = true
		case "f.empty":
			x.CommitForEmpty = !x.CommitForEmpty
		case "f.faulty":
			x.FaultyVerifies = append(x.FaultyVerifies, &vbft.FaultyReport{FaultyID: uint32(c.MutArg)})
		case "f.proposersig":
			x.ProposerSig = flipBit(x.ProposerSig, c.MutArg)
		case "f.endorsers":
			if x.EndorsersSig == nil {
				x.EndorsersSig = map[uint32][]byte{}
			}
			k := uint32(c.MutArg % 14)
			x.EndorsersSig[k] = flipBit(x.EndorsersSig[k], c.MutArg)
		case "sig":
			x.CommitterSig = flipBit(x.CommitterSig, c.MutArg)
			innerJudged = true
		case "key":
			verifyKey = pubOf(other)
			innerJudged = true
		}
	default:
		mutateGeneric(m2, c.MutArg)
	}

	// over the wire again
	var b3 []byte
	var serr error
	if p := ev.Catch(func() { b3, serr = vbft.SerializeVbftMsg(m2) }); p != "" {
		ctx.Failf("SerializeVbftMsg of a mutated %s (%s) panicked: %s", c.Kind, c.Mut, p)
	}
	if serr != nil {
		ctx.Label("rejected:unserialisable")
		return
	}
	m3, derr := deser(ctx, c.Kind+" mutated "+c.Mut, b3)
	if c.Mut != "key" && bytes.Equal(b3, b1) {
		if derr == nil && canonMsg(m2) != canonMsg(m3) {
			ctx.Failf("%s was changed in place (%s) but its encoding did not change: the bytes still describe the object as it was before", c.Kind, c.Mut)
		}
		ctx.Label("mut:noop")
		return
	}
	// (a) the outer signature of the sender covers the whole inner message
	if c.Mut != "key" {
		pay2.Data = b3
		p3, err := payloadFromWire(ctx, payloadWire(pay2))
		if err == nil {
			verr := verifyPayload(ctx, p3)
			if want := sigOK(p3.Owner, refPayloadUnsigned(p3), p3.Signature); (verr == nil) != want {
				ctx.Failf("ConsensusPayload.Verify says %v after the inner %s was changed (%s), the reference digest says covered=%v", verr, c.Kind, c.Mut, want)
			}
			if verr == nil {
				ctx.Failf("the sender's payload signature still verifies after the inner %s was changed (%s)", c.Kind, c.Mut)
			}
		}
	}
	// (b) the message's own signature
	if derr != nil {
		ctx.Label("rejected:decode")
		ctx.NonTrivial()
		return
	}
	if !hasInnerVerify {
		ctx.Label("bound-by-outer-signature-only")
		ctx.NonTrivial()
		return
	}
	if pm, ok := m3.(*vbft.VerifBlockProposalMsg); ok && strings.HasPrefix(c.Mut, "empty.") && c.Blk.HasEmpty && pm.Block.EmptyBlock == nil {
		// Block.Deserialize swallows a decode error of the optional empty block: the proposal arrives
		// without it, i.e. the same class as "drop-empty" (counted, not judged)
		ctx.Label("unjudged-inner:empty-block-silently-dropped")
		ctx.NonTrivial()
		return
	}
	verr := verifyMsg(ctx, m3, verifyKey)
	// expected verdict from the reference (own header digest, ontology-crypto directly), both
	// directions and for every mutation, judged or not
	if want, has := refVerify(m3, verifyKey); has && (verr == nil) != want {
		ctx.Failf("%s.Verify says %v after mutation %s (arg %d), but by the reference digest the key's signature(s) cover the content: %v", c.Kind, verr, c.Mut, c.MutArg, want)
	}
	if !innerJudged {
		// content the message's own signature does not cover (only the sender's payload signature
		// does); the property text claims binding for the payload and the proposal signature only
		ctx.Label("unjudged-inner:" + c.Mut)
		if verr == nil {
			ctx.Label("inner-signature-does-not-cover:" + c.Kind + ":" + c.Mut)
		}
		ctx.NonTrivial()
		return
	}
	if verr == nil {
		ctx.Failf("%s still verifies after mutation %s (arg %d, key of participant %d)", c.Kind, c.Mut, c.MutArg, c.Signer)
	}
	ctx.Label("rejected:verify")
	ctx.NonTrivial()
}

func clipS(s string) string {
	if len(s) > 900 {
		return s[:900] + "..."
	}
	return s
}

// mutateProposal applies c.Mut to the decoded proposal; returns whether Verify must now fail.
func mutateProposal(ctx *ev.Ctx, c c44Case, x *vbft.VerifBlockProposalMsg, other int, verifyKey *keypair.PublicKey) bool {
	blk := x.Block.Block
	target := blk
	name := c.Mut
	if strings.HasPrefix(name, "empty.") {
		if x.Block.EmptyBlock == nil {
			// no empty block in this proposal: fall back to the same mutation on the full block
			name = "hdr." + strings.TrimPrefix(name, "empty.")
			if name == "hdr.sig" {
				name = "sig"
			}
			if name == "hdr.resign-other" {
				name = "key"
			}
		} else {
			target = x.Block.EmptyBlock
			name = "hdr." + strings.TrimPrefix(name, "empty.")
		}
	}
	h := target.Header
	switch name {
	case "hdr.chainid":
		h.ChainID ^= c.MutArg | 1
	case "hdr.prev":
		h.PrevBlockHash = flipHash(h.PrevBlockHash, c.MutArg)
	case "hdr.txroot":
		h.TransactionsRoot = flipHash(h.TransactionsRoot, c.MutArg)
	case "hdr.cross":
		h.CrossStateRoot = flipHash(h.CrossStateRoot, c.MutArg)
	case "hdr.broot":
		h.BlockRoot = flipHash(h.BlockRoot, c.MutArg)
	case "hdr.ts":
		h.Timestamp ^= nz32(c.MutArg)
	case "hdr.height":
		h.Height ^= nz32(c.MutArg)
	case "hdr.consdata":
		h.ConsensusData ^= c.MutArg | 1
	case "hdr.payload":
		h.ConsensusPayload = flipBit(h.ConsensusPayload, c.MutArg)
	case "hdr.nextbk":
		copy(h.NextBookkeeper[:], flipBit(h.NextBookkeeper[:], c.MutArg))
	case "sig", "hdr.sig":
		h.SigData[0] = flipBit(h.SigData[0], c.MutArg)
	case "key":
		*verifyKey = pubOf(other)
	case "swap-sigs":
		if x.Block.EmptyBlock == nil {
			*verifyKey = pubOf(other)
			break
		}
		e := x.Block.EmptyBlock.Header
		if bytes.Equal(e.SigData[0], blk.Header.SigData[0]) || refHeaderHash(x.Block.EmptyBlock.Header) == refHeaderHash(blk.Header) {
			// the two blocks are identical (no user transactions): swapping changes nothing
			*verifyKey = pubOf(other)
			break
		}
		e.SigData[0], blk.Header.SigData[0] = blk.Header.SigData[0], e.SigData[0]
	case "hdr.resign-other":
		// the empty block is replaced by one validly signed by somebody else
		h.SigData[0] = signHash(other, refHeaderHash(h))
		h.Bookkeepers[0] = pubOf(other)
	case "tx.add", "tx.add+root":
		blk.Transactions = append(blk.Transactions, mkTx(uint32(c.MutArg), []byte{0xEE}))
		if name == "tx.add+root" {
			blk.Header.TransactionsRoot = txRoot(blk.Transactions)
		}
	case "tx.drop", "tx.drop+root":
		if len(blk.Transactions) == 0 {
			*verifyKey = pubOf(other)
			break
		}
		blk.Transactions = blk.Transactions[:len(blk.Transactions)-1]
		if name == "tx.drop+root" {
			blk.Header.TransactionsRoot = txRoot(blk.Transactions)
		}
	case "tx.modify":
		if len(blk.Transactions) == 0 {
			*verifyKey = pubOf(other)
			break
		}
		blk.Transactions[0].Nonce ^= nz32(c.MutArg)
	case "drop-empty":
		x.Block.EmptyBlock = nil
		return false
	case "bookkeepers":
		blk.Header.Bookkeepers = append(blk.Header.Bookkeepers, pubOf(other))
		return false
	case "extra-sig":
		blk.Header.SigData = append(blk.Header.SigData, []byte{1, 2, 3})
		return false
	default:
		panic("harness: unknown proposal mutation " + c.Mut)
	}
	return true
}

func mutateGeneric(m vbft.ConsensusMsg, arg uint64) {
	switch x := m.(type) {
	case *vbft.VerifPeerHandshakeMsg:
		x.CommittedBlockNumber ^= nz32(arg)
	case *vbft.VerifPeerHeartbeatMsg:
		x.ChainConfigView ^= nz32(arg)
	case *vbft.BlockInfoFetchMsg:
		x.StartBlockNum ^= nz32(arg)
	case *vbft.BlockInfoFetchRespMsg:
		x.Blocks = append(x.Blocks, &vbft.BlockInfo_{BlockNum: uint32(arg)})
	case *vbft.VerifBlockFetchMsg:
		x.BlockNum ^= nz32(arg)
	case *vbft.BlockFetchRespMsg:
		x.BlockNumber ^= nz32(arg)
	case *vbft.VerifProposalFetchMsg:
		x.ProposerID ^= nz32(arg)
	}
}

// runC44Garbage: damaged or arbitrary inputs never panic the decoders; what decodes can be
// re-serialised without a panic.
func runC44Garbage(ctx *ev.Ctx, c c44Case, inner, msgWire, payWire []byte) {
	ctx.Label("mut:" + c.Mut)
	dmg := func(b []byte) []byte {
		switch c.Mut {
		case "g.flip":
			return flipBit(b, c.MutArg)
		case "g.truncate":
			if len(b) == 0 {
				return b
			}
			return b[:int(c.MutArg%uint64(len(b)))]
		case "g.splice":
			if len(b) == 0 {
				return append([]byte{}, c.Raw...)
			}
			at := int(c.MutArg % uint64(len(b)))
			out := append([]byte{}, b[:at]...)
			out = append(out, c.Raw...)
			return append(out, b[at:]...)
		}
		return append([]byte{}, c.Raw...)
	}
	// (1) damaged inner payload inside a well-formed envelope, any declared type
	typ := c44WireType[c.Kind]
	if c.Mut == "g.payload-random" || c.Mut == "g.random" {
		typ = c.RawType
	}
	in := dmg(inner)
	envb, _ := json.Marshal(struct {
		Type    int    `json:"type"`
		Len     uint32 `json:"len"`
		Payload []byte `json:"payload"`
	}{typ, uint32(len(in)), in})
	if m, err := deser(ctx, "damaged inner payload", envb); err == nil && m != nil {
		ctx.Label("garbage:inner-accepted")
		if p := ev.Catch(func() { m.Serialize(); m.GetBlockNum(); m.Type() }); p != "" {
			ctx.Failf("a message decoded from damaged bytes panics when used: %s\ninput %x", p, clipB(envb))
		}
		ev.Catch(func() { m.Verify(pubOf(0)) }) // may legitimately fail; must not take the process down is covered below
		if p := ev.Catch(func() { m.Verify(pubOf(0)) }); p != "" {
			ctx.Failf("Verify of a message decoded from damaged bytes panics: %s\ninput %x", p, clipB(envb))
		}
	} else {
		ctx.Label("garbage:inner-rejected")
	}
	// (2) damaged envelope bytes
	deser(ctx, "damaged envelope", dmg(msgWire))
	// (3) damaged p2p payload bytes, both decoders
	pw := dmg(payWire)
	if p, err := payloadFromWire(ctx, pw); err == nil {
		if pn := ev.Catch(func() { p.Verify() }); pn != "" {
			ctx.Failf("ConsensusPayload.Verify panicked on a decoded damaged payload: %s", pn)
		}
	}
	p := &ptypes.ConsensusPayload{}
	if pn := ev.Catch(func() { p.Deserialize(bytes.NewReader(pw)) }); pn != "" {
		ctx.Failf("ConsensusPayload.Deserialize (stream) panicked: %s\ninput %x", pn, clipB(pw))
	}
	ctx.NonTrivial()
}

func TestC44(t *testing.T) {
	ev.Drive(t, "C44",
		"cases: one VBFT message of each of the 10 kinds with generated fields (blocks with 0..4 transactions, optional empty block, multi-signature headers, chain configs, fault reports, signature maps; nil vs empty containers), wrapped in a signed ConsensusPayload, optionally a history on the same object (encode, change in place - sealing signatures/bookkeepers added, transactions, height, empty block, info - encode again: the decode must be the current object and a proposal changed after signing must not verify), plus one mutation (every signed header/payload field, signatures, key substitution, transactions with and without a recomputed root, unsigned envelope fields) or, in mode garbage, damaged/arbitrary bytes. "+
			"non-trivial: the mutation changed the bytes on the wire and the case was judged (decode or Verify had to reject it), or garbage bytes went through all decoders; distinct by JSON encoding of the case",
		genC44, runC44)
}
