package pvbft

import (
	"bytes"
	"crypto/sha256"
	"encoding/binary"
	"encoding/json"
	"testing"

	"github.com/ontio/ontology-crypto/keypair"
	"github.com/polynetwork/poly/common"
	"github.com/polynetwork/poly/consensus/vbft"
	"github.com/polynetwork/poly/core/types"
	ptypes "github.com/polynetwork/poly/p2pserver/message/types"

	"verif/harness/ev"
)

// ---------------------------------------------------------------------------------------------
// C44, decode side at byte level (mode "wire"): the case is (selector, raw bytes).
//   selector 0..10: raw is the INNER payload of a VBFT message of that wire type (10 = a type the
//                   protocol does not define), put into a well-formed envelope by the harness;
//   selector 11:    raw is a serialised p2p ConsensusPayload.
// Oracle: no decoder, encoder or Verify panics; a decode that is accepted yields a message of the
// declared type that re-encodes, and the re-encoding decodes to an equal message and is a fixed
// point of encode/decode; for every key of a fixed key set, Verify succeeds EXACTLY when the
// harness's own reference verification (own header / payload hashing written from the format,
// ontology-crypto directly) says the decoded content carries that key's signature: bytes that
// are not a genuinely signed message never verify, genuinely signed ones do.
// This mode is what the native fuzz target FuzzC44 drives; the rapid generator of TestC44 does
// not produce it (its "garbage" mode covers damaged encodings of generated messages).

const c44FixedKeys = 4

func refVarUintC44(v uint64) []byte {
	switch {
	case v < 0xFD:
		return []byte{byte(v)}
	case v <= 0xFFFF:
		b := []byte{0xFD, 0, 0}
		binary.LittleEndian.PutUint16(b[1:], uint16(v))
		return b
	case v <= 0xFFFFFFFF:
		b := []byte{0xFE, 0, 0, 0, 0}
		binary.LittleEndian.PutUint32(b[1:], uint32(v))
		return b
	}
	b := make([]byte, 9)
	b[0] = 0xFF
	binary.LittleEndian.PutUint64(b[1:], v)
	return b
}

func le32(v uint32) []byte { b := make([]byte, 4); binary.LittleEndian.PutUint32(b, v); return b }
func le64(v uint64) []byte { b := make([]byte, 8); binary.LittleEndian.PutUint64(b, v); return b }

// refHeaderHash: double SHA-256 over the unsigned header fields, written from the block format.
func refHeaderHash(h *types.Header) common.Uint256 {
	var b []byte
	b = append(b, le32(h.Version)...)
	b = append(b, le64(h.ChainID)...)
	b = append(b, h.PrevBlockHash[:]...)
	b = append(b, h.TransactionsRoot[:]...)
	b = append(b, h.CrossStateRoot[:]...)
	b = append(b, h.BlockRoot[:]...)
	b = append(b, le32(h.Timestamp)...)
	b = append(b, le32(h.Height)...)
	b = append(b, le64(h.ConsensusData)...)
	b = append(b, refVarUintC44(uint64(len(h.ConsensusPayload)))...)
	b = append(b, h.ConsensusPayload...)
	b = append(b, h.NextBookkeeper[:]...)
	t := sha256.Sum256(b)
	return common.Uint256(sha256.Sum256(t[:]))
}

func refBlockSigned(b *types.Block, pk keypair.PublicKey) bool {
	if b == nil || b.Header == nil || len(b.Header.SigData) == 0 {
		return false
	}
	h := refHeaderHash(b.Header)
	return sigOK(pk, h[:], b.Header.SigData[0])
}

// refVerify: does the decoded message carry pk's signature(s) as the protocol requires?
// ok=false: the kind has no signature of its own (Verify is a no-op returning nil).
func refVerify(m vbft.ConsensusMsg, pk keypair.PublicKey) (valid bool, ok bool) {
	switch x := m.(type) {
	case *vbft.VerifBlockProposalMsg:
		if x.Block == nil || !refBlockSigned(x.Block.Block, pk) {
			return false, true
		}
		if x.Block.EmptyBlock != nil && !refBlockSigned(x.Block.EmptyBlock, pk) {
			return false, true
		}
		return true, true
	case *vbft.VerifBlockEndorseMsg:
		return sigOK(pk, x.EndorsedBlockHash[:], x.EndorserSig), true
	case *vbft.VerifBlockCommitMsg:
		return sigOK(pk, x.CommitBlockHash[:], x.CommitterSig), true
	}
	return false, false
}

func refPayloadUnsigned(p *ptypes.ConsensusPayload) []byte {
	var b []byte
	b = append(b, le32(p.Version)...)
	b = append(b, p.PrevHash[:]...)
	b = append(b, le32(p.Height)...)
	b = append(b, byte(p.BookkeeperIndex), byte(p.BookkeeperIndex>>8))
	b = append(b, le32(p.Timestamp)...)
	b = append(b, refVarUintC44(uint64(len(p.Data)))...)
	b = append(b, p.Data...)
	return b
}

func runC44Wire(ctx *ev.Ctx, c c44Case) {
	sel := c.RawType
	if sel < 0 {
		sel = -sel
	}
	sel %= 12
	raw := []byte(c.Raw)
	if sel == 11 {
		ctx.Label("wire:payload")
		runC44WirePayload(ctx, raw)
		return
	}
	ctx.Label("wire:type" + string(rune('0'+sel/10)) + string(rune('0'+sel%10)))
	envb, _ := json.Marshal(struct {
		Type    int    `json:"type"`
		Len     uint32 `json:"len"`
		Payload []byte `json:"payload"`
	}{sel, uint32(len(raw)), raw})
	m, err := deser(ctx, "wire input", envb)
	if err != nil {
		ctx.Label("wire:rejected")
		return
	}
	if m == nil {
		ctx.Failf("DeserializeVbftMsg returned (nil, nil) for type %d, payload %x", sel, clipB(raw))
	}
	if sel == 10 {
		ctx.Failf("a message of the undefined wire type 10 was accepted: %T", m)
	}
	ctx.Label("wire:accepted")
	ctx.NonTrivial()
	if int(m.Type()) != sel {
		ctx.Failf("declared wire type %d decoded as a message of type %d (%T)", sel, m.Type(), m)
	}
	// accepted => usable: re-encodes, and the re-encoding is a fixed point that decodes to an equal message
	var canon1 string
	var b2 []byte
	var serr error
	if p := ev.Catch(func() { canon1 = canonMsg(m); m.GetBlockNum(); b2, serr = vbft.SerializeVbftMsg(m) }); p != "" {
		ctx.Failf("a message decoded from wire bytes panics when rendered / re-encoded: %s\npayload %x", p, clipB(raw))
	}
	if serr != nil {
		ctx.Failf("a %T accepted by the decoder cannot be re-encoded: %v\npayload %x", m, serr, clipB(raw))
	}
	m2, err := deser(ctx, "re-encoding of a decoded message", b2)
	if err != nil {
		ctx.Failf("the re-encoding of an accepted %T does not decode: %v\npayload %x", m, err, clipB(raw))
	}
	if canon2 := canonMsg(m2); canon1 != canon2 {
		ctx.Failf("an accepted %T changes when re-encoded and decoded:\n first  %s\n second %s", m, clipS(canon1), clipS(canon2))
	}
	b3 := ser(ctx, "second re-encoding", m2)
	if !bytes.Equal(b2, b3) {
		ctx.Failf("re-encoding of an accepted %T is not a fixed point of encode/decode", m)
	}
	// signature verification under the fixed key set agrees with the reference, in both directions
	for k := 0; k < c44FixedKeys; k++ {
		pk := pubOf(k)
		verr := verifyMsg(ctx, m2, pk)
		want, has := refVerify(m2, pk)
		if !has {
			continue
		}
		if verr == nil && !want {
			ctx.Failf("%T.Verify succeeds under the key of participant %d although the content does not carry that participant's signature(s)\npayload %x", m2, k, clipB(raw))
		}
		if verr != nil && want {
			ctx.Failf("%T.Verify fails (%v) under the key of participant %d although the content is genuinely signed by it", m2, verr, k)
		}
		if want {
			ctx.Label("wire:genuinely-signed")
		}
	}
}

func runC44WirePayload(ctx *ev.Ctx, raw []byte) {
	p, err := payloadFromWire(ctx, raw)
	// the streaming decoder must agree on accept/reject and never panic
	ps := &ptypes.ConsensusPayload{}
	var serr error
	if pn := ev.Catch(func() { serr = ps.Deserialize(bytes.NewReader(raw)) }); pn != "" {
		ctx.Failf("ConsensusPayload.Deserialize (stream) panicked: %s\ninput %x", pn, clipB(raw))
	}
	if (err == nil) != (serr == nil) {
		ctx.Failf("the two ConsensusPayload decoders disagree: zero-copy err=%v, stream err=%v\ninput %x", err, serr, clipB(raw))
	}
	if err != nil {
		ctx.Label("wire:rejected")
		return
	}
	ctx.Label("wire:accepted")
	ctx.NonTrivial()
	var w []byte
	if pn := ev.Catch(func() { w = payloadWire(p) }); pn != "" {
		ctx.Failf("re-encoding a decoded ConsensusPayload panicked: %s", pn)
	}
	p2, err := payloadFromWire(ctx, w)
	if err != nil {
		ctx.Failf("the re-encoding of an accepted ConsensusPayload does not decode: %v", err)
	}
	if a, b := canonPayload(p), canonPayload(p2); a != b {
		ctx.Failf("an accepted ConsensusPayload changes when re-encoded and decoded:\n first  %s\n second %s", clipS(a), clipS(b))
	}
	if a, b := canonPayload(p), canonPayload(ps); a != b {
		ctx.Failf("the two ConsensusPayload decoders yield different payloads:\n zero-copy %s\n stream    %s", clipS(a), clipS(b))
	}
	verr := verifyPayload(ctx, p2)
	want := sigOK(p2.Owner, refPayloadUnsigned(p2), p2.Signature)
	if verr == nil && !want {
		ctx.Failf("ConsensusPayload.Verify succeeds although the signature is not the owner's over the unsigned content\ninput %x", clipB(raw))
	}
	if verr != nil && want {
		ctx.Failf("ConsensusPayload.Verify fails (%v) although the owner's signature over the unsigned content is genuine", verr)
	}
	if want {
		ctx.Label("wire:genuinely-signed")
	}
}

// c44FuzzSeeds: genuine encodings (selector byte + inner payload) of several kinds, signed by keys
// of the fixed set, plus a signed p2p payload.
func c44FuzzSeeds() [][]byte {
	hash := bytes.Repeat([]byte{0x5a}, 32)
	blk := &blkSpec{Hdr: hdrSpec{ChainID: 3, Prev: hash, Cross: hash, BlockRoot: hash, Timestamp: 1600000000, Height: 9, ConsData: 77, NextBk: hash[:20]},
		Proposer: 2, Vrf: []byte{1, 2, 3}, Proof: []byte{4, 5}, LastCfg: 1, Txs: []txSpec{{Nonce: 1, Code: []byte{0x51}}, {Nonce: 2, Code: []byte{0x52, 0x53}}},
		HasEmpty: true, SysTxs: 1}
	chain := &chainSpec{View: 2, N: 4, C: 1, Delay: 1000, Peers: []int{0, 1, 2, 3}, PosTable: []uint32{1, 2, 3, 4, 1, 2}, MaxView: 100}
	cases := []c44Case{
		{Kind: "proposal", Signer: 1, Blk: blk},
		{Kind: "endorse", Signer: 2, U: []uint32{3, 2, 9}, Hash: hash, Faulty: []faultySpec{{ID: 1, Hash: hash}}, PSig: []byte{9, 9}},
		{Kind: "commit", Signer: 3, U: []uint32{4, 2, 9}, Hash: hash, Empty: true, Sigs: []sigEntry{{Idx: 1, Sig: []byte{1}}, {Idx: 3, Sig: []byte{2, 3}}}},
		{Kind: "handshake", U: []uint32{8, 2}, Hash: hash, Chain: chain},
		{Kind: "heartbeat", U: []uint32{8, 2, 1}, Hash: hash, Bytes: []ev.B{{1, 2}, {3}}},
		{Kind: "infofetch", U: []uint32{5}},
		{Kind: "infofetchresp", Infos: []infoSpec{{Num: 5, Proposer: 1, Sigs: []sigEntry{{Idx: 2, Sig: []byte{7}}}}}},
		{Kind: "proposalfetch", U: []uint32{2, 9}},
		{Kind: "blockfetch", U: []uint32{9}},
		{Kind: "blockfetchresp", Signer: 0, U: []uint32{9}, Hash: hash, Blk: blk},
	}
	var out [][]byte
	var endorseWire []byte
	for _, c := range cases {
		b, err := vbft.SerializeVbftMsg(buildMsg(c))
		if err != nil {
			panic("harness: fuzz seed: " + err.Error())
		}
		var env struct {
			Payload []byte `json:"payload"`
		}
		if err := json.Unmarshal(b, &env); err != nil {
			panic(err)
		}
		out = append(out, append([]byte{byte(c44WireType[c.Kind])}, env.Payload...))
		if c.Kind == "endorse" {
			endorseWire = b
		}
	}
	pay := &ptypes.ConsensusPayload{Version: 1, PrevHash: h256(hash), Height: 9, BookkeeperIndex: 2, Timestamp: 1600000001, Data: endorseWire, Owner: pubOf(2)}
	pay.Signature = signBytes(2, refPayloadUnsigned(pay))
	out = append(out, append([]byte{11}, payloadWire(pay)...))
	out = append(out, []byte{10, '{', '}'}, []byte{1}, []byte{0, 0xfd, 0xff, 0xff})
	return out
}

// FuzzC44 feeds coverage-guided bytes to the decode side of C44: byte 0 selects the message kind
// (0..9), an undefined kind (10) or the p2p payload decoder (11); the rest is the raw input.
func FuzzC44(f *testing.F) {
	for _, s := range c44FuzzSeeds() {
		f.Add(s)
	}
	ev.Fuzz(f, "C44", "TestC44", func(d []byte) (c44Case, bool) {
		if len(d) < 1 || len(d) > 1<<16 {
			return c44Case{}, false
		}
		return c44Case{Mode: "wire", Kind: "wire", RawType: int(d[0]) % 12, Raw: append([]byte(nil), d[1:]...)}, true
	}, runC44)
}
