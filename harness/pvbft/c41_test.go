package pvbft

import (
	"fmt"
	"math"
	"sort"
	"testing"

	"github.com/polynetwork/poly/common"
	"github.com/polynetwork/poly/consensus/vbft"
	vconfig "github.com/polynetwork/poly/consensus/vbft/config"
	"github.com/polynetwork/poly/core/types"
	"pgregory.net/rapid"

	"verif/harness/ev"
	"verif/harness/world"
)

// ---------------------------------------------------------------------------------------------
// C41 VBFT round decisions count distinct participants
//
// mode "pool": a generated one-round history of proposal / endorsement / commit messages is fed,
// message by message, to the real BlockPool of a minimal Server (shim H4), exactly the calls the
// Server makes after it has authenticated a message (newBlockProposal / newBlockEndorsement /
// newBlockCommitment). After every message endorseDone and commitDone are evaluated and judged
// against the harness's own bookkeeping of WHO said WHAT (sets of participants, so nothing can
// count twice). At the end every proposal in the pool is sealed (addSignaturesToBlockLocked) for
// both the full and the empty block and the signature list is judged. A second pool receives the
// same history with some messages delivered several times in a row (metamorphic run).
//
// mode "gcc": getCommitConsensus is called directly on a list of commit messages as the
// fast-forward paths of the Server build it from the message pool (which removes byte-identical
// messages only, so one committer can appear several times).
//
// The harness's model is deliberately a SUPERSET model ("participant x conveyed support for
// proposal p somewhere in the history"): the property is an only-when statement, so a decision
// is wrong exactly when even the most generous count of distinct supporters is below the
// threshold.

const c41BlkNum = 7

type c41Msg struct {
	K     string `json:"k"`               // prop | end | com | peer
	Ev    string `json:"ev,omitempty"`    // peer: connection event of participant From: disc | conn | hb | hs
	From  int    `json:"from"`            // sender position (mod N); prop: proposer slot (mod 3)
	P     int    `json:"p,omitempty"`     // proposer slot 0..2 the message is about (end/com)
	Empty bool   `json:"empty,omitempty"` // endorse / commit the proposer's empty block
	Alt   bool   `json:"alt,omitempty"`   // prop: the proposer's second, conflicting block
	Emb   []int  `json:"emb,omitempty"`   // com: embedded endorser signatures (positions mod N), genuine
	Forge []int  `json:"forge,omitempty"` // com: embedded entries whose signature bytes are NOT the named peer's (positions mod N+3: may name non-validators)
	Dup   int    `json:"dup,omitempty"`   // metamorphic run: delivered 1+Dup times in a row
	Var   int    `json:"var,omitempty"`   // com: >0 puts a fault report with this id into the message (same vote, different bytes)
	Rs    int    `json:"rs,omitempty"`    // >0: the sender's own signature is a RE-SIGNED one (same content, other signature bytes)
	EmbRs int    `json:"embrs,omitempty"` // com: >0: the genuine embedded endorser signatures are re-signed ones
	DupRs bool   `json:"duprs,omitempty"` // metamorphic run: the re-deliveries are re-signed instead of byte-identical
}

type c41Case struct {
	Mode      string   `json:"mode"` // pool | gcc
	N         int      `json:"n"`
	C         int      `json:"c"`
	Endorsers []int    `json:"endorsers,omitempty"` // participant-config endorser list (positions)
	Conn      []int    `json:"conn,omitempty"`      // connected peers (positions)
	Msgs      []c41Msg `json:"msgs"`
}

var c41AllKinds = []string{"prop", "end", "end", "end", "com", "com", "peer"}

func genC41Msg(n int, forge bool, kinds []string) *rapid.Generator[c41Msg] {
	return rapid.Custom(func(t *rapid.T) c41Msg {
		m := c41Msg{K: rapid.SampledFrom(kinds).Draw(t, "k")}
		slot := rapid.SampledFrom([]int{0, 0, 0, 1, 1, 2}).Draw(t, "slot")
		switch m.K {
		case "peer":
			// a participant (often one that already spoke) disconnects / reconnects / sends a heartbeat
			m.From = rapid.IntRange(0, n-1).Draw(t, "from")
			m.Ev = rapid.SampledFrom([]string{"disc", "disc", "disc", "conn", "hb", "hs"}).Draw(t, "ev")
			m.Dup = rapid.SampledFrom([]int{0, 0, 1}).Draw(t, "dup")
			return m
		case "prop":
			m.From = slot
			m.Alt = rapid.SampledFrom([]bool{false, false, false, true}).Draw(t, "alt")
		case "end":
			m.From = rapid.IntRange(0, n-1).Draw(t, "from")
			m.P = slot
			m.Empty = rapid.SampledFrom([]bool{false, false, false, true}).Draw(t, "empty")
		case "com":
			m.From = rapid.OneOf(rapid.IntRange(0, n-1), rapid.IntRange(0, 2)).Draw(t, "from")
			m.P = slot
			m.Empty = rapid.SampledFrom([]bool{false, false, true}).Draw(t, "empty")
			m.Emb = rapid.OneOf(rapid.Just([]int{}), rapid.SliceOfN(rapid.IntRange(0, n-1), 0, 2), rapid.SliceOfN(rapid.IntRange(0, n-1), 0, n)).Draw(t, "emb")
			m.Var = rapid.SampledFrom([]int{0, 0, 0, 1, 2, 3}).Draw(t, "var")
			if forge && rapid.IntRange(0, 5).Draw(t, "forge?") == 0 {
				m.Forge = rapid.SliceOfN(rapid.IntRange(0, n+2), 1, n).Draw(t, "forge")
			}
		}
		m.Dup = rapid.SampledFrom([]int{0, 0, 1, 2}).Draw(t, "dup")
		m.Rs = rapid.SampledFrom([]int{0, 0, 0, 1, 2}).Draw(t, "rs")
		if m.K == "com" {
			m.EmbRs = rapid.SampledFrom([]int{0, 0, 1, 2}).Draw(t, "embrs")
		}
		m.DupRs = rapid.Bool().Draw(t, "duprs")
		return m
	})
}

func genC41(t *rapid.T) c41Case {
	c := c41Case{Mode: rapid.SampledFrom([]string{"pool", "pool", "pool", "gcc"}).Draw(t, "mode")}
	c.N = rapid.IntRange(4, ev.Scale(10, 13)).Draw(t, "n")
	c.C = rapid.IntRange(1, (c.N-1)/3).Draw(t, "c")
	if c.Mode == "gcc" {
		if rapid.IntRange(0, 3).Draw(t, "freeform") == 0 {
			c.Msgs = rapid.SliceOfN(genC41Msg(c.N, false, []string{"com"}), 0, 3*c.N).Draw(t, "msgs")
			return c
		}
		// the shape the fast-forward path produces: every committer votes for ONE block but may have
		// several distinct commit messages for it (re-sent with other embedded endorsers / reports)
		type keyed struct {
			k int
			m c41Msg
		}
		var all []keyed
		who := rapid.SliceOfNDistinct(rapid.IntRange(0, c.N-1), 0, c.N, func(i int) int { return i }).Draw(t, "committers")
		for _, w := range who {
			slot := rapid.SampledFrom([]int{0, 0, 0, 1, 2}).Draw(t, "slot")
			empty := rapid.SampledFrom([]bool{false, false, true}).Draw(t, "empty")
			nv := rapid.SampledFrom([]int{1, 1, 2, 3, 4}).Draw(t, "variants")
			for v := 0; v < nv; v++ {
				emb := rapid.OneOf(rapid.Just([]int{}), rapid.SliceOfN(rapid.IntRange(0, c.N-1), 0, 2), rapid.SliceOfN(rapid.IntRange(0, c.N-1), 0, c.N)).Draw(t, "emb")
				all = append(all, keyed{rapid.IntRange(0, 1000).Draw(t, "order"), c41Msg{K: "com", From: w, P: slot, Empty: empty, Emb: emb, Var: v}})
			}
		}
		sort.SliceStable(all, func(i, j int) bool { return all[i].k < all[j].k })
		for _, x := range all {
			c.Msgs = append(c.Msgs, x.m)
		}
		return c
	}
	c.Endorsers = rapid.SliceOfNDistinct(rapid.IntRange(0, c.N-1), 0, c.N, func(i int) int { return i }).Draw(t, "endorsers")
	c.Conn = rapid.SliceOfNDistinct(rapid.IntRange(0, c.N-1), 0, c.N, func(i int) int { return i }).Draw(t, "conn")
	// forged embedded signatures are a separate input class (they exercise the known root cause
	// "embedded endorser signatures are never verified"); excluded by construction once listed.
	forge := !ev.IsKnown("C41", keyEmbUnverified) && rapid.IntRange(0, 3).Draw(t, "forgeclass") == 0
	c.Msgs = rapid.SliceOfN(genC41Msg(c.N, forge, c41AllKinds), 1, 4*c.N).Draw(t, "msgs")
	return c
}

const (
	keyEmbUnverified = "commit-embedded-endorser-sigs-unverified"
	keyEmptyPerMsg   = "getCommitConsensus-empty-votes-counted-per-message"
)

// ---- fixtures of one case

type c41Fix struct {
	n, c   int
	info   [3]*vconfig.VbftBlockInfo
	blocks [3][2]*vbft.Block // [slot][variant] variant 0 primary, 1 alt
	first  [3]int            // variant of the slot that is delivered first (0 when none)
}

func newC41Fix(c c41Case) *c41Fix {
	f := &c41Fix{n: c.N, c: c.C}
	for s := 0; s < 3; s++ {
		f.first[s] = -1
	}
	for _, m := range c.Msgs {
		if m.K == "prop" {
			s := mod(m.From, 3)
			if f.first[s] < 0 {
				f.first[s] = b2i(m.Alt)
			}
		}
	}
	for s := 0; s < 3; s++ {
		if f.first[s] < 0 {
			f.first[s] = 0
		}
		info := &vconfig.VbftBlockInfo{Proposer: pidx(s), VrfValue: []byte{byte(s), 1, 2}, LastConfigBlockNum: 0}
		f.info[s] = info
		for v := 0; v < 2; v++ {
			tx := mkTx(uint32(10*s+v), []byte{byte(s), byte(v), 0x51})
			full := mkTypesBlock(hdrSpec{Height: c41BlkNum, Timestamp: 1600000000, ConsData: uint64(100*s + v)}, info, []*types.Transaction{tx}, s)
			empty := mkTypesBlock(hdrSpec{Height: c41BlkNum, Timestamp: 1600000000, ConsData: uint64(100*s + v)}, info, nil, s)
			f.blocks[s][v] = &vbft.Block{Block: full, EmptyBlock: empty, Info: info}
		}
	}
	return f
}

func mod(a, n int) int {
	a %= n
	if a < 0 {
		a += n
	}
	return a
}
func b2i(b bool) int {
	if b {
		return 1
	}
	return 0
}

// hash the participants sign when they support slot s (the variant delivered first).
func (f *c41Fix) hash(s int, empty bool) common.Uint256 {
	b := f.blocks[s][f.first[s]]
	if empty {
		return b.EmptyBlock.Hash()
	}
	return b.Block.Hash()
}

func (f *c41Fix) proposerSig(s int, empty bool) []byte {
	b := f.blocks[s][f.first[s]]
	if empty {
		return b.EmptyBlock.Header.SigData[0]
	}
	return b.Block.Header.SigData[0]
}

func (f *c41Fix) proposal(s, variant, rs int) *vbft.VerifBlockProposalMsg {
	b := cloneVbftBlock(f.blocks[s][variant])
	if rs > 0 {
		b.Block.Header.SigData[0] = signHashV(s, b.Block.Hash(), rs)
		b.EmptyBlock.Header.SigData[0] = signHashV(s, b.EmptyBlock.Hash(), rs)
	}
	return &vbft.VerifBlockProposalMsg{Block: b}
}

func (f *c41Fix) endorse(m c41Msg) *vbft.VerifBlockEndorseMsg {
	s, from := mod(m.P, 3), mod(m.From, f.n)
	h := f.hash(s, m.Empty)
	return &vbft.VerifBlockEndorseMsg{Endorser: pidx(from), EndorsedProposer: pidx(s), BlockNum: c41BlkNum, EndorsedBlockHash: h,
		EndorseForEmpty: m.Empty, ProposerSig: f.proposerSig(s, m.Empty), EndorserSig: signHashV(from, h, m.Rs)}
}

func (f *c41Fix) commit(m c41Msg) *vbft.VerifBlockCommitMsg {
	s, from := mod(m.P, 3), mod(m.From, f.n)
	h := f.hash(s, m.Empty)
	es := map[uint32][]byte{}
	for _, e := range m.Forge {
		e = mod(e, f.n+3)
		// a signature over the right hash, but made by the committer, not by the named endorser
		es[pidx(e)] = signHash(from, h)
	}
	for _, e := range m.Emb {
		e = mod(e, f.n)
		es[pidx(e)] = signHashV(e, h, m.EmbRs)
	}
	var fv []*vbft.FaultyReport
	if m.Var > 0 {
		fv = []*vbft.FaultyReport{{FaultyID: uint32(m.Var)}}
	}
	return &vbft.VerifBlockCommitMsg{Committer: pidx(from), BlockProposer: pidx(s), BlockNum: c41BlkNum, CommitBlockHash: h,
		CommitForEmpty: m.Empty, FaultyVerifies: fv, ProposerSig: f.proposerSig(s, m.Empty), EndorsersSig: es, CommitterSig: signHashV(from, h, m.Rs)}
}

// ---- the harness's bookkeeping: sets of participants

type pset map[int]bool

func (p pset) add(i int) { p[i] = true }
func (p pset) list() []int {
	out := make([]int, 0, len(p))
	for k := range p {
		out = append(out, k)
	}
	sort.Ints(out)
	return out
}

type se struct {
	s     int
	empty bool
}

type c41Model struct {
	n int
	// genuine: the named participant really produced the signature; claimed: genuine or forged
	genNE, clmNE       [3]pset // non-empty endorsement of slot s (incl. proposer, committers, embedded)
	genEmpty, clmEmpty [3]pset // empty-block endorsement of slot s
	genCom, clmCom     [3]pset // signers in commit messages for slot s (committer + embedded), any flag
	forged             map[int]map[se]bool
	appear             map[int]map[se]bool // every (slot, empty) a participant appears with, in any role
	direct             map[int]map[se]bool // own endorsement message delivered
	hasProposal        [3]bool
	proposalVariant    [3]int
	proposalRs         [3]int
	committed          map[int]se // first commit of a committer
	hasCommitted       map[int]bool
	repeats            int // messages by a participant that already spoke (duplicates / conflicts)
}

func newC41Model(n int) *c41Model {
	m := &c41Model{n: n, forged: map[int]map[se]bool{}, appear: map[int]map[se]bool{}, direct: map[int]map[se]bool{},
		committed: map[int]se{}, hasCommitted: map[int]bool{}}
	for s := 0; s < 3; s++ {
		m.genNE[s], m.clmNE[s], m.genEmpty[s], m.clmEmpty[s], m.genCom[s], m.clmCom[s] = pset{}, pset{}, pset{}, pset{}, pset{}, pset{}
	}
	return m
}

func mark(mm map[int]map[se]bool, who int, k se) {
	if mm[who] == nil {
		mm[who] = map[se]bool{}
	}
	mm[who][k] = true
}

func (m *c41Model) endorsed(who, s int, empty, genuine bool) {
	k := se{s, empty}
	if len(m.appear[who]) > 0 {
		m.repeats++
	}
	mark(m.appear, who, k)
	if !genuine {
		mark(m.forged, who, k)
	}
	if empty {
		m.clmEmpty[s].add(who)
		if genuine {
			m.genEmpty[s].add(who)
		}
	} else {
		m.clmNE[s].add(who)
		if genuine {
			m.genNE[s].add(who)
		}
	}
}

// validators only (positions < n)
func (m *c41Model) valid(p pset) int {
	k := 0
	for i := range p {
		if i < m.n {
			k++
		}
	}
	return k
}

func union(ps ...pset) pset {
	out := pset{}
	for _, p := range ps {
		for k := range p {
			out[k] = true
		}
	}
	return out
}

// judge: need = minimal count; returns normally when fine, routes to Known when only forged
// embedded entries make up the difference, fails otherwise.
func judgeCount(ctx *ev.Ctx, lab *labelOnce, m *c41Model, what string, gen, clm pset, need int, detail string) {
	if m.valid(gen) >= need {
		return
	}
	if len(clm) >= need {
		lab.Label("known:" + keyEmbUnverified)
		ctx.Known(keyEmbUnverified, "%s: only %d validators genuinely support it (need %d); the rest of the %d counted are embedded endorser entries of a commit message that nobody verified (forged or naming non-validators). %s",
			what, m.valid(gen), need, len(clm), detail)
		return
	}
	ctx.Failf("%s with %d distinct supporting participants %v, need %d. %s", what, len(clm), clm.list(), need, detail)
}

// labelOnce records a label at most once per case (decisions are evaluated after every message).
type labelOnce struct {
	ctx  *ev.Ctx
	seen map[string]bool
}

func (l *labelOnce) Label(s string) {
	if l.seen == nil {
		l.seen = map[string]bool{}
	}
	if !l.seen[s] {
		l.seen[s] = true
		l.ctx.Label(s)
	}
}

// c41PeerEvents: the peer-pool connection events of shim consensus/vbft/verif_export_peerpool.go.
type c41PeerEvents interface {
	VerifPeerDisconnected(peerIdx uint32) error
	VerifPeerHandshake(peerIdx uint32, msg *vbft.VerifPeerHandshakeMsg) error
	VerifPeerHeartbeat(peerIdx uint32, msg *vbft.VerifPeerHeartbeatMsg) error
}

type c41Obs struct {
	eDone, cDone []bool
	signers      map[string][]int
}

func slotOfIdx(idx uint32) int {
	if idx >= 1 && idx <= 3 {
		return int(idx) - 1
	}
	return -1
}

func runC41(ctx *ev.Ctx, c c41Case) {
	world.ResetGlobals(0)
	if c.N < 4 || c.C < 1 || c.C > (c.N-1)/3 {
		ctx.Label("skip:config-outside-domain")
		return
	}
	ctx.Label("mode:" + c.Mode)
	if c.Mode == "gcc" {
		runC41Gcc(ctx, c)
		return
	}
	f := newC41Fix(c)
	a := c41Play(ctx, c, f, false)
	b := c41Play(ctx, c, f, true)
	// metamorphic: immediate re-delivery of a message never changes a decision or a sealed signer set
	for i := range a.eDone {
		if a.eDone[i] != b.eDone[i] {
			ctx.Failf("after message %d (%+v) endorseDone=%v, but %v when some messages of the same history are delivered several times in a row", i, c.Msgs[i], a.eDone[i], b.eDone[i])
		}
		if a.cDone[i] != b.cDone[i] {
			ctx.Failf("after message %d (%+v) commitDone=%v, but %v when some messages of the same history are delivered several times in a row", i, c.Msgs[i], a.cDone[i], b.cDone[i])
		}
	}
	for k, v := range a.signers {
		if fmt.Sprint(v) != fmt.Sprint(b.signers[k]) {
			ctx.Failf("sealed signer set of %s is %v, but %v when messages are re-delivered", k, v, b.signers[k])
		}
	}
}

// c41Play feeds the history to a fresh pool; withDups delivers message i 1+Dup times in a row.
// Only the run without duplicates is judged against the model and recorded (labels).
func c41Play(ctx *ev.Ctx, c c41Case, f *c41Fix, withDups bool) c41Obs {
	N, C := c.N, c.C
	judged := !withDups
	lab := &labelOnce{ctx: ctx}
	cfg := &vconfig.ChainConfig{Version: 1, View: 1, N: uint32(N), C: uint32(C), Peers: peerConfigs(N)}
	srv, err := vbft.VerifNewServer(1, cfg)
	if err != nil {
		ctx.Failf("harness: VerifNewServer: %v", err)
	}
	pc := &vbft.BlockParticipantConfig{BlockNum: c41BlkNum, ChainConfig: cfg, Proposers: []uint32{1, 2, 3}}
	for _, e := range c.Endorsers {
		pc.Endorsers = append(pc.Endorsers, pidx(mod(e, N)))
	}
	srv.VerifSetParticipantConfig(pc)
	for _, p := range c.Conn {
		srv.VerifPeerConnected(pidx(mod(p, N)))
	}
	m := newC41Model(N)
	obs := c41Obs{signers: map[string][]int{}}
	T1 := N - (N-1)/3 - 1
	T2 := N - 1 - C
	decided := false

	for i, msg := range c.Msgs {
		times := 1
		if withDups {
			times += msg.Dup
		}
		orig := msg
		for rep := 0; rep < times; rep++ {
			var err error
			var pnc string
			msg := orig
			if rep > 0 && orig.DupRs {
				// re-delivery as a re-signed message: same content, other signature bytes
				msg.Rs, msg.EmbRs = orig.Rs+10*rep, orig.EmbRs+10*rep
			}
			switch msg.K {
			case "prop":
				s := mod(msg.From, 3)
				v := b2i(msg.Alt)
				pm := f.proposal(s, v, msg.Rs)
				pnc = ev.Catch(func() { err = srv.VerifNewBlockProposal(pm) })
				if pnc == "" && judged {
					switch {
					case !m.hasProposal[s]:
						if err != nil {
							ctx.Failf("first proposal of proposer %d rejected: %v", pidx(s), err)
						}
						m.hasProposal[s], m.proposalVariant[s], m.proposalRs[s] = true, v, msg.Rs
						m.endorsed(s, s, false, true)
					case m.proposalVariant[s] == v && m.proposalRs[s] != msg.Rs:
						// the same block signed again by its proposer: the pool keeps the first copy; whether
						// it reports the second as a duplicate or as a conflict is not judged, counting is
						m.repeats++
						lab.Label("resigned:proposal")
					case m.proposalVariant[s] == v:
						m.repeats++
						if err != nil {
							ctx.Failf("identical re-delivery of the proposal of proposer %d rejected: %v", pidx(s), err)
						}
					default:
						m.repeats++
						lab.Label("conflict:second-proposal")
						if err == nil {
							ctx.Failf("message %d: a second, different block proposal from proposer %d was accepted (no error)", i, pidx(s))
						}
					}
				}
			case "end":
				em := f.endorse(msg)
				pnc = ev.Catch(func() { err = srv.VerifNewBlockEndorsement(em) })
				if pnc == "" && judged {
					if err != nil {
						ctx.Failf("endorsement %d (%+v) rejected: %v", i, msg, err)
					}
					who, s := mod(msg.From, N), mod(msg.P, 3)
					if len(m.appear[who]) > 0 && !m.appear[who][se{s, msg.Empty}] {
						lab.Label("conflict:equivocating-endorser")
					}
					if m.appear[who][se{s, msg.Empty}] && msg.Rs > 0 {
						lab.Label("resigned:endorsement-of-already-counted-participant")
					}
					m.endorsed(who, s, msg.Empty, true)
					mark(m.direct, who, se{s, msg.Empty})
				}
			case "peer":
				// connection events of the peer pool (shim verif_export_peerpool.go; skipped while the
				// shim is not in the tree). They change nobody's support.
				pe, ok := interface{}(srv).(c41PeerEvents)
				if !ok {
					lab.Label("skip:peer-events-shim-missing")
					break
				}
				who := pidx(mod(msg.From, N))
				pnc = ev.Catch(func() {
					switch msg.Ev {
					case "disc":
						err = pe.VerifPeerDisconnected(who)
					case "hb":
						err = pe.VerifPeerHeartbeat(who, &vbft.VerifPeerHeartbeatMsg{CommittedBlockNumber: c41BlkNum - 1})
					case "hs":
						err = pe.VerifPeerHandshake(who, &vbft.VerifPeerHandshakeMsg{CommittedBlockNumber: c41BlkNum - 1})
					default:
						err = srv.VerifPeerConnected(who)
					}
				})
				if pnc == "" && err != nil {
					ctx.Failf("peer event %s of participant %d failed: %v", msg.Ev, who, err)
				}
				if judged {
					lab.Label("peer-event:" + msg.Ev)
					if msg.Ev == "disc" && len(m.appear[mod(msg.From, N)]) > 0 {
						lab.Label("peer-event:supporter-disconnects-before-sealing")
					}
				}
			case "com":
				cm := f.commit(msg)
				pnc = ev.Catch(func() { err = srv.VerifNewBlockCommitment(cm) })
				if pnc == "" && judged {
					who, s := mod(msg.From, N), mod(msg.P, 3)
					k := se{s, msg.Empty}
					if prev, ok := m.committed[who]; !ok {
						if err != nil {
							ctx.Failf("first commit of committer %d rejected: %v", pidx(who), err)
						}
						m.committed[who] = k
						mark(m.direct, who, k) // the committer's own signature is recorded with its first commit
					} else if prev == k {
						if err != nil {
							ctx.Failf("re-delivered commit of committer %d for the same block rejected: %v", pidx(who), err)
						}
					} else {
						lab.Label("conflict:second-commit")
						if err == nil {
							ctx.Failf("message %d: committer %d committed %+v before and now %+v; the conflicting commit was accepted (no error)", i, pidx(who), prev, k)
						}
					}
					m.endorsed(who, s, msg.Empty, true)
					m.genCom[s].add(who)
					m.clmCom[s].add(who)
					for _, e := range msg.Emb {
						e = mod(e, N)
						if m.appear[e][se{s, msg.Empty}] && msg.EmbRs > 0 {
							lab.Label("resigned:embedded-sig-of-already-counted-participant")
						}
						m.endorsed(e, s, msg.Empty, true)
						m.genCom[s].add(e)
						m.clmCom[s].add(e)
					}
					inEmb := pset{}
					for _, e := range msg.Emb {
						inEmb.add(mod(e, N))
					}
					for _, e := range msg.Forge {
						e = mod(e, N+3)
						if inEmb[e] {
							continue // overwritten by the genuine entry in the map
						}
						m.endorsed(e, s, msg.Empty, false)
						m.clmCom[s].add(e)
						lab.Label("class:forged-embedded-sig")
					}
				}
			}
			if pnc != "" {
				ctx.Failf("message %d (%+v) panicked in the block pool: %s", i, msg, pnc)
			}
		}

		// ---- decisions after this message
		ep, eEmpty, eDone := srv.VerifEndorseDone(c41BlkNum, uint32(C))
		cp, cEmpty, cDone := srv.VerifCommitDone(c41BlkNum, uint32(C), uint32(N))
		obs.eDone = append(obs.eDone, eDone)
		obs.cDone = append(obs.cDone, cDone)
		if !judged {
			continue
		}
		allGenEmpty, allClmEmpty := union(m.genEmpty[:]...), union(m.clmEmpty[:]...)
		if eDone {
			decided = true
			s := slotOfIdx(ep)
			if s < 0 {
				ctx.Failf("endorseDone names proposer %d, whom no message mentions", ep)
			}
			if eEmpty {
				judgeCount(ctx, lab, m, fmt.Sprintf("after message %d the round is treated as endorsed for an EMPTY block (proposer %d)", i, ep),
					allGenEmpty, allClmEmpty, C+1, fmt.Sprintf("N=%d C=%d", N, C))
				if m.valid(m.genEmpty[s]) <= C {
					// the code's own FIXME: empty votes are counted across proposers and the returned
					// proposer is whichever vote came last; counted, not judged
					lab.Label("observe:endorse-empty-votes-pooled-across-proposers")
				}
			} else {
				judgeCount(ctx, lab, m, fmt.Sprintf("after message %d the round is treated as endorsed for the proposal of %d", i, ep),
					m.genNE[s], m.clmNE[s], C+1, fmt.Sprintf("N=%d C=%d", N, C))
				if m.valid(m.genNE[s]) == C+1 {
					lab.Label("endorse:exactly-at-threshold")
				}
			}
		} else {
			for s := 0; s < 3; s++ {
				if m.valid(m.genNE[s]) == C {
					lab.Label("endorse:one-below-threshold-not-done")
					break
				}
			}
		}
		if cDone {
			decided = true
			s := slotOfIdx(cp)
			if s < 0 {
				ctx.Failf("commitDone names proposer %d, whom no message mentions", cp)
			}
			// enough signers in commit messages, or more than N-1-C endorsers
			if !(m.valid(m.genCom[s]) >= T1 || m.valid(m.genNE[s]) > T2) {
				if len(m.clmCom[s]) >= T1 || len(m.clmNE[s]) > T2 {
					lab.Label("known:" + keyEmbUnverified)
					ctx.Known(keyEmbUnverified, "after message %d the round is treated as committed for proposer %d, but only %d validators genuinely signed in commit messages (need %d) and %d genuinely endorsed (need > %d); the decision rests on embedded endorser entries nobody verified (N=%d C=%d)",
						i, cp, m.valid(m.genCom[s]), T1, m.valid(m.genNE[s]), T2, N, C)
				} else {
					ctx.Failf("after message %d the round is treated as committed for proposer %d with %d distinct signers in commit messages %v (need %d) and %d distinct endorsers %v (need > %d); N=%d C=%d",
						i, cp, len(m.clmCom[s]), m.clmCom[s].list(), T1, len(m.clmNE[s]), m.clmNE[s].list(), T2, N, C)
				}
			}
			if m.valid(m.genCom[s]) == T1 || m.valid(m.genNE[s]) == T2+1 {
				lab.Label("commit:exactly-at-threshold")
			}
			if cEmpty {
				judgeCount(ctx, lab, m, fmt.Sprintf("after message %d the round is treated as committed for an EMPTY block (proposer %d)", i, cp),
					allGenEmpty, allClmEmpty, C+1, fmt.Sprintf("N=%d C=%d", N, C))
				lab.Label("commit:for-empty")
			}
		}
	}

	// ---- sealing
	for s := 0; s < 3; s++ {
		if !m.hasProposal[s] && judged {
			continue
		}
		if withDups {
			// same condition as the judged run: a proposal of the slot is in the history
			has := false
			for _, mm := range c.Msgs {
				if mm.K == "prop" && mod(mm.From, 3) == s {
					has = true
				}
			}
			if !has {
				continue
			}
		}
		for _, empty := range []bool{false, true} {
			key := fmt.Sprintf("proposer %d empty=%v", pidx(s), empty)
			blk := cloneVbftBlock(f.blocks[s][f.first[s]])
			var err error
			if p := ev.Catch(func() { err = srv.VerifAddSignaturesToBlock(blk, empty) }); p != "" {
				ctx.Failf("sealing %s panicked: %s", key, p)
			}
			if err != nil {
				ctx.Failf("sealing %s failed: %v", key, err)
			}
			hdr := blk.Block.Header
			if empty {
				hdr = blk.EmptyBlock.Header
			}
			if len(hdr.Bookkeepers) != len(hdr.SigData) {
				ctx.Failf("sealed %s: %d bookkeepers but %d signatures", key, len(hdr.Bookkeepers), len(hdr.SigData))
			}
			posOf := map[string]int{}
			for i := 0; i < N; i++ {
				posOf[pkBytes(pubOf(i))] = i
			}
			hash := hdr.Hash()
			seen := pset{}
			for i, pk := range hdr.Bookkeepers {
				if pk == nil {
					ctx.Failf("sealed %s: bookkeeper %d is a nil public key", key, i)
				}
				pos, ok := posOf[pkBytes(pk)]
				if !ok {
					ctx.Failf("sealed %s: bookkeeper %d is not a validator key", key, i)
				}
				if seen[pos] {
					ctx.Failf("sealed %s carries two signatures of participant %d", key, pidx(pos))
				}
				seen.add(pos)
				if !judged {
					continue
				}
				clm := m.clmNE[s]
				if empty {
					clm = m.clmEmpty[s]
				}
				if pos != s && !clm[pos] {
					ctx.Failf("sealed %s carries a signature of participant %d, who never supported that block (supporters %v)", key, pidx(pos), clm.list())
				}
				if !sigOK(pk, hash[:], hdr.SigData[i]) {
					if m.forged[pos][se{s, empty}] {
						lab.Label("known:" + keyEmbUnverified)
						ctx.Known(keyEmbUnverified, "sealed %s carries under validator %d's key a signature that does not verify: it was taken from the embedded endorser map of a commit message, which is never verified", key, pidx(pos))
						continue
					}
					ctx.Failf("sealed %s: signature %d (participant %d) does not verify over the sealed block hash", key, i, pidx(pos))
				}
			}
			if len(hdr.Bookkeepers) == 0 || !seen[s] || pkBytes(hdr.Bookkeepers[0]) != pkBytes(pubOf(s)) {
				ctx.Failf("sealed %s does not start with the proposer's signature", key)
			}
			obs.signers[key] = seen.list()
			if !judged {
				continue
			}
			// every participant whose own endorsement of exactly this block was delivered and who
			// never appears with anything else must be among the signers
			for who, ks := range m.direct {
				if who == s || !ks[se{s, empty}] || len(m.appear[who]) != 1 {
					continue
				}
				if !seen[who] {
					ctx.Failf("sealed %s lacks the signature of participant %d, who endorsed / committed exactly this block and nothing else and is counted for the decisions (signers %v)", key, pidx(who), seen.list())
				}
			}
			if len(seen) > 1 {
				lab.Label("sealed:with-endorser-sigs")
			}
		}
	}
	if judged {
		if m.repeats > 0 {
			lab.Label("history:has-repeats-or-conflicts")
		}
		if decided {
			lab.Label("history:decision-reached")
		}
		if decided && m.repeats > 0 {
			ctx.NonTrivial()
		}
	}
	return obs
}

// ---- mode gcc: getCommitConsensus on a raw commit list

func runC41Gcc(ctx *ev.Ctx, c c41Case) {
	N, C := c.N, c.C
	f := newC41Fix(c)
	var msgs []*vbft.VerifBlockCommitMsg
	seenMsg := map[string]bool{}
	signers := [3]pset{{}, {}, {}}
	emptyCommitters := pset{}
	emptyMsgs := 0
	repeats := false
	committers := pset{}
	firstOf := map[int]se{}
	sameBlockPerCommitter := true
	for _, m := range c.Msgs {
		if m.K != "com" {
			continue
		}
		m.Forge = nil
		emb := pset{}
		for _, e := range m.Emb {
			emb.add(mod(e, N))
		}
		id := fmt.Sprintf("%d/%d/%v/%v/%d/%d/%d", mod(m.From, N), mod(m.P, 3), m.Empty, emb.list(), m.Var, m.Rs, m.EmbRs)
		if seenMsg[id] {
			continue // the message pool drops byte-identical messages
		}
		seenMsg[id] = true
		msgs = append(msgs, f.commit(m))
		who, s := mod(m.From, N), mod(m.P, 3)
		if committers[who] {
			repeats = true
			if firstOf[who] != (se{s, m.Empty}) {
				// the fast-forward path that USES the for-empty flag first passes every message through
				// newBlockCommitment, which refuses a committer's second commit for another block
				sameBlockPerCommitter = false
			}
		} else {
			firstOf[who] = se{s, m.Empty}
		}
		committers.add(who)
		signers[s].add(who)
		for e := range emb {
			signers[s].add(e)
		}
		if m.Empty {
			// everybody whose empty-block vote the message conveys: the committer and the embedded endorsers
			emptyCommitters.add(who)
			for e := range emb {
				emptyCommitters.add(e)
			}
			emptyMsgs++
		}
	}
	var p uint32
	var forEmpty bool
	if pn := ev.Catch(func() { p, forEmpty = vbft.VerifGetCommitConsensus(msgs, C, N) }); pn != "" {
		ctx.Failf("getCommitConsensus panicked: %s", pn)
	}
	T1 := N - (N-1)/3 - 1
	if p == math.MaxUint32 {
		for s := 0; s < 3; s++ {
			if len(signers[s]) >= T1 {
				ctx.Failf("getCommitConsensus reports no consensus although %d distinct participants %v signed commit messages for proposer %d (threshold N-(N-1)/3-1 = %d, N=%d)",
					len(signers[s]), signers[s].list(), pidx(s), T1, N)
			}
			if len(signers[s]) == T1-1 {
				ctx.Label("gcc:one-below-threshold-not-done")
			}
		}
		if forEmpty {
			ctx.Failf("getCommitConsensus: no proposer but forEmpty=true")
		}
		return
	}
	s := slotOfIdx(p)
	if s < 0 {
		ctx.Failf("getCommitConsensus names proposer %d, whom no message mentions", p)
	}
	if len(signers[s]) < T1 {
		ctx.Failf("getCommitConsensus reports consensus on proposer %d with %d distinct signers %v, need N-(N-1)/3-1 = %d (N=%d)", p, len(signers[s]), signers[s].list(), T1, N)
	}
	ctx.Label("gcc:consensus")
	if repeats {
		ctx.Label("gcc:committer-appears-twice")
		ctx.NonTrivial()
	}
	if forEmpty {
		ctx.Label("gcc:for-empty")
		if len(emptyCommitters) <= C && !sameBlockPerCommitter {
			ctx.Label("unjudged:gcc-for-empty-on-list-with-conflicting-commits")
		} else if len(emptyCommitters) <= C {
			ctx.Label("known:" + keyEmptyPerMsg)
			ctx.Known(keyEmptyPerMsg, "getCommitConsensus(N=%d,C=%d) decides for the EMPTY block although the empty-vote commit messages in the list convey the votes of only %d distinct participants %v (committers and embedded endorsers; need more than C=%d): it counts empty-vote MESSAGES (%d), and one committer can have several distinct commit messages for the same block in the list",
				N, C, len(emptyCommitters), emptyCommitters.list(), C, emptyMsgs)
		}
	}
}

func TestC41(t *testing.T) {
	ev.Drive(t, "C41",
		"cases: N=4..10 (thorough ..13), C=1..(N-1)/3; mode pool: one-round history of 1..4N proposal/endorse/commit messages over 3 proposers (byte-identical AND re-signed duplicates of already counted participants - own endorsements, commits, embedded endorser signatures -, equivocating endorsers, conflicting proposals and commits, peer disconnect/reconnect/heartbeat/handshake events of participants (also of supporters, before sealing), empty-block votes, commits embedding endorser signatures, optionally forged embedded entries) fed to the real BlockPool, decisions judged after every message, all proposals sealed at the end, plus a second run with messages re-delivered in a row (byte-identical or re-signed); "+
			"mode gcc: getCommitConsensus on a raw commit-message list in which a committer may appear several times. "+
			"non-trivial: a decision (endorseDone or commitDone / consensus) is reached AND some participant spoke more than once (duplicate, conflicting or embedded-again message); distinct by JSON encoding of the case",
		genC41, runC41)
}
