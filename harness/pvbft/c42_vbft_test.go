package pvbft

import (
	"testing"

	"verif/harness/ev"
)

// ---------------------------------------------------------------------------------------------
// C42 (VBFT unit): the commit quorum implemented by getCommitConsensus equals the formula.
//
// Exhaustive over N = 1..10000 (sharded by N mod shards). For every N the quorum of DISTINCT
// signers in commit messages is extracted behaviourally from the real getCommitConsensus: with
// T = N - floor((N-1)/3) - 1 (the number the property states; together with the proposer's own
// signature this is the block-acceptance threshold N - f) the call must refuse T-1 signers and
// accept T signers (a list needs at least one message, so the effective quorum is max(1,T));
// for N <= 256 additionally a linear scan finds the smallest accepted count, the one-message
// variant (one committer + embedded endorser signatures) is probed, and for N <= 40 every C in
// 0..N/3 is used (the quorum must not depend on C).

type c42Case struct {
	N int `json:"n"`
}

func runC42Vbft(ctx *ev.Ctx, c c42Case) {
	N := c.N
	f := (N - 1) / 3
	T := N - f - 1
	q := T
	if q < 1 {
		q = 1 // N=1: an empty message list can never report consensus
	}
	Cs := []int{f}
	if N <= 40 {
		Cs = Cs[:0]
		for C := 0; C <= N/3; C++ {
			Cs = append(Cs, C)
		}
	}
	for _, C := range Cs {
		var lo, hi bool
		if p := ev.Catch(func() { lo = CommitConsensusAccepts(N, C, q-1); hi = CommitConsensusAccepts(N, C, q) }); p != "" {
			ctx.Failf("getCommitConsensus(N=%d,C=%d) panicked: %s", N, C, p)
		}
		if lo {
			ctx.Failf("getCommitConsensus(N=%d,C=%d) reports consensus with %d distinct commit signers; the quorum is N-floor((N-1)/3)-1 = %d", N, C, q-1, T)
		}
		if !hi {
			ctx.Failf("getCommitConsensus(N=%d,C=%d) reports no consensus with %d distinct commit signers; the quorum is N-floor((N-1)/3)-1 = %d", N, C, q, T)
		}
		if N <= 256 {
			if got := CommitQuorumScan(N, C); got != q {
				ctx.Failf("smallest number of distinct commit signers accepted by getCommitConsensus(N=%d,C=%d) is %d, formula says %d", N, C, got, q)
			}
			if CommitConsensusAcceptsEmbedded(N, C, q-1) || !CommitConsensusAcceptsEmbedded(N, C, q) {
				ctx.Failf("getCommitConsensus(N=%d,C=%d), one commit message with embedded endorser signatures: quorum is not %d distinct signers", N, C, q)
			}
		}
	}
	// the quorum plus the proposer's own signature is the block-acceptance threshold N - f, and two
	// such signer sets share more than f validators
	if N >= 2 && q+1 != N-f {
		ctx.Failf("N=%d: commit quorum %d plus the proposer is not N-f=%d", N, q, N-f)
	}
	if N >= 2 && 2*(q+1)-N <= f {
		ctx.Failf("N=%d: two sets of N-f=%d signers need not share more than f=%d validators", N, q+1, f)
	}
	ctx.NonTrivial()
}

func TestC42Vbft(t *testing.T) {
	maxN := 10000
	var cases []c42Case
	for n := 1; n <= maxN; n++ {
		if n%ev.Shards() == ev.Shard() {
			cases = append(cases, c42Case{N: n})
		}
	}
	rec := ev.Get("C42")
	rec.SetExhaustive(true)
	rec.Extra("vbft_commit_quorum_N_checked", len(cases))
	ev.DriveList(t, "C42", cases, runC42Vbft)
}
