package pledger

import (
	"fmt"
	"os"
	"testing"

	"github.com/polynetwork/poly/account"
	"github.com/polynetwork/poly/core/types"
	"pgregory.net/rapid"

	"verif/harness/ev"
	"verif/harness/lworld"
	"verif/harness/world"
)

// ---------------------------------------------------------------------------------------------
// C14, second unit: header synchronisation runs AHEAD of block commitment.
//
// A node that syncs keeps two validator sets: one follows the header chain (which may be many
// heights ahead), one follows the committed blocks. The statement speaks of "the validators in
// force" at the height of the header or block that is judged; with hand-overs announced by headers
// that are not yet committed as blocks the two differ, and every later header must be judged with
// the header-side set while every block is judged with the block-side set.
//
// Case: a chain of K empty blocks, some of which hand over to a new validator set, all prepared
// and correctly signed in advance; then a generated interleaving of
//   hdr     AddHeader of the next header of the prepared chain           (must be accepted)
//   blk     SubmitBlock of the next block whose header is already known  (must be accepted)
//   forged  AddHeader of the next header's content signed by ANOTHER set (older set, a later set,
//           a foreign set, or too few members) - verdict from the reference predicate
// After every step both of the node's sets are compared with the model.

type c14aBlk struct {
	NewVals []int `json:"newvals,omitempty"` // non-empty: this header hands over to these pool accounts
}

type c14aOp struct {
	Kind string `json:"kind"` // hdr | blk | forged
	Set  int    `json:"set"`  // forged: which set signs: 0 = set in force `Back` hand-overs ago, 1 = next announced set, 2 = foreign accounts, 3 = too few members of the right set
	Back int    `json:"back"` // forged/0: how many hand-overs back (1..)
	Via  int    `json:"via"`  // blk, forgedblk: 0 = ExecuteBlock+SubmitBlock, 1 = AddBlock (the sync path)
}

type c14aCase struct {
	N      int       `json:"n"`
	Blocks []c14aBlk `json:"blocks"`
	Ops    []c14aOp  `json:"ops"`
}

func genC14Ahead(t *rapid.T) c14aCase {
	c := c14aCase{N: rapid.IntRange(1, 7).Draw(t, "n")}
	genBlk := rapid.Custom(func(t *rapid.T) c14aBlk {
		var b c14aBlk
		if rapid.IntRange(0, 2).Draw(t, "handover") == 0 {
			b.NewVals = rapid.SliceOfNDistinct(rapid.IntRange(0, 39), 1, 7, func(i int) int { return i }).Draw(t, "newvals")
		}
		return b
	})
	c.Blocks = rapid.SliceOfN(genBlk, 2, 7).Draw(t, "blocks")
	genOp := rapid.Custom(func(t *rapid.T) c14aOp {
		k := rapid.SampledFrom([]string{"hdr", "hdr", "hdr", "blk", "blk", "forged", "forged", "forgedblk", "forgedblk"}).Draw(t, "kind")
		op := c14aOp{Kind: k}
		if k == "forged" {
			op.Set = rapid.IntRange(0, 3).Draw(t, "set")
			op.Back = rapid.IntRange(1, 3).Draw(t, "back")
		}
		if k == "forgedblk" {
			op.Set = rapid.IntRange(0, 4).Draw(t, "set") // 4 = no signature at all
			op.Back = rapid.IntRange(1, 3).Draw(t, "back")
		}
		if k == "blk" || k == "forgedblk" {
			op.Via = rapid.SampledFrom([]int{0, 1, 1}).Draw(t, "via")
		}
		return op
	})
	c.Ops = rapid.SliceOfN(genOp, 3, 24).Draw(t, "ops")
	return c
}

func cloneHeader(h *types.Header) *types.Header {
	c := *h
	c.Bookkeepers = nil
	c.SigData = nil
	return &c
}

func runC14Ahead(ctx *ev.Ctx, c c14aCase) {
	dir := lworld.TempDir("c14a")
	defer os.RemoveAll(dir)
	ch, err := lworld.Open(dir, c.N, 2) // legacy regime on the test net: the header track can be driven
	if err != nil {
		ctx.Failf("open ledger: %v", err)
	}
	defer ch.Close()
	// ---- prepare the whole chain in the model (nothing is given to the node yet)
	K := len(c.Blocks)
	sets := make([][]*account.Account, K+2) // sets[h]: validator set in force for the header/block of height h (1-based)
	sets[1] = ch.Vals
	blocks := make([]*types.Block, K+1)
	for i, bl := range c.Blocks {
		h := i + 1
		var nv []*account.Account
		for _, j := range bl.NewVals {
			nv = append(nv, world.Acct(j))
		}
		b := ch.Build(nil, lworld.BlockOpt{NewVals: nv}) // signed by every member of the set in force (ch.Cur)
		ch.NoteCommitted(b)                              // model only
		blocks[h] = b
		if nv != nil {
			sets[h+1] = nv
		} else {
			sets[h+1] = sets[h]
		}
	}
	setKey := func(as []*account.Account) map[string]bool {
		m := map[string]bool{}
		for _, a := range as {
			m[world.PubHex(a)] = true
		}
		return m
	}
	sameSet := func(got map[string]uint32, want []*account.Account) bool {
		w := setKey(want)
		if len(got) != len(w) {
			return false
		}
		for k := range got {
			if !w[k] {
				return false
			}
		}
		return true
	}
	hdrTip, blkTip := 0, 0
	aheadOverHandover := false
	check := func(step string) {
		ht, bt := ch.Store.VerifPeerInfo()
		if !sameSet(bt, sets[blkTip+1]) {
			ctx.Failf("%s: block-side validator set has %d members, the set in force for block %d has %d (header tip %d, block tip %d)",
				step, len(bt), blkTip+1, len(sets[blkTip+1]), hdrTip, blkTip)
		}
		if !sameSet(ht, sets[hdrTip+1]) {
			ctx.Failf("%s: header-side validator set (%d members) is not the set in force for header %d (%d members) (header tip %d, block tip %d)",
				step, len(ht), hdrTip+1, len(sets[hdrTip+1]), hdrTip, blkTip)
		}
	}
	// commit hands a block to the node through one of its two entry points
	commit := func(b *types.Block, via int) error {
		res, e := ch.Store.ExecuteBlock(b)
		if e != nil {
			return e
		}
		if via == 1 {
			return ch.Store.AddBlock(b, res.MerkleRoot)
		}
		return ch.Store.SubmitBlock(b, res)
	}
	// otherSigners: the signer list of a re-signed header/block of height h (variants as documented at c14aOp.Set)
	otherSigners := func(h int, op c14aOp) []*account.Account {
		right := sets[h]
		switch op.Set {
		case 0:
			j, seen := h, 0
			for j > 1 && seen < op.Back {
				j--
				if c.Blocks[j-1].NewVals != nil {
					seen++
				}
			}
			return sets[j]
		case 1:
			return sets[K+1]
		case 2:
			var s []*account.Account
			for i := 0; i < len(right); i++ {
				s = append(s, world.Acct(44+i))
			}
			return s
		case 3:
			return right[:lworld.Quorum(len(right), true)-1]
		}
		return nil
	}
	for oi, op := range c.Ops {
		step := fmt.Sprintf("op %d (%s)", oi, op.Kind)
		switch op.Kind {
		case "hdr":
			if hdrTip >= K {
				continue
			}
			h := hdrTip + 1
			var e error
			if p := ev.Catch(func() { e = ch.Store.AddHeader(blocks[h].Header) }); p != "" {
				ctx.Failf("%s: AddHeader panicked: %s", step, p)
			}
			if e != nil {
				ctx.Failf("%s: header %d, signed by all %d validators in force at that height, was rejected (header tip %d, block tip %d): %v",
					step, h, len(sets[h]), hdrTip, blkTip, e)
			}
			hdrTip = h
		case "blk":
			if blkTip >= hdrTip {
				continue
			}
			h := blkTip + 1
			var e error
			if p := ev.Catch(func() { e = commit(blocks[h], op.Via) }); p != "" {
				ctx.Failf("%s: block submission panicked: %s", step, p)
			}
			if op.Via == 1 {
				ctx.Label("blk:via-AddBlock-header-cached")
			}
			if e != nil {
				ctx.Failf("%s: block %d, signed by all %d validators in force at that height, was rejected (header tip %d, block tip %d): %v",
					step, h, len(sets[h]), hdrTip, blkTip, e)
			}
			blkTip = h
			for j := h + 1; j <= hdrTip; j++ {
				if c.Blocks[j-1].NewVals != nil {
					aheadOverHandover = true // a block was committed while an announced hand-over lies between it and the header tip
				}
			}
		case "forgedblk":
			// the next block, same content, carrying another signer list (or none); its header may already be known to the node
			if blkTip >= hdrTip {
				continue // like "blk": only blocks whose (correctly signed) header the node already holds
			}
			h := blkTip + 1
			right := sets[h]
			signers := otherSigners(h, op)
			hdr := cloneHeader(blocks[h].Header)
			if len(signers) > 0 {
				lworld.SignHeader(hdr, signers)
			}
			fb := &types.Block{Header: hdr, Transactions: blocks[h].Transactions}
			rk := setKey(right)
			members := true
			for _, a := range signers {
				if !rk[world.PubHex(a)] {
					members = false
				}
			}
			wantAccept := members && len(signers) >= lworld.Quorum(len(right), true)
			known := h <= hdrTip
			var e error
			if p := ev.Catch(func() { e = commit(fb, op.Via) }); p != "" {
				ctx.Failf("%s: block submission panicked: %s", step, p)
			}
			grew := int(ch.Store.GetCurrentBlockHeight()) == h
			if grew && !wantAccept {
				ctx.Failf("%s: block %d carrying %d signatures of set variant %d (all members of the set in force: %v, quorum %d of %d) was COMMITTED via entry %d (err=%v; its correctly signed header known to the node: %v; header tip %d, block tip %d)",
					step, h, len(signers), op.Set, members, lworld.Quorum(len(right), true), len(right), op.Via, e, known, hdrTip, blkTip)
			}
			if !grew && wantAccept {
				ctx.Failf("%s: block %d signed by %d members of the set in force (quorum %d) was not committed via entry %d: %v", step, h, len(signers), lworld.Quorum(len(right), true), op.Via, e)
			}
			if grew {
				blkTip = h
				ctx.Label("forgedblk:equivalent-accepted")
			} else {
				ctx.NonTrivial()
				ctx.Label(fmt.Sprintf("forgedblk:rejected-although-header-cached:via%d", op.Via))
			}
		case "forged":
			if hdrTip >= K {
				continue
			}
			h := hdrTip + 1
			right := sets[h]
			var signers []*account.Account
			switch op.Set {
			case 0: // the set in force `Back` hand-overs earlier
				j, seen := h, 0
				for j > 1 && seen < op.Back {
					j--
					if c.Blocks[j-1].NewVals != nil {
						seen++
					}
				}
				signers = sets[j]
			case 1: // the set this or a later header announces
				signers = sets[K+1]
			case 2:
				for i := 0; i < len(right); i++ {
					signers = append(signers, world.Acct(44+i))
				}
			default:
				need := lworld.Quorum(len(right), true)
				signers = right[:need-1]
			}
			hdr := cloneHeader(blocks[h].Header)
			lworld.SignHeader(hdr, signers)
			rk := setKey(right)
			members := true
			for _, a := range signers {
				if !rk[world.PubHex(a)] {
					members = false
				}
			}
			wantAccept := members && len(signers) >= lworld.Quorum(len(right), true)
			var e error
			if p := ev.Catch(func() { e = ch.Store.AddHeader(hdr) }); p != "" {
				ctx.Failf("%s: AddHeader panicked: %s", step, p)
			}
			if e == nil && !wantAccept {
				ctx.Failf("%s: header %d signed by %d keys of set variant %d (all members of the set in force: %v, quorum %d of %d) was ACCEPTED (header tip %d, block tip %d)",
					step, h, len(signers), op.Set, members, lworld.Quorum(len(right), true), len(right), hdrTip, blkTip)
			}
			if e != nil && wantAccept {
				ctx.Failf("%s: header %d signed by %d members of the set in force (quorum %d) was rejected: %v", step, h, len(signers), lworld.Quorum(len(right), true), e)
			}
			if e == nil {
				// same content, another valid signer list: it is the prepared header as far as the chain goes
				hdrTip = h
				ctx.Label("forged:equivalent-accepted")
			} else {
				ctx.Label("forged:rejected")
			}
		}
		check(step)
	}
	if aheadOverHandover {
		ctx.NonTrivial()
		ctx.Label("block-committed-below-a-pending-hand-over")
	}
}

func TestC14Ahead(t *testing.T) {
	id := "C14"
	if v := os.Getenv("VERIF_PROP_ID"); v != "" { // development only (helper entry _C14ahead)
		id = v
	}
	ev.Drive(t, id,
		"cases (second unit): a prepared chain of 2..7 empty blocks with generated validator hand-overs, N=1..7, fed to the node as an interleaving of AddHeader (headers run ahead), "+
			"SubmitBlock of blocks whose header is known, and AddHeader of the next header signed by another set (an earlier set, a later set, foreign keys, one member short of the quorum); "+
			"oracle: prepared headers and blocks are accepted, a re-signed header is accepted iff all its signers are members of the set in force at ITS height and reach the quorum, and after every step the node's header-side and block-side "+
			"validator sets equal the model's sets for header tip+1 and block tip+1. non-trivial: a block was committed while an announced hand-over lies between it and the header tip; distinct by JSON of the case",
		genC14Ahead, runC14Ahead)
}
