package pledger

import (
	"fmt"
	"os"
	"sync"
	"testing"

	"github.com/polynetwork/poly/account"
	"github.com/polynetwork/poly/common"
	"github.com/polynetwork/poly/core/signature"
	"github.com/polynetwork/poly/core/types"
	"pgregory.net/rapid"

	"verif/harness/ev"
	"verif/harness/lworld"
	"verif/harness/world"
)

// ---------------------------------------------------------------------------------------------
// C14 Blocks need a signature quorum of the validators in force

type c14Signer struct {
	Who  int `json:"who"`  // index into the set in force (mod its size); >= 100: foreign pool account 40+(who-100)%20
	Kind int `json:"kind"` // 0 valid signature; 1 signature over another hash; 2 signed by a foreign key; 3 garbage bytes
	By   int `json:"by,omitempty"` // 0: the signature in this slot is made by this slot's key; k>0: by the key listed in slot (k-1) mod len
}

type c14Blk struct {
	Signers  []c14Signer `json:"signers"`
	Exact    int         `json:"exact"`   // -1: use Signers; k>=0: exactly k distinct members, valid signatures (threshold probing)
	DropSigs int         `json:"drop"`    // number of trailing signatures removed
	Reverse  bool        `json:"reverse"` // signatures listed in reverse order of the keys
	NewVals  []int       `json:"newvals"` // non-empty: header announces this validator set (pool indices)
	Path     string      `json:"path"`    // header | submit | addblock
}

type c14Case struct {
	N      int      `json:"n"`
	Regime string   `json:"regime"` // legacy-testnet | legacy-mainnet | current
	Blocks []c14Blk `json:"blocks"`
}

func genC14(t *rapid.T) c14Case {
	maxN := ev.Scale(12, 40)
	c := c14Case{N: rapid.IntRange(1, maxN).Draw(t, "n")}
	regimes := []string{"legacy-testnet", "legacy-mainnet"}
	if ev.Shard() == 0 {
		regimes = []string{"current", "current", "legacy-mainnet"}
	}
	c.Regime = rapid.SampledFrom(regimes).Draw(t, "regime")
	genSigner := rapid.Custom(func(t *rapid.T) c14Signer {
		who := rapid.IntRange(0, 40).Draw(t, "who")
		if rapid.IntRange(0, 9).Draw(t, "foreign") == 0 {
			who = 100 + rapid.IntRange(0, 19).Draw(t, "f")
		}
		kind := 0
		if rapid.IntRange(0, 5).Draw(t, "bad") == 0 {
			kind = rapid.IntRange(1, 3).Draw(t, "kind")
		}
		by := 0
		if rapid.IntRange(0, 3).Draw(t, "crossed") == 0 {
			by = rapid.IntRange(1, 12).Draw(t, "by") // a (valid) signature of ANOTHER listed signer sits in this slot
		}
		return c14Signer{Who: who, Kind: kind, By: by}
	})
	genBlk := rapid.Custom(func(t *rapid.T) c14Blk {
		b := c14Blk{Exact: -1, Path: rapid.SampledFrom([]string{"header", "submit", "addblock"}).Draw(t, "path")}
		switch rapid.IntRange(0, 3).Draw(t, "mode") {
		case 0, 1:
			b.Exact = rapid.IntRange(0, maxN+1).Draw(t, "exact")
		default:
			b.Signers = rapid.SliceOfN(genSigner, 0, maxN+2).Draw(t, "signers")
			if rapid.IntRange(0, 5).Draw(t, "dropq") == 0 {
				b.DropSigs = rapid.IntRange(1, 3).Draw(t, "drop")
			}
			b.Reverse = rapid.IntRange(0, 7).Draw(t, "rev") == 0
		}
		if rapid.IntRange(0, 3).Draw(t, "handover") == 0 {
			b.NewVals = rapid.SliceOfNDistinct(rapid.IntRange(0, 39), 1, maxN, func(i int) int { return i }).Draw(t, "newvals")
		}
		return b
	})
	c.Blocks = rapid.SliceOfN(genBlk, 1, 8).Draw(t, "blocks")
	return c
}

// one shared padded header index for the "current" regime (main net, header index > 20,000,000)
var (
	padOnce sync.Once
	padMap  map[uint32]common.Uint256
)

const padTo = 20000002

func paddedIndex() map[uint32]common.Uint256 {
	padOnce.Do(func() {
		padMap = make(map[uint32]common.Uint256, padTo+64)
		for h := uint32(0); h < padTo; h++ {
			padMap[h] = common.Uint256{1}
		}
	})
	return padMap
}

type sigSpec struct {
	acct   *account.Account // key listed as bookkeeper
	member bool
	valid  bool // signature verifies under acct over the header hash
}

func runC14(ctx *ev.Ctx, c c14Case) {
	netID := uint32(2)
	if c.Regime != "legacy-testnet" {
		netID = 1
	}
	dir := lworld.TempDir("c14")
	defer os.RemoveAll(dir)
	ch, err := lworld.Open(dir, c.N, netID)
	if err != nil {
		ctx.Failf("open ledger: %v", err)
	}
	defer ch.Close()
	legacy := c.Regime != "current"
	if !legacy {
		m := paddedIndex()
		// install the shared padded index, with this chain's genesis at height 0
		m[0] = ch.Genesis.Hash()
		ch.Store.VerifSetHeaderIndex(m)
		defer func() {
			for h := uint32(0); h < 64; h++ {
				m[h] = common.Uint256{1}
			}
			for h := uint32(padTo); h < padTo+64; h++ {
				delete(m, h)
			}
		}()
		if ch.Store.GetCurrentHeaderHeight() <= 20000000 {
			ctx.Failf("harness: padded header index too small")
		}
	}
	ctx.Label("regime:" + c.Regime)
	inForce := ch.Vals // model of the validator set in force (both tracks stay in step, see DESIGN C14)
	nearThreshold, handover := false, false
	headerStale := false // a hand-over was committed without going through AddHeader: the header track keeps the old set
	for bi, blk := range c.Blocks {
		n := len(inForce)
		need := lworld.Quorum(n, legacy)
		// ---- assemble the signer list
		var specs []sigSpec
		if blk.Exact >= 0 {
			k := blk.Exact
			if k > n {
				k = n
			}
			for i := 0; i < k; i++ {
				specs = append(specs, sigSpec{acct: inForce[i], member: true, valid: true})
			}
			if k >= need-1 && k <= need+1 {
				nearThreshold = true
			}
		} else {
			for _, s := range blk.Signers {
				sp := sigSpec{valid: s.Kind == 0}
				if s.Who >= 100 {
					sp.acct = world.Acct(40 + (s.Who-100)%20)
				} else {
					sp.acct = inForce[s.Who%n]
					sp.member = true
				}
				specs = append(specs, sp)
			}
		}
		var newVals []*account.Account
		for _, i := range blk.NewVals {
			newVals = append(newVals, world.Acct(i))
		}
		path := blk.Path
		if !legacy && path == "header" {
			path = "submit" // with the padded index the header track cannot be driven (height mismatch by construction)
		}
		if headerStale && path == "header" {
			// The node keeps separate validator sets for the header track and the block track; a hand-over committed through
			// SubmitBlock/AddBlock alone does not update the header track. The statement does not say what the header track
			// must do then, so the harness stops driving it (counted, not judged).
			path = "submit"
			ctx.Label("header-track-stale:skipped")
		}
		b := ch.Build(nil, lworld.BlockOpt{Signers: []*account.Account{}, NewVals: newVals})
		hdr := b.Header
		hash := hdr.Hash()
		other := common.Uint256{0xaa, byte(bi)}
		makerOf := make([]int, len(specs)) // makerOf[i]: index of the listed key under which signature i verifies, -1 if none
		for i, sp := range specs {
			var sig []byte
			kind := 0
			maker := i
			if blk.Exact < 0 {
				kind = blk.Signers[i].Kind
				if by := blk.Signers[i].By; by > 0 {
					maker = (by - 1) % len(specs)
				}
			}
			makerOf[i] = -1
			switch kind {
			case 0:
				sig, _ = signature.Sign(specs[maker].acct, hash[:])
				makerOf[i] = maker
			case 1:
				sig, _ = signature.Sign(specs[maker].acct, other[:])
			case 2:
				sig, _ = signature.Sign(world.Acct(63), hash[:])
			default:
				sig = []byte{1, 2, 3}
			}
			hdr.Bookkeepers = append(hdr.Bookkeepers, sp.acct.PublicKey)
			hdr.SigData = append(hdr.SigData, sig)
		}
		if blk.Reverse && len(hdr.SigData) > 1 {
			for i, j := 0, len(hdr.SigData)-1; i < j; i, j = i+1, j-1 {
				hdr.SigData[i], hdr.SigData[j] = hdr.SigData[j], hdr.SigData[i]
			}
		}
		if blk.DropSigs > 0 {
			d := blk.DropSigs
			if d > len(hdr.SigData) {
				d = len(hdr.SigData)
			}
			hdr.SigData = hdr.SigData[:len(hdr.SigData)-d]
		}
		// ---- reference verdict, from the statement
		distinctMembers := true
		seen := map[string]bool{}
		for _, sp := range specs {
			id := world.PubHex(sp.acct)
			if !sp.member || seen[id] {
				distinctMembers = false
			}
			seen[id] = true
		}
		// which signature (by position in SigData) is valid under which listed key: position p holds the signature made
		// for key index src(p)
		src := func(p int) int {
			if blk.Reverse && len(specs) > 1 {
				return len(specs) - 1 - p
			}
			return p
		}
		validKeys := map[string]bool{} // distinct listed keys having a valid signature anywhere in SigData
		for p := range hdr.SigData {
			if m := makerOf[src(p)]; m >= 0 {
				validKeys[world.PubHex(specs[m].acct)] = true
			}
		}
		leadingOK := len(hdr.SigData) >= need
		if leadingOK {
			used := map[string]bool{}
			for p := 0; p < need; p++ {
				m := makerOf[src(p)]
				if m < 0 {
					leadingOK = false
					break
				}
				id := world.PubHex(specs[m].acct)
				if used[id] {
					leadingOK = false
					break
				}
				used[id] = true
			}
		}
		verdict := "ambiguous"
		switch {
		case !distinctMembers || len(specs) < need || len(validKeys) < need:
			verdict = "reject"
		case leadingOK:
			verdict = "accept"
		}
		ctx.Label("verdict:" + verdict)
		// ---- run
		var accepted bool
		var runErr error
		if p := ev.Catch(func() {
			switch path {
			case "header":
				runErr = ch.Store.AddHeader(hdr)
				accepted = runErr == nil
				if accepted {
					// then commit the same block so both tracks stay in step
					res, e := ch.Store.ExecuteBlock(b)
					if e == nil {
						e = ch.Store.SubmitBlock(b, res)
					}
					if e != nil {
						ctx.Failf("block %d: header accepted but the same block rejected: %v", bi, e)
					}
				}
			case "submit":
				res, e := ch.Store.ExecuteBlock(b)
				if e != nil {
					ctx.Failf("block %d: ExecuteBlock of a well-formed block failed: %v", bi, e)
				}
				runErr = ch.Store.SubmitBlock(b, res)
				accepted = runErr == nil
			case "addblock":
				res, e := ch.Store.ExecuteBlock(b)
				if e != nil {
					ctx.Failf("block %d: ExecuteBlock of a well-formed block failed: %v", bi, e)
				}
				runErr = ch.Store.AddBlock(b, res.MerkleRoot)
				accepted = runErr == nil
			}
		}); p != "" {
			ctx.Failf("block %d: verification panicked: %s", bi, p)
		}
		committed := ch.Store.GetCurrentBlockHeight() == hdr.Height
		if accepted != committed {
			ctx.Failf("block %d: entry point returned err=%v but ledger height is %d", bi, runErr, ch.Store.GetCurrentBlockHeight())
		}
		desc := fmt.Sprintf("block %d (N=%d need=%d regime=%s path=%s listed=%d sigs=%d distinctMembers=%v validKeys=%d)",
			bi, n, need, c.Regime, path, len(specs), len(hdr.SigData), distinctMembers, len(validKeys))
		if verdict == "reject" && accepted {
			ctx.Failf("%s accepted although the statement requires rejection", desc)
		}
		if verdict == "accept" && !accepted {
			ctx.Failf("%s rejected although it carries a quorum of leading valid signatures by distinct members: %v", desc, runErr)
		}
		if accepted {
			ch.NoteCommitted(b)
			if newVals != nil {
				inForce = newVals
				handover = true
				ctx.Label("handover")
				if path != "header" {
					headerStale = true
				}
			}
			// the node's own view of the set in force must equal the model, on both tracks
			ht, bt := ch.Store.VerifPeerInfo()
			want := map[string]bool{}
			for _, a := range inForce {
				want[world.PubHex(a)] = true
			}
			if len(bt) != len(want) {
				ctx.Failf("%s: block-track validator set has %d members, model %d", desc, len(bt), len(want))
			}
			for id := range bt {
				if !want[id] {
					ctx.Failf("%s: block-track validator set contains %s not in the model", desc, id[:12])
				}
			}
			if legacy && path == "header" && !headerStale {
				if len(ht) != len(want) {
					ctx.Failf("%s: header-track validator set has %d members, model %d", desc, len(ht), len(want))
				}
			}
		} else {
			_, bt := ch.Store.VerifPeerInfo()
			if len(bt) != len(inForce) {
				ctx.Failf("%s: rejected block changed the validator set in force", desc)
			}
		}
		var _ *types.Block = b
	}
	if nearThreshold || handover {
		ctx.NonTrivial()
	}
}

func TestC14(t *testing.T) {
	ev.Drive(t, "C14",
		"cases: validator sets N=1..12 (thorough 40), regimes legacy (test net; main net <= 20,000,000) and current (main net with the header index padded past 20,000,000; shard 0 only), "+
			"1..8 blocks each with a generated bookkeeper/signature list (exact-k probing around the threshold, duplicates, foreign keys, wrong-hash/foreign/garbage signatures, dropped and reversed signatures), "+
			"optional validator hand-over, via AddHeader, SubmitBlock or AddBlock; reference verdict accept/reject/ambiguous computed from the statement. "+
			"non-trivial: signer count within 1 of the threshold, or a hand-over happened; distinct by JSON of the case",
		genC14, runC14)
}
