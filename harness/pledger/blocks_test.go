package pledger

import (
	"bytes"
	"encoding/json"
	"fmt"
	"os"
	"sort"
	"testing"

	"github.com/polynetwork/poly/common"
	"github.com/polynetwork/poly/core/payload"
	cstates "github.com/polynetwork/poly/core/states"
	"github.com/polynetwork/poly/core/store"
	scom "github.com/polynetwork/poly/core/store/common"
	"github.com/polynetwork/poly/core/types"
	"github.com/polynetwork/poly/merkle"
	"github.com/polynetwork/poly/native/event"
	"pgregory.net/rapid"

	"verif/harness/ev"
	"verif/harness/lworld"
	"verif/harness/world"
)

// Shared generator of chains whose blocks are lists of scripted probe transactions.

type scTx struct {
	Kind  string        `json:"kind"` // probe | wrongchain | nocontract | nomethod
	Steps []lworld.Step `json:"steps,omitempty"`
}

type scCase struct {
	N      int      `json:"n"`
	Blocks [][]scTx `json:"blocks"`
	// C08 only: the process stops at CrashPoint while block CrashBlock (1-based, 0 = never) is persisted and is restarted
	CrashBlock int    `json:"crash_block,omitempty"`
	CrashPoint string `json:"crash_point,omitempty"`
}

var scKeys = []string{"a", "b", "c", "ab", "", "\x05", "a\x00"}

func genScStep(depth int) *rapid.Generator[lworld.Step] {
	return rapid.Custom(func(t *rapid.T) lworld.Step {
		ops := []string{"put", "put", "del", "cross", "notify", "echo", "echo", "fail"}
		if depth < 2 {
			ops = append(ops, "call")
		}
		op := rapid.SampledFrom(ops).Draw(t, "op")
		st := lworld.Step{Op: op}
		switch op {
		case "put":
			st.K = []byte(rapid.SampledFrom(scKeys).Draw(t, "k"))
			st.V = rapid.SliceOfN(rapid.Byte(), 0, 5).Draw(t, "v")
		case "del", "echo":
			st.K = []byte(rapid.SampledFrom(scKeys).Draw(t, "k"))
		case "cross":
			st.V = rapid.SliceOfN(rapid.Byte(), 1, 40).Draw(t, "v") // K is assigned uniquely when the script is run
			if rapid.IntRange(0, 3).Draw(t, "long") == 0 {
				// record contents around power-of-two sizes (leaf hashing, var-bytes prefixes, buffers)
				n := rapid.SampledFrom([]int{63, 64, 65, 127, 128, 129, 252, 253, 255, 256, 257, 511, 512, 513, 1023, 1024, 1025}).Draw(t, "len")
				seed := rapid.Byte().Draw(t, "fill")
				st.V = make([]byte, n)
				for i := range st.V {
					st.V[i] = seed + byte(i*7)
				}
			}
		case "notify":
			st.V = rapid.SliceOfN(rapid.Byte(), 0, 4).Draw(t, "v")
		case "call":
			st.Sub = rapid.SliceOfN(genScStep(depth+1), 1, 4).Draw(t, "sub")
		}
		return st
	})
}

func genScTx(t *rapid.T) scTx {
	kind := rapid.SampledFrom([]string{"probe", "probe", "probe", "probe", "probe", "probe", "wrongchain", "nocontract", "nomethod"}).Draw(t, "kind")
	tx := scTx{Kind: kind}
	tx.Steps = rapid.SliceOfN(genScStep(0), 1, 10).Draw(t, "steps")
	return tx
}

func genSc(maxBlocks, maxTx int) func(t *rapid.T) scCase {
	return func(t *rapid.T) scCase {
		return scCase{
			N:      rapid.IntRange(1, 4).Draw(t, "n"),
			Blocks: rapid.SliceOfN(rapid.SliceOfN(rapid.Custom(genScTx), 0, maxTx), 1, maxBlocks).Draw(t, "blocks"),
		}
	}
}

// uniqCross gives every cross record a unique storage key (as the real request records have:
// they are keyed by chain id and transaction hash) and returns the rewritten steps.
func uniqCross(steps []lworld.Step, ctr *int) []lworld.Step {
	out := make([]lworld.Step, len(steps))
	for i, st := range steps {
		out[i] = st
		if st.Op == "cross" {
			*ctr++
			out[i].K = []byte(fmt.Sprintf("x%d", *ctr))
		}
		if len(st.Sub) > 0 {
			out[i].Sub = uniqCross(st.Sub, ctr)
		}
	}
	return out
}

func hasNested(steps []lworld.Step) bool {
	for _, st := range steps {
		if st.Op == "call" {
			return true
		}
	}
	return false
}

type scBlockRun struct {
	height  uint32
	block   *types.Block
	res     store.ExecuteResult
	models  []lworld.TxModel
	txs     []*types.Transaction
	steps   [][]lworld.Step
	written map[string][]byte // expected write set of the block: probe key -> value (nil = tombstone)
	nested  bool
}

func storageKey(k []byte) []byte {
	return append(append([]byte{byte(scom.ST_STORAGE)}, lworld.ProbeAddress[:]...), k...)
}

func writeSetMap(ws interface {
	ForEach(func(key, val []byte))
}) map[string][]byte {
	m := map[string][]byte{}
	ws.ForEach(func(k, v []byte) { m[string(k)] = append([]byte{}, v...) })
	return m
}

// buildScBlock turns the scripted transactions of one block into real signed transactions and the
// reference model of their effects.
func buildScBlock(ch *lworld.Chain, state map[string][]byte, txs []scTx, ctr *int) *scBlockRun {
	r := &scBlockRun{written: map[string][]byte{}}
	for _, tx := range txs {
		steps := uniqCross(tx.Steps, ctr)
		var t *types.Transaction
		var m lworld.TxModel
		switch tx.Kind {
		case "probe":
			t = ch.SignedTx(lworld.ProbeAddress, "run", lworld.EncodeScript(steps), nil)
			m = lworld.Interp(state, steps)
			if hasNested(steps) {
				r.nested = true
			}
		case "wrongchain":
			t = lworld.MakeSignedTx(ch.Genesis.Header.ChainID+77, uint32(*ctr)+9000, lworld.ProbeAddress, "run", lworld.EncodeScript(steps), nil)
			*ctr++
		case "nocontract":
			t = ch.SignedTx(common.Address{0xde, 0xad}, "run", lworld.EncodeScript(steps), nil)
		case "nomethod":
			t = ch.SignedTx(lworld.ProbeAddress, "nosuchmethod", lworld.EncodeScript(steps), nil)
		}
		for k, v := range m.Touched {
			r.written[k] = v
		}
		r.txs = append(r.txs, t)
		r.models = append(r.models, m)
		r.steps = append(r.steps, steps)
	}
	return r
}

func notifyPayloads(n *event.ExecuteNotify) []string {
	var out []string
	for _, e := range n.Notify {
		if st, ok := e.States.([]interface{}); ok && len(st) == 2 {
			out = append(out, fmt.Sprint(st[1]))
		} else {
			out = append(out, fmt.Sprintf("%v", e.States))
		}
	}
	return out
}

// ---------------------------------------------------------------------------------------------
// C15 Transaction execution is atomic

func runC15(ctx *ev.Ctx, c scCase) {
	dir := lworld.TempDir("c15")
	defer os.RemoveAll(dir)
	ch, err := lworld.Open(dir, c.N, 2)
	if err != nil {
		ctx.Failf("open ledger: %v", err)
	}
	defer ch.Close()
	state := map[string][]byte{}
	ctr := 0
	for bi, txs := range c.Blocks {
		r := buildScBlock(ch, state, txs, &ctr)
		b := lworld.Roundtrip(ch.Build(r.txs, lworld.BlockOpt{}))
		var res store.ExecuteResult
		if p := ev.Catch(func() { res, err = ch.Store.ExecuteBlock(b) }); p != "" {
			ctx.Failf("block %d: ExecuteBlock panicked: %s", bi+1, p)
		}
		if err != nil {
			ctx.Failf("block %d: ExecuteBlock: %v", bi+1, err)
		}
		checkExecResult(ctx, bi+1, r, res)
		if err := ch.Store.SubmitBlock(b, res); err != nil {
			ctx.Failf("block %d: SubmitBlock: %v", bi+1, err)
		}
		ch.NoteCommitted(b)
		// committed view: storage equals the model, events per tx as recorded
		for k, v := range state {
			got, err := ch.Ledger.GetStorageItem(lworld.ProbeAddress, []byte(k))
			if err != nil || !bytes.Equal(got, v) {
				ctx.Failf("block %d: committed storage of key %q = %x (err %v), model %x", bi+1, k, got, err, v)
			}
		}
		for k, v := range r.written {
			if v == nil {
				if got, err := ch.Ledger.GetStorageItem(lworld.ProbeAddress, []byte(k)); err == nil {
					ctx.Failf("block %d: deleted key %q still readable after commit: %x", bi+1, k, got)
				}
			}
		}
		for i, tx := range r.txs {
			n, err := ch.Store.GetEventNotifyByTx(tx.Hash())
			if err != nil || n == nil {
				ctx.Failf("block %d tx %d: no stored execution notify: %v", bi+1, i, err)
			}
			if (n.State == event.CONTRACT_STATE_SUCCESS) != r.models[i].OK {
				ctx.Failf("block %d tx %d: stored state %d, model ok=%v", bi+1, i, n.State, r.models[i].OK)
			}
		}
		// non-trivial: a failing tx that had already written and emitted a record, followed by a tx echoing a key it wrote
		for i := range r.txs {
			if r.models[i].OK || txs[i].Kind != "probe" {
				continue
			}
			wrote := map[string]bool{}
			crossed := false
			collectEffects(r.steps[i], wrote, &crossed)
			if len(wrote) == 0 || !crossed {
				continue
			}
			for j := i + 1; j < len(r.txs); j++ {
				if readsAny(r.steps[j], wrote) {
					ctx.NonTrivial()
					ctx.Label("failed-writer-then-reader")
				}
			}
		}
	}
}

func collectEffects(steps []lworld.Step, wrote map[string]bool, crossed *bool) {
	for _, st := range steps {
		switch st.Op {
		case "put", "del":
			wrote[string(st.K)] = true
		case "cross":
			*crossed = true
		case "call":
			collectEffects(st.Sub, wrote, crossed)
		case "fail":
			return
		}
	}
}

func readsAny(steps []lworld.Step, keys map[string]bool) bool {
	for _, st := range steps {
		if st.Op == "echo" && keys[string(st.K)] {
			return true
		}
		if st.Op == "call" && readsAny(st.Sub, keys) {
			return true
		}
	}
	return false
}

// checkExecResult compares everything the block execution reported with the reference model.
func checkExecResult(ctx *ev.Ctx, height int, r *scBlockRun, res store.ExecuteResult) {
	if len(res.Notify) != len(r.txs) {
		ctx.Failf("block %d: %d execution notifies for %d transactions", height, len(res.Notify), len(r.txs))
	}
	var wantCross []common.Uint256
	for i, m := range r.models {
		n := res.Notify[i]
		if n.TxHash != r.txs[i].Hash() {
			ctx.Failf("block %d tx %d: notify carries another tx hash", height, i)
		}
		if m.OK {
			ctx.Label("tx:ok")
			if n.State != event.CONTRACT_STATE_SUCCESS {
				ctx.Failf("block %d tx %d: script succeeds in the model but state is %d", height, i, n.State)
			}
			got := notifyPayloads(n)
			if fmt.Sprint(got) != fmt.Sprint(m.Notify) {
				ctx.Failf("block %d tx %d: events %v, model %v", height, i, got, m.Notify)
			}
			for _, rec := range m.Cross {
				wantCross = append(wantCross, lworld.RefLeafHash(rec))
			}
		} else {
			ctx.Label("tx:fail")
			if n.State != event.CONTRACT_STATE_FAIL {
				ctx.Failf("block %d tx %d: script fails in the model but state is %d", height, i, n.State)
			}
			if len(n.Notify) != 0 {
				ctx.Failf("block %d tx %d: failed transaction left %d events", height, i, len(n.Notify))
			}
		}
	}
	// cross records: exactly those of the successful transactions
	got := append([]common.Uint256{}, res.CrossHashes...)
	if len(got) != len(wantCross) {
		ctx.Failf("block %d: %d cross-chain records committed, model %d", height, len(got), len(wantCross))
	}
	if !r.nested {
		for i := range got {
			if got[i] != wantCross[i] {
				ctx.Failf("block %d: cross-chain record %d differs from the model (order of emission)", height, i)
			}
		}
	} else {
		// with nested calls the runtime lists the inner call's records before the caller's earlier ones; the
		// statement fixes the set, not the order: compare as multisets
		a, b := sortHashes(got), sortHashes(wantCross)
		for i := range a {
			if a[i] != b[i] {
				ctx.Failf("block %d: multiset of cross-chain records differs from the model", height)
			}
		}
	}
	wantRoot := common.UINT256_EMPTY
	if len(got) > 0 {
		wantRoot = lworld.MTHLeafHashes(got)
	}
	if res.CrossStatesRoot != wantRoot {
		ctx.Failf("block %d: cross-state root is not the RFC 6962 root of the committed records", height)
	}
	// write set: exactly the net writes of the successful transactions
	ws := writeSetMap(res.WriteSet)
	for k, v := range r.written {
		gv, ok := ws[string(storageKey([]byte(k)))]
		if !ok {
			ctx.Failf("block %d: key %q written by a successful transaction is missing from the write set", height, k)
		}
		if v == nil {
			if len(gv) != 0 {
				ctx.Failf("block %d: key %q deleted in the model but write set holds %x", height, k, gv)
			}
		} else if !bytes.Equal(gv, cstates.GenRawStorageItem(v)) {
			ctx.Failf("block %d: key %q: write set value %x, model %x", height, k, gv, v)
		}
	}
	for k := range ws {
		pk := []byte(k)
		pref := storageKey(nil)
		if !bytes.HasPrefix(pk, pref) {
			ctx.Failf("block %d: write set holds key %x outside the probe contract's storage namespace", height, pk)
		}
		if _, ok := r.written[string(pk[len(pref):])]; !ok {
			ctx.Failf("block %d: write set holds key %q that no successful transaction wrote (leak from a failed transaction?)", height, pk[len(pref):])
		}
	}
}

func sortHashes(h []common.Uint256) []common.Uint256 {
	o := append([]common.Uint256{}, h...)
	sort.Slice(o, func(i, j int) bool { return bytes.Compare(o[i][:], o[j][:]) < 0 })
	return o
}

func TestC15(t *testing.T) {
	ev.Drive(t, "C15",
		"cases: chains of 1..3 blocks of 0..8 transactions on a real LedgerStore; each transaction is a probe script of 1..10 steps (put/del/echo/cross record/event/nested call up to depth 2/fail at any position) "+
			"or a transaction with a foreign chain id / unknown contract / unknown method; oracle: reference interpreter over a plain map (all-or-nothing per transaction): "+
			"execution notifies and events, cross-chain records, cross-state root, the block write set (exact key set and values) and committed storage must equal the model. "+
			"non-trivial: a failing transaction that had already written a key and emitted a record, followed in the same block by a transaction reading that key; distinct by JSON of the chain",
		genSc(3, 8), runC15)
}

// ---------------------------------------------------------------------------------------------
// C08 Proofs served to relayers verify against committed roots

func runC08(ctx *ev.Ctx, c scCase) {
	dir := lworld.TempDir("c08")
	defer os.RemoveAll(dir)
	var ch *lworld.Chain
	var err error
	if c.CrashBlock == -1 {
		// the very first start stops while genesis is persisted; the node starts again on the same directory
		ch, err = lworld.OpenAfterInterruptedGenesis(dir, c.N, 2, c.CrashPoint)
		ctx.Label("genesis-interrupted:" + c.CrashPoint)
	} else {
		ch, err = lworld.Open(dir, c.N, 2)
	}
	if err != nil {
		ctx.Failf("open ledger: %v", err)
	}
	defer ch.Close()
	state := map[string][]byte{}
	ctr := 0
	type rec struct {
		height uint32
		key    []byte
		val    []byte
	}
	var recs []rec
	perBlock := map[uint32]int{}
	for bi, txs := range c.Blocks {
		r := buildScBlock(ch, state, txs, &ctr)
		b := lworld.Roundtrip(ch.Build(r.txs, lworld.BlockOpt{}))
		if c.CrashBlock == bi+1 {
			// a committed block is a committed block whether it was persisted in one go or completed by crash recovery
			held, err := ch.CrashAt(b, c.CrashPoint)
			if err != nil {
				ctx.Failf("block %d: stop at %s and restart: %v", bi+1, c.CrashPoint, err)
			}
			ctx.Label("crash:" + c.CrashPoint)
			if held {
				ch.NoteCommitted(b)
			} else if err := ch.Commit(b); err != nil {
				ctx.Failf("block %d rejected after the restart: %v", bi+1, err)
			}
		} else if err := ch.Commit(b); err != nil {
			ctx.Failf("block %d rejected: %v", bi+1, err)
		}
		for i, m := range r.models {
			if !m.OK {
				continue
			}
			var walk func(steps []lworld.Step)
			walk = func(steps []lworld.Step) {
				for _, st := range steps {
					if st.Op == "cross" {
						recs = append(recs, rec{b.Header.Height, st.K, st.V})
						perBlock[b.Header.Height]++
					}
					if st.Op == "call" {
						walk(st.Sub)
					}
				}
			}
			walk(r.steps[i])
		}
	}
	tip := ch.Store.GetCurrentBlockHeight()
	// (1) every record of every committed block has a proof that verifies against that block's cross-state root
	for _, rc := range recs {
		root, err := ch.Ledger.GetCrossStateRoot(rc.height)
		if err != nil {
			ctx.Failf("GetCrossStateRoot(%d): %v", rc.height, err)
		}
		key := append(append([]byte{}, lworld.ProbeAddress[:]...), rc.key...)
		var proof []byte
		if p := ev.Catch(func() { proof, err = ch.Ledger.GetCrossStatesProof(rc.height, key) }); p != "" {
			ctx.Failf("GetCrossStatesProof(%d, %q) panicked: %s", rc.height, rc.key, p)
		}
		if err != nil {
			ctx.Failf("no proof served for record %q of block %d (%d records in block): %v", rc.key, rc.height, perBlock[rc.height], err)
		}
		val, err := merkle.MerkleProve(proof, root[:])
		if err != nil {
			ctx.Failf("proof for record %q of block %d (%d records) does not verify against the block's cross-state root: %v", rc.key, rc.height, perBlock[rc.height], err)
		}
		// a destination chain verifies with its own hashing, not with this node's helpers
		if rv, rerr := lworld.RefVerifyPath(proof, root); rerr != nil || !bytes.Equal(rv, rc.val) {
			ctx.Failf("proof for record %q (%d bytes) of block %d verifies with the node's own MerkleProve but not with an independent RFC 6962 verifier: %v", rc.key, len(rc.val), rc.height, rerr)
		}
		if !bytes.Equal(val, rc.val) {
			ctx.Failf("proof for record %q of block %d yields %x, stored record is %x", rc.key, rc.height, val, rc.val)
		}
		// the header of the next block carries this root (as the consensus builds it)
		if rc.height < tip {
			hdr, _ := ch.Ledger.GetHeaderByHeight(rc.height + 1)
			if hdr == nil || hdr.CrossStateRoot != root {
				ctx.Failf("header %d does not carry the cross-state root of block %d", rc.height+1, rc.height)
			}
			if _, err := merkle.MerkleProve(proof, hdr.CrossStateRoot[:]); err != nil {
				ctx.Failf("proof for record of block %d does not verify against header %d: %v", rc.height, rc.height+1, err)
			}
		}
	}
	for h := uint32(1); h <= tip; h++ {
		root, _ := ch.Ledger.GetCrossStateRoot(h)
		if perBlock[h] == 0 && root != common.UINT256_EMPTY {
			ctx.Failf("block %d produced no records but has cross-state root %x", h, root[:6])
		}
		if perBlock[h] >= 3 {
			ctx.NonTrivial()
			ctx.Label("block-with>=3-records")
		}
	}
	// (2) block-inclusion proofs for all h < r <= tip
	for r := uint32(1); r <= tip; r++ {
		hr, err := ch.Ledger.GetHeaderByHeight(r)
		if err != nil {
			ctx.Failf("GetHeaderByHeight(%d): %v", r, err)
		}
		if hr.BlockRoot != lworld.RefBlockRoot(ch.Blocks, r) {
			ctx.Failf("header %d block root differs from the RFC 6962 reference", r)
		}
		for h := uint32(0); h < r; h++ {
			var proof []byte
			if p := ev.Catch(func() { proof, err = ch.Ledger.GetMerkleProof(h, r) }); p != "" {
				ctx.Failf("GetMerkleProof(%d,%d) panicked: %s", h, r, p)
			}
			if err != nil {
				ctx.Failf("GetMerkleProof(%d,%d): %v", h, r, err)
			}
			val, err := merkle.MerkleProve(proof, hr.BlockRoot[:])
			if err == nil {
				val, err = lworld.RefVerifyPath(proof, hr.BlockRoot) // and with an independent verifier (own hashing)
			}
			if err != nil {
				ctx.Failf("block-inclusion proof (h=%d, r=%d) does not verify against header %d block root: %v", h, r, r, err)
			}
			want := ch.Blocks[h].Hash()
			if !bytes.Equal(val, want[:]) {
				ctx.Failf("block-inclusion proof (h=%d, r=%d) yields %x, block hash is %x", h, r, val, want[:])
			}
			if r-h >= 2 {
				ctx.NonTrivial()
			}
		}
	}
}

func TestC08(t *testing.T) {
	ev.Drive(t, "C08",
		"cases: chains of 2..8 (thorough 12) committed blocks of 0..6 scripted transactions emitting 0..many cross-chain records (each stored under a unique key, like real request records) mixed with failing transactions; "+
			"oracle: for every record of every block the served proof (Ledger.GetCrossStatesProof) verifies with merkle.MerkleProve against that block's cross-state root (and the next header's field) and yields exactly the stored record; "+
			"blocks without records have the zero root; for ALL h < r <= tip Ledger.GetMerkleProof(h,r) verifies against header r's block root (itself compared with an RFC 6962 reference) and yields block h's hash. "+
			"in a third of the chains one block is persisted with a process stop at a generated persistence point and completed by the restart (crash recovery), and must be served like any other block. "+
			"non-trivial: a block with >= 3 records, or r-h >= 2; distinct by JSON of the chain",
		func(t *rapid.T) scCase {
			c := genSc(ev.Scale(8, 12), 6)(t)
			if len(c.Blocks) < 2 {
				c.Blocks = append(c.Blocks, c.Blocks[0])
			}
			switch rapid.IntRange(0, 5).Draw(t, "crash") {
			case 0, 1:
				c.CrashBlock = rapid.IntRange(1, len(c.Blocks)).Draw(t, "crash_block")
				c.CrashPoint = rapid.SampledFrom(c12Points).Draw(t, "crash_point")
			case 2:
				c.CrashBlock = -1
				c.CrashPoint = rapid.SampledFrom(append([]string{"genesis-before-version"}, c12Points...)).Draw(t, "genesis_crash_point")
			}
			return c
		}, runC08)
}

// ---------------------------------------------------------------------------------------------
// helpers shared with C16/C17

func execResultDigest(res store.ExecuteResult) string {
	type kv struct{ K, V string }
	var ws []kv
	res.WriteSet.ForEach(func(k, v []byte) { ws = append(ws, kv{fmt.Sprintf("%x", k), fmt.Sprintf("%x", v)}) })
	n, _ := json.Marshal(res.Notify)
	return fmt.Sprintf("hash=%x root=%x cross=%x crossroot=%x ws=%v notify=%s", res.Hash, res.MerkleRoot, res.CrossHashes, res.CrossStatesRoot, ws, n)
}

var _ = payload.InvokeCode{}
var _ = world.PubHex
