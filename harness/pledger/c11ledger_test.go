package pledger

import (
	"bytes"
	"fmt"
	"os"
	"sort"
	"testing"

	"github.com/polynetwork/poly/core/types"
	"pgregory.net/rapid"

	"verif/harness/ev"
	"verif/harness/lworld"
)

// ---------------------------------------------------------------------------------------------
// C11, ledger unit: two BLOCKS with the same net effect have the same digest and write set.
//
// pstore.TestC11 judges the overlay and the state store directly; this unit goes through the real
// block executor (per-transaction cache, commit into the block overlay, failed transactions rolled
// back), which is where "the write set recorded for a block" is produced.
//
// Case: a plan gives every key of a small key space a final operation (untouched / put v / delete).
//   block A (canonical): one transaction per touched key performing just the final operation;
//   block B (noisy):     the same final operations, each preceded by generated intermediate puts and
//                        deletes of that key, the steps of different keys interleaved and grouped into
//                        transactions of 1..4 steps, plus transactions that write arbitrary keys and
//                        then FAIL (rolled back: they must not count as writes).
// Both are executed (not committed) on the same committed prior state, in which some of the keys
// already hold values. Oracle: digest, write set and state root of A and B are equal, B executed
// twice gives the same result, and the write set is exactly the plan.

type c11Key struct {
	Final string `json:"final"` // none | put | del | same (put of the value the prelude committed for this key)
	V     ev.B   `json:"v,omitempty"`
	Noise []int  `json:"noise,omitempty"` // intermediate operations before the final one: 0 = delete, k>0 = put of value k
}

type c11Fail struct {
	Pos    int   `json:"pos"`    // position among the transactions of block B
	Writes []int `json:"writes"` // key*8 + value (value 0 = delete)
}

type c11lCase struct {
	N       int       `json:"n"`
	Prelude []int     `json:"prelude"` // keys that hold a value in the committed prior state
	Keys    []c11Key  `json:"keys"`
	Order   []int     `json:"order"` // interleaving choices
	Group   []int     `json:"group"` // transaction sizes
	Fails   []c11Fail `json:"fails"`
}

func genC11Ledger(t *rapid.T) c11lCase {
	c := c11lCase{N: rapid.IntRange(1, 4).Draw(t, "n")}
	c.Prelude = rapid.SliceOfNDistinct(rapid.IntRange(0, 5), 0, 4, func(i int) int { return i }).Draw(t, "prelude")
	genKey := rapid.Custom(func(t *rapid.T) c11Key {
		k := c11Key{Final: rapid.SampledFrom([]string{"none", "put", "put", "del", "same"}).Draw(t, "final")}
		if k.Final == "put" {
			k.V = rapid.SliceOfN(rapid.Byte(), 0, 3).Draw(t, "v") // the empty value is a legal (if odd) put
		}
		if k.Final != "none" {
			k.Noise = rapid.SliceOfN(rapid.IntRange(0, 3), 0, 3).Draw(t, "noise")
		}
		return k
	})
	c.Keys = rapid.SliceOfN(genKey, 6, 6).Draw(t, "keys")
	c.Order = rapid.SliceOfN(rapid.IntRange(0, 1000), 24, 24).Draw(t, "order")
	c.Group = rapid.SliceOfN(rapid.IntRange(1, 4), 24, 24).Draw(t, "group")
	c.Fails = rapid.SliceOfN(rapid.Custom(func(t *rapid.T) c11Fail {
		return c11Fail{Pos: rapid.IntRange(0, 24).Draw(t, "pos"), Writes: rapid.SliceOfN(rapid.IntRange(0, 47), 1, 3).Draw(t, "writes")}
	}), 0, 3).Draw(t, "fails")
	return c
}

func c11KeyName(i int) []byte { return []byte(fmt.Sprintf("c11k%d", i)) }

func runC11Ledger(ctx *ev.Ctx, c c11lCase) {
	dir := lworld.TempDir("c11l")
	defer os.RemoveAll(dir)
	ch, err := lworld.Open(dir, c.N, 2)
	if err != nil {
		ctx.Failf("open ledger: %v", err)
	}
	defer ch.Close()
	tx := func(steps []lworld.Step) *types.Transaction {
		return ch.SignedTx(lworld.ProbeAddress, "run", lworld.EncodeScript(steps), nil)
	}
	// committed prior state
	var pre []lworld.Step
	for _, k := range c.Prelude {
		pre = append(pre, lworld.Step{Op: "put", K: c11KeyName(k), V: []byte{0xee, byte(k)}})
	}
	if len(pre) > 0 {
		if err := ch.Commit(lworld.Roundtrip(ch.Build([]*types.Transaction{tx(pre)}, lworld.BlockOpt{}))); err != nil {
			ctx.Failf("prelude block: %v", err)
		}
	}
	final := func(i int) lworld.Step {
		if c.Keys[i].Final == "del" {
			return lworld.Step{Op: "del", K: c11KeyName(i)}
		}
		if c.Keys[i].Final == "same" {
			return lworld.Step{Op: "put", K: c11KeyName(i), V: []byte{0xee, byte(i)}}
		}
		return lworld.Step{Op: "put", K: c11KeyName(i), V: c.Keys[i].V}
	}
	// ---- block A
	var txA []*types.Transaction
	touched := 0
	for i, k := range c.Keys {
		if k.Final != "none" {
			txA = append(txA, tx([]lworld.Step{final(i)}))
			touched++
		}
	}
	// ---- block B: per-key step queues, interleaved
	queues := make([][]lworld.Step, len(c.Keys))
	noisy := false
	for i, k := range c.Keys {
		if k.Final == "none" {
			continue
		}
		for _, n := range k.Noise {
			noisy = true
			if n == 0 {
				queues[i] = append(queues[i], lworld.Step{Op: "del", K: c11KeyName(i)})
			} else {
				queues[i] = append(queues[i], lworld.Step{Op: "put", K: c11KeyName(i), V: []byte{0xaa, byte(n)}})
			}
		}
		queues[i] = append(queues[i], final(i))
	}
	var flat []lworld.Step
	for oi := 0; ; oi++ {
		var live []int
		for i := range queues {
			if len(queues[i]) > 0 {
				live = append(live, i)
			}
		}
		if len(live) == 0 {
			break
		}
		i := live[c.Order[oi%len(c.Order)]%len(live)]
		flat = append(flat, queues[i][0])
		queues[i] = queues[i][1:]
	}
	var txB []*types.Transaction
	for gi := 0; len(flat) > 0; gi++ {
		n := c.Group[gi%len(c.Group)]
		if n > len(flat) {
			n = len(flat)
		}
		txB = append(txB, tx(flat[:n]))
		flat = flat[n:]
	}
	failing := 0
	for _, f := range c.Fails {
		var steps []lworld.Step
		for _, w := range f.Writes {
			k, v := w/8, w%8
			if v == 0 {
				steps = append(steps, lworld.Step{Op: "del", K: c11KeyName(k)})
			} else {
				steps = append(steps, lworld.Step{Op: "put", K: c11KeyName(k), V: []byte{0xbb, byte(v)}})
			}
		}
		steps = append(steps, lworld.Step{Op: "fail"})
		pos := f.Pos % (len(txB) + 1)
		txB = append(txB[:pos], append([]*types.Transaction{tx(steps)}, txB[pos:]...)...)
		failing++
	}
	if len(txA) == 0 && len(txB) == 0 {
		ctx.Label("empty-plan")
		return
	}
	bA := lworld.Roundtrip(ch.Build(txA, lworld.BlockOpt{}))
	bB := lworld.Roundtrip(ch.Build(txB, lworld.BlockOpt{}))
	rA, err := ch.Store.ExecuteBlock(bA)
	if err != nil {
		ctx.Failf("executing the canonical block: %v", err)
	}
	rB, err := ch.Store.ExecuteBlock(bB)
	if err != nil {
		ctx.Failf("executing the noisy block: %v", err)
	}
	rB2, err := ch.Store.ExecuteBlock(bB)
	if err != nil {
		ctx.Failf("executing the noisy block again: %v", err)
	}
	wsA, wsB, wsB2 := writeSetMap(rA.WriteSet), writeSetMap(rB.WriteSet), writeSetMap(rB2.WriteSet)
	show := func(m map[string][]byte) string {
		var ks []string
		for k := range m {
			ks = append(ks, k)
		}
		sort.Strings(ks)
		s := ""
		for _, k := range ks {
			i := bytes.Index([]byte(k), []byte("c11k"))
			name := fmt.Sprintf("%x", k)
			if i >= 0 {
				name = k[i:]
			}
			s += fmt.Sprintf(" %s=%x", name, m[k])
		}
		return s
	}
	same := func(a, b map[string][]byte) bool {
		if len(a) != len(b) {
			return false
		}
		for k, v := range a {
			w, ok := b[k]
			if !ok || !bytes.Equal(v, w) {
				return false
			}
		}
		return true
	}
	desc := fmt.Sprintf("canonical block: %d transactions; noisy block: %d transactions of which %d fail after writing", len(txA), len(txB), failing)
	if len(wsA) != touched {
		ctx.Failf("%s: the canonical block's write set has %d keys, the plan touches %d:%s", desc, len(wsA), touched, show(wsA))
	}
	if !same(wsA, wsB) {
		ctx.Failf("%s: write sets differ although every written key ends with the same value:\n canonical:%s\n noisy:    %s", desc, show(wsA), show(wsB))
	}
	if rA.Hash != rB.Hash {
		ctx.Failf("%s: state-change digests differ (%x vs %x) although the write sets are equal:%s", desc, rA.Hash[:8], rB.Hash[:8], show(wsA))
	}
	if rA.MerkleRoot != rB.MerkleRoot {
		ctx.Failf("%s: state roots differ (%x vs %x) although the digests are equal", desc, rA.MerkleRoot[:8], rB.MerkleRoot[:8])
	}
	if !same(wsB, wsB2) || rB.Hash != rB2.Hash {
		ctx.Failf("%s: executing the noisy block twice on the same state gave different results", desc)
	}
	if noisy || failing > 0 {
		ctx.NonTrivial()
	}
	if failing > 0 {
		ctx.Label("with-failing-tx")
	}
	if noisy {
		ctx.Label("with-intermediate-writes")
	}
}

func TestC11Ledger(t *testing.T) {
	id := "C11"
	if v := os.Getenv("VERIF_PROP_ID"); v != "" { // development only (helper entry _C11ledger)
		id = v
	}
	ev.Drive(t, id,
		"cases (ledger unit): a plan of final operations (untouched / put / delete) over 6 keys, some already holding committed values; a canonical block performing just the final operations and a noisy block with the same net effect "+
			"(intermediate puts and deletes, interleaved and regrouped into transactions, plus transactions that write and then fail) are executed by the real block executor on the same state; "+
			"oracle: equal write set, digest and state root, the write set is exactly the plan, repeated execution agrees. non-trivial: the noisy block has intermediate writes or a failing transaction; distinct by JSON of the case",
		genC11Ledger, runC11Ledger)
}
