package pledger

import (
	"bytes"
	"fmt"
	"os"
	"sync"
	"testing"

	"github.com/polynetwork/poly/common"
	scom "github.com/polynetwork/poly/core/store/common"
	"github.com/polynetwork/poly/core/store"
	"github.com/polynetwork/poly/core/types"
	"github.com/polynetwork/poly/native"
	"github.com/polynetwork/poly/native/event"
	"pgregory.net/rapid"

	"verif/harness/ev"
	"verif/harness/lworld"
	"verif/harness/world"
)

// chains of blocks of real governance transactions (peer pool edits, approvals, side-chain and relayer
// requests, epoch changes) mixed with probe scripts

type govCase struct {
	N      int              `json:"n"`
	Blocks [][]lworld.GovOp `json:"blocks"`
}

func genGovOp(t *rapid.T) lworld.GovOp {
	op := rapid.SampledFrom([]string{"regcand", "approvecand", "approvecand", "approvecand", "black", "white", "quit", "commit",
		"regchain", "approvechain", "approvechain", "regrelayer", "approverelayer", "approverelayer", "probe"}).Draw(t, "op")
	o := lworld.GovOp{Op: op}
	o.A = rapid.SampledFrom([]int{0, 0, 0, 0, 1, 1}).Draw(t, "a")
	if (op == "black" || op == "white" || op == "quit") && rapid.Bool().Draw(t, "validator-target") {
		o.A = 100 + rapid.IntRange(0, 6).Draw(t, "va")
	}
	o.V = rapid.IntRange(0, 6).Draw(t, "v")
	o.ID = uint64(rapid.SampledFrom([]int{0, 0, 0, 1}).Draw(t, "id"))
	o.R = uint64(rapid.IntRange(0, 23).Draw(t, "r"))
	o.L = rapid.IntRange(0, 3).Draw(t, "l")
	if op == "probe" {
		o.Steps = rapid.SliceOfN(genScStep(1), 1, 5).Draw(t, "steps")
	}
	if rapid.IntRange(0, 11).Draw(t, "wrongsigner") == 0 {
		o.Signer = rapid.IntRange(1, 60).Draw(t, "signer")
	}
	return o
}

func genGov(maxBlocks, maxTx int) func(t *rapid.T) govCase {
	return func(t *rapid.T) govCase {
		return govCase{
			N:      rapid.IntRange(4, 7).Draw(t, "n"),
			Blocks: rapid.SliceOfN(rapid.SliceOfN(rapid.Custom(genGovOp), 3, maxTx), 1, maxBlocks).Draw(t, "blocks"),
		}
	}
}

func govBlockTxs(ch *lworld.Chain, ops []lworld.GovOp) []*types.Transaction {
	var txs []*types.Transaction
	for _, o := range ops {
		txs = append(txs, ch.GovTx(o))
	}
	return txs
}

// ---------------------------------------------------------------------------------------------
// C16 (part A) Block execution is deterministic: same block, same prior state => same result

func runC16(ctx *ev.Ctx, c govCase) {
	dir := lworld.TempDir("c16")
	defer os.RemoveAll(dir)
	ch, err := lworld.Open(dir, c.N, 2)
	if err != nil {
		ctx.Failf("open ledger: %v", err)
	}
	defer ch.Close()
	reps := ev.Scale(8, 16)
	for bi, ops := range c.Blocks {
		b := lworld.Roundtrip(ch.Build(govBlockTxs(ch, ops), lworld.BlockOpt{}))
		var first string
		var firstRes store.ExecuteResult
		// scheduling independence: RPC pre-executions run concurrently with block execution on a real node
		stop := make(chan struct{})
		done := make(chan struct{})
		var stopOnce sync.Once
		stopPre := func() { stopOnce.Do(func() { close(stop); <-done }) }
		defer stopPre() // also on an oracle failure: the goroutine must be gone before the ledger is closed
		if bi%2 == 0 && len(b.Transactions) > 0 {
			ctx.Label("concurrent-preexec")
			st := ch.Store
			go func() {
				defer close(done)
				defer func() { recover() }()
				for i := 0; ; i++ {
					select {
					case <-stop:
						return
					default:
					}
					st.PreExecuteContract(b.Transactions[i%len(b.Transactions)])
				}
			}()
		} else {
			close(done)
		}
		for r := 0; r < reps; r++ {
			var res store.ExecuteResult
			if p := ev.Catch(func() { res, err = ch.Store.ExecuteBlock(b) }); p != "" {
				ctx.Failf("block %d: ExecuteBlock panicked: %s", bi+1, p)
			}
			if err != nil {
				ctx.Failf("block %d: ExecuteBlock: %v", bi+1, err)
			}
			d := execResultDigest(res)
			if r == 0 {
				first, firstRes = d, res
			} else if d != first {
				ctx.Failf("block %d: execution %d of the same block on the same prior state differs from execution 0:\n%s\nvs\n%s", bi+1, r, clipStr(d, 1500), clipStr(first, 1500))
			}
		}
		stopPre()
		// between ExecuteBlock and SubmitBlock a node serves pre-executions and may execute another proposal for the
		// same height: neither may disturb the pending result of this block
		if len(b.Transactions) > 0 {
			ch.Store.PreExecuteContract(b.Transactions[bi%len(b.Transactions)])
		}
		rev := append([]lworld.GovOp{}, ops...)
		for i, j := 0, len(rev)-1; i < j; i, j = i+1, j-1 {
			rev[i], rev[j] = rev[j], rev[i]
		}
		alt := lworld.Roundtrip(ch.Build(govBlockTxs(ch, rev), lworld.BlockOpt{TimeDelta: 3}))
		if _, err := ch.Store.ExecuteBlock(alt); err != nil {
			ctx.Failf("block %d: ExecuteBlock of an alternative proposal: %v", bi+1, err)
		}
		if d := execResultDigest(firstRes); d != first {
			ctx.Failf("block %d: the pending execution result changed after a pre-execution and the execution of another proposal for the same height:\n%s\nvs\n%s",
				bi+1, clipStr(d, 1200), clipStr(first, 1200))
		}
		okGov := 0
		for i, n := range firstRes.Notify {
			if n.State == event.CONTRACT_STATE_SUCCESS {
				ctx.Label("ok:" + ops[i].Op)
				if ops[i].Op != "probe" {
					okGov++
				}
			} else {
				ctx.Label("fail:" + ops[i].Op)
			}
		}
		if okGov > 0 {
			ctx.NonTrivial()
		}
		if err := ch.Store.SubmitBlock(b, firstRes); err != nil {
			ctx.Failf("block %d: SubmitBlock: %v", bi+1, err)
		}
		ch.NoteCommitted(b)
	}
}

func clipStr(s string, n int) string {
	if len(s) > n {
		return s[:n] + "..."
	}
	return s
}

func TestC16(t *testing.T) {
	ev.Drive(t, "C16",
		"part A: chains of 1..4 blocks of 1..10 REAL native-contract transactions (node manager candidate registration/approval/black/white/quit/epoch change, side-chain registration and approvals, relayer registration and approvals, "+
			"with right and wrong signers) mixed with probe scripts on a real LedgerStore with 4..7 validators; every block is executed 8x (thorough 16x) with ExecuteBlock on the same prior state "+
			"(fresh overlay, Go re-randomises every map iteration) and the write set, state-change digest, state root, cross-state root, cross hashes and events must be identical. "+
			"non-trivial: block with at least one successful governance transaction (these write map-backed records: peer pool, approval sets); distinct by JSON of the chain. "+
			"Part B (clock / entropy monitor) is reported by the same check, see coverage.part_b",
		genGov(4, 14), runC16)
}

// ---------------------------------------------------------------------------------------------
// C17 (part A) Contract storage is confined

func runC17A(ctx *ev.Ctx, c govCase) {
	dir := lworld.TempDir("c17")
	defer os.RemoveAll(dir)
	ch, err := lworld.Open(dir, c.N, 2)
	if err != nil {
		ctx.Failf("open ledger: %v", err)
	}
	defer ch.Close()
	// literal prefixes (not the constants of the code under test): 0x05 is the contract-storage namespace; the ledger's
	// own records live under 0x10 current block, 0x13 block tree, 0x20 state tree, 0x21 state root, 0x22/0x23 cross states
	const stStorage = 0x05
	bookkeeping := map[byte]bool{0x10: true, 0x13: true, 0x20: true, 0x21: true, 0x22: true, 0x23: true}
	if byte(scom.ST_STORAGE) != stStorage {
		ctx.Failf("the contract-storage prefix of the node is %#x, the ledger format says 0x05", byte(scom.ST_STORAGE))
	}
	for bi, ops := range c.Blocks {
		b := lworld.Roundtrip(ch.Build(govBlockTxs(ch, ops), lworld.BlockOpt{}))
		before := lworld.SortedDump(ch.Store.VerifStateDump())
		res, err := ch.Store.ExecuteBlock(b)
		if err != nil {
			ctx.Failf("block %d: ExecuteBlock: %v", bi+1, err)
		}
		if d := world.DiffDump(before, lworld.SortedDump(ch.Store.VerifStateDump())); d != "" {
			ctx.Failf("block %d: executing (not committing) the block changed the state store: %s", bi+1, d)
		}
		ws := writeSetMap(res.WriteSet)
		hostile := 0
		for k := range ws {
			key := []byte(k)
			if len(key) < 21 || key[0] != stStorage {
				ctx.Failf("block %d: execution wrote key %x outside the contract-storage namespace", bi+1, key)
			}
			var addr common.Address
			copy(addr[:], key[1:21])
			if _, ok := native.Contracts[addr]; !ok {
				ctx.Failf("block %d: execution wrote key %x under an address that is not a registered native contract", bi+1, key)
			}
			if addr == lworld.ProbeAddress && len(key) > 21 && key[21] < 0x30 {
				hostile++
			}
		}
		if hostile > 0 {
			ctx.Label("hostile-probe-key-written")
		}
		if err := ch.Store.SubmitBlock(b, res); err != nil {
			ctx.Failf("block %d: SubmitBlock: %v", bi+1, err)
		}
		ch.NoteCommitted(b)
		after := lworld.SortedDump(ch.Store.VerifStateDump())
		// what changed in the state store = the write set (contract storage) + ledger bookkeeping records
		bm := map[string][]byte{}
		for _, kv := range before {
			bm[string(kv[0])] = kv[1]
		}
		am := map[string][]byte{}
		for _, kv := range after {
			am[string(kv[0])] = kv[1]
			old, had := bm[string(kv[0])]
			if had && bytes.Equal(old, kv[1]) {
				continue
			}
			if kv[0][0] == stStorage {
				if v, ok := ws[string(kv[0])]; !ok || !bytes.Equal(v, kv[1]) {
					ctx.Failf("block %d: committed contract-storage key %x is not in the block's write set (or differs)", bi+1, kv[0])
				}
			} else if !bookkeeping[kv[0][0]] {
				ctx.Failf("block %d: commit changed key %x with unknown prefix", bi+1, kv[0])
			}
		}
		for k, v := range ws {
			got, ok := am[k]
			if len(v) == 0 {
				if ok {
					ctx.Failf("block %d: key %x deleted by the write set is still stored", bi+1, []byte(k))
				}
			} else if !ok || !bytes.Equal(got, v) {
				ctx.Failf("block %d: write-set key %x not stored with its value", bi+1, []byte(k))
			}
		}
		if len(ws) >= 3 {
			ctx.NonTrivial()
		}
	}
}

func genGovHostile(t *rapid.T) govCase {
	c := genGov(3, 8)(t)
	// add probe scripts with hostile keys: empty, bytes equal to ledger bookkeeping prefixes, long keys
	hk := [][]byte{{}, {0x10}, {0x13}, {0x20}, {0x21}, {0x05}, {0x00}, bytes.Repeat([]byte{0xff}, 255), []byte(fmt.Sprintf("%c%s", 0x10, "current"))}
	n := rapid.IntRange(1, 4).Draw(t, "nhostile")
	var steps []lworld.Step
	for i := 0; i < n; i++ {
		k := rapid.SampledFrom(hk).Draw(t, "hk")
		steps = append(steps, lworld.Step{Op: rapid.SampledFrom([]string{"put", "del", "cross"}).Draw(t, "hop"), K: k, V: []byte{1, byte(i)}})
	}
	bi := rapid.IntRange(0, len(c.Blocks)-1).Draw(t, "hblock")
	c.Blocks[bi] = append(c.Blocks[bi], lworld.GovOp{Op: "probe", Steps: steps})
	return c
}

func TestC17(t *testing.T) {
	ev.Drive(t, "C17",
		"part A (confinement): chains of 1..3 blocks of real governance transactions plus probe scripts writing hostile keys (empty, equal to ledger bookkeeping prefixes 0x10/0x13/0x20/0x21, 255 bytes) on a real LedgerStore; "+
			"oracle: ExecuteBlock alone changes nothing in the state store; every write-set key is ST_STORAGE || registered contract address || ...; after SubmitBlock the changed keys are exactly the write set plus ledger bookkeeping records "+
			"(current block, accumulators, per-height roots, cross states), and bookkeeping keys never come from the write set. non-trivial: block whose write set has >= 3 keys; distinct by JSON of the chain. "+
			"Part B (key injectivity per contract) is decided by TestC17B and merged into this evidence (coverage.part_b)",
		genGovHostile, runC17A)
}
