package pledger

import (
	"bytes"
	"fmt"
	"os"
	"testing"

	"github.com/polynetwork/poly/common"
	"github.com/polynetwork/poly/core/types"
	"pgregory.net/rapid"

	"verif/harness/ev"
	"verif/harness/lworld"
	"verif/harness/world"
)

func TestMain(m *testing.M) { ev.Main(m) }

// ---------------------------------------------------------------------------------------------
// C13 The ledger only grows by valid successors

type c13Op struct {
	Op   string `json:"op"`             // valid | mutant | resubmit | header | badheader
	Via  string `json:"via,omitempty"`  // submit | addblock
	Kind string `json:"kind,omitempty"` // mutant kind
	NTx  int    `json:"ntx,omitempty"`
	Arg  int    `json:"arg,omitempty"`
}

type c13Case struct {
	N   int     `json:"n"`
	Ops []c13Op `json:"ops"`
}

var c13Mutants = []string{"height+1", "height+5", "height-1", "prev-earlier", "prev-random", "time-equal", "time-earlier",
	"blockroot-random", "blockroot-prev", "blockroot-queried", "blockroot-queried", "stateroot", "txroot"}

func genC13(t *rapid.T) c13Case {
	genOp := rapid.Custom(func(t *rapid.T) c13Op {
		op := rapid.SampledFrom([]string{"valid", "valid", "valid", "valid", "mutant", "mutant", "resubmit", "header", "badheader", "restart", "crash"}).Draw(t, "op")
		o := c13Op{Op: op, Via: rapid.SampledFrom([]string{"submit", "addblock"}).Draw(t, "via")}
		o.NTx = rapid.IntRange(0, 3).Draw(t, "ntx")
		o.Arg = rapid.IntRange(0, 1000).Draw(t, "arg")
		if op == "mutant" || op == "badheader" {
			o.Kind = rapid.SampledFrom(c13Mutants).Draw(t, "kind")
		}
		return o
	})
	return c13Case{N: rapid.IntRange(1, 5).Draw(t, "n"), Ops: rapid.SliceOfN(genOp, 1, ev.Scale(18, 34)).Draw(t, "ops")}
}

type c13World struct {
	ctx     *ev.Ctx
	c       *lworld.Chain
	model   []*types.Block            // committed blocks
	bogus   []common.Uint256          // tx hashes of rejected blocks (must never be found)
	pending *types.Block              // block whose header was accepted by AddHeader
	seq     int
}

func (w *c13World) txs(n int) []*types.Transaction {
	var out []*types.Transaction
	for i := 0; i < n; i++ {
		w.seq++
		k := []byte(fmt.Sprintf("k%d", w.seq%5))
		v := []byte(fmt.Sprintf("v%d", w.seq))
		out = append(out, w.c.SignedTx(lworld.ProbeAddress, "run", lworld.EncodeScript([]lworld.Step{{Op: "put", K: k, V: v}}), nil))
	}
	return out
}

func (w *c13World) snapshot() (uint32, common.Uint256, [][2][]byte) {
	h, hash := w.c.Store.GetCurrentBlock()
	return h, hash, lworld.SortedDump(w.c.Store.VerifStateDump())
}

func dumpsEqual(a, b [][2][]byte) string { return world.DiffDump(a, b) }

// submit tries to commit b through the chosen entry point and returns the error (nil = accepted or ignored).
func (w *c13World) submit(b *types.Block, via string, wrongStateRoot bool) error {
	st := w.c.Store
	var err error
	if p := ev.Catch(func() {
		res, e := st.ExecuteBlock(b)
		if via == "addblock" {
			if e != nil {
				// block not executable at this height: AddBlock gets whatever root (it must refuse or ignore on its own)
				err = st.AddBlock(b, common.Uint256{})
				return
			}
			root := res.MerkleRoot
			if wrongStateRoot {
				root[0] ^= 0x55
			}
			err = st.AddBlock(b, root)
			return
		}
		if e != nil {
			err = e
			return
		}
		err = st.SubmitBlock(b, res)
	}); p != "" {
		w.ctx.Failf("block submission panicked: %s", p)
	}
	return err
}

func (w *c13World) checkLookups() {
	st := w.c.Store
	tip := w.model[len(w.model)-1]
	if h := st.GetCurrentBlockHeight(); int(h) != len(w.model)-1 {
		w.ctx.Failf("ledger height %d, model height %d", h, len(w.model)-1)
	}
	if st.GetCurrentBlockHash() != tip.Hash() {
		w.ctx.Failf("ledger tip hash differs from model tip at height %d", len(w.model)-1)
	}
	for h, mb := range w.model {
		if st.GetBlockHash(uint32(h)) != mb.Hash() {
			w.ctx.Failf("GetBlockHash(%d) differs from the committed block", h)
		}
		// header lookups first (as sync and consensus code does), then the block lookups
		if h%2 == 0 {
			hd, err := st.GetHeaderByHeight(uint32(h))
			if err != nil || hd == nil || hd.Hash() != mb.Hash() {
				w.ctx.Failf("GetHeaderByHeight(%d): %v", h, err)
			}
		} else {
			hd, err := st.GetHeaderByHash(mb.Hash())
			if err != nil || hd == nil || hd.Height != uint32(h) {
				w.ctx.Failf("GetHeaderByHash(height %d): %v", h, err)
			}
		}
		b, err := st.GetBlockByHeight(uint32(h))
		if err != nil || b == nil || b.Hash() != mb.Hash() {
			w.ctx.Failf("GetBlockByHeight(%d): %v", h, err)
		}
		b2, err := st.GetBlockByHash(mb.Hash())
		if err != nil || b2 == nil || b2.Header.Height != uint32(h) {
			w.ctx.Failf("GetBlockByHash(height %d): %v", h, err)
		}
		// the stored block is the committed block byte for byte (hashes alone ignore the signatures)
		if gb, wb := b.ToArray(), mb.ToArray(); !bytes.Equal(gb, wb) {
			w.ctx.Failf("GetBlockByHeight(%d) returns a block whose encoding (%d bytes) differs from the committed block (%d bytes)", h, len(gb), len(wb))
		}
		if len(b.Transactions) != len(mb.Transactions) {
			w.ctx.Failf("block %d: %d transactions stored, %d committed", h, len(b.Transactions), len(mb.Transactions))
		}
		for i, tx := range mb.Transactions {
			if b.Transactions[i].Hash() != tx.Hash() {
				w.ctx.Failf("block %d tx %d differs", h, i)
			}
			got, th, err := st.GetTransaction(tx.Hash())
			if err != nil || got == nil || th != uint32(h) || got.Hash() != tx.Hash() {
				w.ctx.Failf("GetTransaction(tx %d of block %d) = height %d err %v", i, h, th, err)
			}
			if ok, err := st.IsContainTransaction(tx.Hash()); err != nil || !ok {
				w.ctx.Failf("IsContainTransaction false for committed tx (block %d)", h)
			}
		}
	}
	for _, th := range w.bogus {
		if ok, _ := st.IsContainTransaction(th); ok {
			w.ctx.Failf("transaction %x of a rejected block is reported as contained", th[:6])
		}
	}
}

func runC13(ctx *ev.Ctx, c c13Case) {
	dir := lworld.TempDir("c13")
	defer os.RemoveAll(dir)
	ch, err := lworld.Open(dir, c.N, 2)
	if err != nil {
		ctx.Failf("open ledger: %v", err)
	}
	defer ch.Close()
	w := &c13World{ctx: ctx, c: ch, model: []*types.Block{ch.Genesis}}
	rejectedAfter2, resub, crashed := false, false, false
	for i, op := range c.Ops {
		h0, hash0, dump0 := w.snapshot()
		tip := w.model[len(w.model)-1]
		switch op.Op {
		case "valid":
			b := w.pending
			w.pending = nil
			if b == nil {
				b = lworld.Roundtrip(ch.Build(w.txs(op.NTx), lworld.BlockOpt{}))
			}
			if err := w.submit(b, op.Via, false); err != nil {
				ctx.Failf("op %d: valid successor at height %d rejected: %v", i, b.Header.Height, err)
			}
			ch.NoteCommitted(b)
			w.model = append(w.model, b)
			_, _, dump1 := w.snapshot()
			if bytes.Equal(flat(dump0), flat(dump1)) {
				ctx.Failf("op %d: committing block %d did not change the state store", i, b.Header.Height)
			}
		case "header":
			if w.pending != nil {
				continue
			}
			b := lworld.Roundtrip(ch.Build(w.txs(op.NTx), lworld.BlockOpt{}))
			if err := ch.Store.AddHeader(b.Header); err != nil {
				ctx.Failf("op %d: valid next header rejected: %v", i, err)
			}
			if ch.Store.GetCurrentHeaderHeight() != b.Header.Height || ch.Store.GetCurrentHeaderHash() != b.Hash() {
				ctx.Failf("op %d: header height/hash not advanced to the accepted header", i)
			}
			w.pending = b
			ctx.Label("header-then-block")
		case "mutant", "badheader":
			if w.pending != nil && op.Op == "badheader" {
				continue
			}
			if op.Op == "badheader" {
				// header admission checks linkage, height and time only; roots are checked when the block is committed
				switch op.Kind {
				case "height+1", "height+5", "height-1", "prev-earlier", "prev-random", "time-equal", "time-earlier":
				default:
					continue
				}
			}
			o := lworld.BlockOpt{}
			wrongState := false
			switch op.Kind {
			case "height+1":
				o.HeightDelta = 1
			case "height+5":
				o.HeightDelta = 5
			case "height-1":
				o.HeightDelta = -1
			case "prev-earlier":
				if len(w.model) < 2 {
					continue
				}
				ph := w.model[op.Arg%(len(w.model)-1)].Hash()
				o.PrevHash = &ph
			case "prev-random":
				ph := common.Uint256{byte(op.Arg), 7, 7}
				o.PrevHash = &ph
			case "time-equal":
				o.TimeDelta = 0
				// BlockOpt treats 0 as default; use explicit rebuild below
			case "time-earlier":
				o.TimeDelta = -int64(1 + op.Arg%5)
			case "blockroot-random":
				r := common.Uint256{byte(op.Arg), 9}
				o.BlockRoot = &r
			case "blockroot-prev":
				r := tip.Header.BlockRoot
				o.BlockRoot = &r
			case "blockroot-queried":
				// what consensus does while it weighs a competing proposal: ask the ledger for the block root the next block
				// would carry if its parent were X (X is not the tip). The answer must be the accumulator root over the
				// committed hashes below the tip plus X (own RFC 6962 hash), and a block carrying THAT root on the real
				// parent is not a valid successor.
				x := common.Uint256{byte(op.Arg), byte(op.Arg >> 8), 0x11, byte(len(w.model))}
				if x == tip.Hash() {
					continue
				}
				next := uint32(len(w.model))
				var zero common.Uint256
				leaves := [][]byte{zero[:]}
				for _, mb := range w.model[:len(w.model)-1] {
					hh := mb.Hash()
					leaves = append(leaves, append([]byte(nil), hh[:]...))
				}
				leaves = append(leaves, x[:])
				want := lworld.MTH(leaves)
				for rep := 0; rep < 1+op.Arg%2; rep++ {
					if got := ch.Store.GetBlockRootWithPreBlockHashes(next, []common.Uint256{x}); got != want {
						ctx.Failf("op %d: GetBlockRootWithPreBlockHashes(%d, [X]) = %x, the accumulator root over the %d committed predecessors plus X is %x", i, next, got[:6], len(leaves)-1, want[:6])
					}
				}
				// and the real question right after it: the root for the real parent
				if op.Arg%3 == 0 {
					if got, ref := ch.Store.GetBlockRootWithPreBlockHashes(next, []common.Uint256{tip.Hash()}), lworld.RefBlockRoot(w.model, next); got != ref {
						ctx.Failf("op %d: GetBlockRootWithPreBlockHashes(%d, [tip]) = %x after a query for another parent, reference %x", i, next, got[:6], ref[:6])
					}
				}
				o.BlockRoot = &want
			case "stateroot":
				if op.Op == "badheader" || op.Via != "addblock" {
					continue
				}
				wrongState = true
			case "txroot":
				r := common.Uint256{byte(op.Arg), 3}
				o.TxRoot = &r
			}
			b := ch.Build(w.txs(op.NTx), o)
			if op.Kind == "time-equal" {
				b.Header.Timestamp = tip.Header.Timestamp
				lworld.SignHeader(b.Header, ch.Cur)
			}
			if op.Kind == "blockroot-prev" && b.Header.BlockRoot == lworld.RefBlockRoot(w.model, uint32(len(w.model))) {
				continue
			}
			if op.Kind == "txroot" {
				// a block whose transactions do not match the root does not even decode (C02); submit the object directly
				if op.Op == "badheader" {
					continue
				}
			} else {
				b = lworld.Roundtrip(b)
			}
			for _, tx := range b.Transactions {
				w.bogus = append(w.bogus, tx.Hash())
			}
			if op.Op == "badheader" {
				hh0 := ch.Store.GetCurrentHeaderHeight()
				err := ch.Store.AddHeader(b.Header)
				if err == nil {
					ctx.Failf("op %d: mutated header (%s) accepted", i, op.Kind)
				}
				if ch.Store.GetCurrentHeaderHeight() != hh0 {
					ctx.Failf("op %d: rejected header (%s) moved the header height", i, op.Kind)
				}
			} else {
				err := w.submit(b, op.Via, wrongState)
				nextHeight := b.Header.Height == uint32(len(w.model))
				if nextHeight && err == nil && op.Kind != "txroot" {
					ctx.Failf("op %d: mutated block (%s via %s) at the next height was accepted without error", i, op.Kind, op.Via)
				}
				if op.Kind == "txroot" && err == nil {
					// the ledger does not re-check the transaction root on submission (decoding does, C02): not judged here,
					// but the model must follow what happened
					h1, _, _ := w.snapshot()
					if h1 != h0 {
						ctx.Label("txroot-mutant-committed")
						w.pending = nil
						ch.NoteCommitted(b)
						w.model = append(w.model, b)
						w.bogus = w.bogus[:len(w.bogus)-len(b.Transactions)]
						break
					}
				}
			}
			if len(w.model) >= 3 {
				rejectedAfter2 = true
			}
			ctx.Label("mutant:" + op.Kind)
			h1, hash1, dump1 := w.snapshot()
			if h1 != h0 || hash1 != hash0 {
				ctx.Failf("op %d: rejected %s (%s) changed the tip: %d -> %d", i, op.Op, op.Kind, h0, h1)
			}
			if d := dumpsEqual(dump0, dump1); d != "" {
				ctx.Failf("op %d: rejected %s (%s) changed the state store: %s", i, op.Op, op.Kind, d)
			}
		case "restart":
			// a clean node restart: nothing may change, and lookups must still answer from the stores (not only from caches)
			if w.pending != nil {
				continue // an accepted-but-uncommitted header lives in memory only
			}
			if err := ch.Restart(); err != nil {
				ctx.Failf("op %d: restart of the ledger failed: %v", i, err)
			}
			ctx.Label("restart")
			h1, hash1, dump1 := w.snapshot()
			if h1 != h0 || hash1 != hash0 {
				ctx.Failf("op %d: restart changed the tip: %d -> %d", i, h0, h1)
			}
			if d := dumpsEqual(dump0, dump1); d != "" {
				ctx.Failf("op %d: restart changed the state store: %s", i, d)
			}
		case "crash":
			// the process stops at a persistence point while a valid successor is being committed, and restarts: whichever
			// of the two admissible outcomes recovery picks (block held or not), the ledger must afterwards accept exactly
			// the valid successors of what it holds - the following ops check that
			if w.pending != nil {
				continue
			}
			points := []string{"submit-before-commit", "submit-after-block-commit", "submit-after-event-commit", "submit-after-state-commit"}
			point := points[op.Arg%len(points)]
			b := lworld.Roundtrip(ch.Build(w.txs(op.NTx), lworld.BlockOpt{}))
			held, err := ch.CrashAt(b, point)
			if err != nil {
				ctx.Failf("op %d: crash at %s / restart failed: %v", i, point, err)
			}
			ctx.Label("crash:" + point)
			crashed = true
			if held {
				ch.NoteCommitted(b)
				w.model = append(w.model, b)
			} else {
				for _, tx := range b.Transactions {
					w.bogus = append(w.bogus, tx.Hash())
				}
				h1, hash1, dump1 := w.snapshot()
				if h1 != h0 || hash1 != hash0 {
					ctx.Failf("op %d: crash at %s: block not held after recovery, but the tip changed: %d -> %d", i, point, h0, h1)
				}
				if d := dumpsEqual(dump0, dump1); d != "" {
					ctx.Failf("op %d: crash at %s: block not held after recovery, but the state store changed: %s", i, point, d)
				}
			}
		case "resubmit":
			if len(w.model) < 2 {
				continue
			}
			b := w.model[1+op.Arg%(len(w.model)-1)]
			if err := w.submit(b, op.Via, false); err != nil {
				ctx.Label("resubmit-error")
			}
			resub = true
			h1, hash1, dump1 := w.snapshot()
			if h1 != h0 || hash1 != hash0 {
				ctx.Failf("op %d: re-submitting committed height %d changed the tip", i, b.Header.Height)
			}
			if d := dumpsEqual(dump0, dump1); d != "" {
				ctx.Failf("op %d: re-submitting committed height %d changed the state store: %s", i, b.Header.Height, d)
			}
		}
		w.checkLookups()
	}
	if (rejectedAfter2 && resub) || crashed {
		ctx.NonTrivial()
	}
}

func flat(d [][2][]byte) []byte {
	var b []byte
	for _, kv := range d {
		b = append(b, kv[0]...)
		b = append(b, 0)
		b = append(b, kv[1]...)
		b = append(b, 0)
	}
	return b
}

func TestC13(t *testing.T) {
	ev.Drive(t, "C13",
		"cases: histories of 1..14 (thorough 30) ledger operations on a real LedgerStore (valid successor via ExecuteBlock+SubmitBlock or AddBlock, "+
			"11 kinds of mutated successors, re-submission of committed heights, valid and mutated headers, clean restarts, and process stops at each of the four persistence points of a commit followed by recovery), "+
			"lookups and a full state-store dump compared with a list model after every step: after any history, recovery included, exactly the valid successors of the held tip are accepted. "+
			"non-trivial: at least one rejected mutant after >=2 commits and at least one re-submission, or a crash with recovery; distinct by JSON of the history",
		genC13, runC13)
}
