package pledger

import (
	"fmt"
	"os"
	"testing"

	"github.com/ontio/ontology-crypto/keypair"
	"github.com/polynetwork/poly/account"
	"github.com/polynetwork/poly/common"
	"github.com/polynetwork/poly/core/ledger"
	"github.com/polynetwork/poly/core/types"
	"github.com/polynetwork/poly/native/event"
	"github.com/polynetwork/poly/txnpool/proc"
	"pgregory.net/rapid"

	"verif/harness/ev"
	"verif/harness/lworld"
	"verif/harness/world"
)

// ---------------------------------------------------------------------------------------------
// C36 Only registered relayers can submit transactions

type c36Query struct {
	Signers []int `json:"signers"` // pool account indices that sign (single-key entries)
	Multi   []int `json:"multi"`   // optional m-of-n entry over these pool accounts (M = n - (n-1)/3)
}

type c36Step struct {
	Block   []lworld.GovOp `json:"block,omitempty"` // a governance block to commit
	Queries []c36Query     `json:"queries,omitempty"`
	Refresh bool           `json:"refresh,omitempty"` // node restart of the permitted-address cache before the queries
}

type c36Case struct {
	N     int       `json:"n"`
	Steps []c36Step `json:"steps"`
}

func genC36(t *rapid.T) c36Case {
	genOp := rapid.Custom(func(t *rapid.T) lworld.GovOp {
		op := rapid.SampledFrom([]string{"regrelayer", "approverelayer", "approverelayer", "approverelayer", "rmrelayer", "approvermrelayer",
			"approvermrelayer", "approvermrelayer", "regcand", "approvecand", "approvecand", "probe"}).Draw(t, "op")
		o := lworld.GovOp{Op: op}
		o.A = rapid.SampledFrom([]int{0, 0, 1}).Draw(t, "a")
		o.V = rapid.IntRange(0, 4).Draw(t, "v")
		o.ID = uint64(rapid.SampledFrom([]int{0, 0, 0, 1}).Draw(t, "id"))
		o.L = rapid.IntRange(0, 2).Draw(t, "l")
		if op == "probe" {
			o.Steps = []lworld.Step{{Op: "put", K: []byte("k"), V: []byte{1}}}
		}
		return o
	})
	pool := []int{0, 1, 2, 3, 4, 10, 11, 30, 31, 32, 33, 34, 35, 50, 51, 52}
	genQ := rapid.Custom(func(t *rapid.T) c36Query {
		q := c36Query{Signers: rapid.SliceOfN(rapid.SampledFrom(pool), 0, 3).Draw(t, "signers")}
		if rapid.Bool().Draw(t, "focus") {
			// ask again and again about the few accounts that are registered / removed as relayers in these histories,
			// alone or next to an outsider: the same address is then judged before and after its removal
			q.Signers = []int{rapid.IntRange(30, 34).Draw(t, "relayer")}
			if rapid.IntRange(0, 3).Draw(t, "with-outsider") == 0 {
				q.Signers = append(q.Signers, rapid.IntRange(50, 52).Draw(t, "outsider"))
			}
			return q
		}
		if rapid.IntRange(0, 3).Draw(t, "multi") == 0 {
			q.Multi = rapid.SliceOfNDistinct(rapid.SampledFrom(pool), 2, 6, func(i int) int { return i }).Draw(t, "multikeys")
		}
		if rapid.IntRange(0, 5).Draw(t, "operator") == 0 {
			q.Multi = []int{-1} // the multi-sig over all pool peers (operator address as the tx pool computes it)
		}
		return q
	})
	genStep := rapid.Custom(func(t *rapid.T) c36Step {
		return c36Step{
			Block:   rapid.SliceOfN(genOp, 2, 10).Draw(t, "block"),
			Queries: rapid.SliceOfN(genQ, 1, 6).Draw(t, "queries"),
			Refresh: rapid.Bool().Draw(t, "refresh"),
		}
	})
	c := c36Case{N: rapid.IntRange(4, 5).Draw(t, "n"), Steps: rapid.SliceOfN(genStep, 1, 5).Draw(t, "steps")}
	if rapid.IntRange(0, 2).Draw(t, "scenario") > 0 {
		// lead-in that reaches the interesting region directly: a full registration round, then (optionally) a full
		// removal round for an overlapping relayer list; the random rounds follow
		l1 := rapid.IntRange(0, 2).Draw(t, "l1")
		reg := []lworld.GovOp{{Op: "regrelayer", A: 0, L: l1}}
		for v := 0; v < 4; v++ {
			reg = append(reg, lworld.GovOp{Op: "approverelayer", ID: 0, V: v})
		}
		lead := []c36Step{{Block: reg, Queries: rapid.SliceOfN(genQ, 1, 4).Draw(t, "q1")}}
		if rapid.Bool().Draw(t, "remove") {
			l2 := rapid.IntRange(0, 2).Draw(t, "l2")
			rm := []lworld.GovOp{{Op: "rmrelayer", A: 0, L: l2}}
			for v := 0; v < 4; v++ {
				rm = append(rm, lworld.GovOp{Op: "approvermrelayer", ID: 0, V: v})
			}
			lead = append(lead, c36Step{Block: rm, Queries: rapid.SliceOfN(genQ, 2, 6).Draw(t, "q2")})
		}
		if rapid.Bool().Draw(t, "candidate") {
			// a candidate node admitted to the pool, registered by its own key or by a separate owner wallet (50+L)
			a := rapid.IntRange(0, 1).Draw(t, "cand")
			cb := []lworld.GovOp{{Op: "regcand", A: a, L: rapid.IntRange(0, 2).Draw(t, "owner")}}
			for v := 0; v < 4; v++ {
				cb = append(cb, lworld.GovOp{Op: "approvecand", A: a, V: v})
			}
			lead = append(lead, c36Step{Block: cb, Refresh: rapid.Bool().Draw(t, "refresh3"), Queries: rapid.SliceOfN(genQ, 2, 6).Draw(t, "q3")})
		}
		c.Steps = append(lead, c.Steps...)
	}
	return c
}

func ceil2n3(n int) int { return (2*n + 2) / 3 }

func runC36(ctx *ev.Ctx, c c36Case) {
	dir := lworld.TempDir("c36")
	defer os.RemoveAll(dir)
	ch, err := lworld.Open(dir, c.N, 2)
	if err != nil {
		ctx.Failf("open ledger: %v", err)
	}
	defer ch.Close()
	old := ledger.DefLedger
	ledger.DefLedger = ch.Ledger
	defer func() { ledger.DefLedger = old }()
	proc.VerifResetPermitted()
	defer proc.VerifResetPermitted()

	// ---- model
	n := c.N
	relayers := map[common.Address]bool{}       // registry
	everRemoved := map[common.Address]bool{}    // relayers that were removed by an approved request
	type apply struct {
		addrs     []common.Address
		approvers map[int]bool
		done      bool
	}
	var regs, rms []*apply
	pool := map[int]bool{} // pool accounts in the peer pool (validators + approved candidates)
	for i := 0; i < n; i++ {
		pool[i] = true
	}
	candApprovers := map[int]map[int]bool{}
	permittedEver := map[common.Address]bool{} // the cache is only ever added to between restarts

	refreshModel := func() {
		var pks []keypair.PublicKey
		for i := range pool {
			a := world.Acct(i)
			permittedEver[a.Address] = true
			pks = append(pks, a.PublicKey)
		}
		permittedEver[world.OperatorAddress(pks)] = true
	}

	for si, st := range c.Steps {
		// ---- commit the governance block and advance the model from the observed per-tx outcome
		if len(st.Block) > 0 {
			var txs []*types.Transaction
			for _, o := range st.Block {
				txs = append(txs, ch.GovTx(o))
			}
			b := lworld.Roundtrip(ch.Build(txs, lworld.BlockOpt{}))
			res, err := ch.Store.ExecuteBlock(b)
			if err != nil {
				ctx.Failf("step %d: ExecuteBlock: %v", si, err)
			}
			if err := ch.Store.SubmitBlock(b, res); err != nil {
				ctx.Failf("step %d: SubmitBlock: %v", si, err)
			}
			ch.NoteCommitted(b)
			for i, o := range st.Block {
				ok := res.Notify[i].State == event.CONTRACT_STATE_SUCCESS
				fired := false
				for _, e := range res.Notify[i].Notify {
					if s, isList := e.States.([]interface{}); isList && len(s) == 2 {
						if name, _ := s[0].(string); name == "ApproveRegisterRelayer" || name == "ApproveRemoveRelayer" {
							fired = true
						}
					}
				}
				if !ok {
					continue
				}
				switch o.Op {
				case "regrelayer":
					regs = append(regs, &apply{addrs: lworld.RelayerList(o), approvers: map[int]bool{}})
				case "rmrelayer":
					rms = append(rms, &apply{addrs: lworld.RelayerList(o), approvers: map[int]bool{}})
				case "approverelayer", "approvermrelayer":
					list := regs
					if o.Op == "approvermrelayer" {
						list = rms
					}
					id := int(o.ID % 4)
					if id >= len(list) {
						ctx.Failf("step %d tx %d: %s succeeded for request id %d which was never created", si, i, o.Op, id)
					}
					ap := list[id]
					if ap.done {
						// an approval accepted on an already applied request is C33's subject, not judged here; the registry
						// model just follows the contract's release event
						ctx.Label("approval-on-consumed-request")
						if fired {
							for _, a := range ap.addrs {
								if o.Op == "approverelayer" {
									relayers[a] = true
								} else {
									if relayers[a] {
										everRemoved[a] = true
									}
									delete(relayers, a)
								}
							}
						}
						continue
					}
					ap.approvers[o.V%n] = true
					reached := len(ap.approvers) >= ceil2n3(n)
					if reached != fired {
						ctx.Failf("step %d tx %d: %s id %d: %d distinct validator approvals of %d (need %d) but release event fired=%v",
							si, i, o.Op, id, len(ap.approvers), n, ceil2n3(n), fired)
					}
					if fired {
						ap.done = true
						for _, a := range ap.addrs {
							if o.Op == "approverelayer" {
								relayers[a] = true
							} else {
								if relayers[a] {
									everRemoved[a] = true
								}
								delete(relayers, a)
							}
						}
					}
				case "regcand":
					candApprovers[o.A] = map[int]bool{}
				case "approvecand":
					if candApprovers[o.A] != nil {
						candApprovers[o.A][o.V%n] = true
						if len(candApprovers[o.A]) >= ceil2n3(n) {
							pool[10+o.A%20] = true
							candApprovers[o.A] = nil
						}
					}
				}
			}
		}
		// ---- admission queries
		if st.Refresh {
			proc.VerifResetPermitted()
			permittedEver = map[common.Address]bool{}
		}
		for qi, q := range st.Queries {
			// the node refreshes the permitted set (at most once a minute) before every admission decision
			lenBefore := len(proc.VerifPermitted())
			if err := proc.VerifUpdatePermittedAddrMap(); err != nil {
				ctx.Failf("step %d query %d: permitted-address refresh failed: %v", si, qi, err)
			}
			if lenBefore == 0 || len(proc.VerifPermitted()) != lenBefore {
				// a refresh really happened: an empty cache forces it; later ones are skipped for a minute of wall-clock time
				// (if the machine is so slow that a minute passed, the growth of the cache shows it)
				refreshModel()
			}
			var signers []*account.Account
			for _, i := range q.Signers {
				signers = append(signers, world.Acct(i))
			}
			tx := ch.SignedTx(lworld.ProbeAddress, "run", lworld.EncodeScript([]lworld.Step{{Op: "notify", V: []byte{byte(qi)}}}), signers)
			var addrs []common.Address
			for _, a := range signers {
				addrs = append(addrs, a.Address)
			}
			if len(q.Multi) > 0 {
				var keys []*account.Account
				if q.Multi[0] == -1 {
					for i := range pool {
						keys = append(keys, world.Acct(i))
					}
				} else {
					for _, i := range q.Multi {
						keys = append(keys, world.Acct(i))
					}
				}
				var pks []keypair.PublicKey
				for _, k := range keys {
					pks = append(pks, k.PublicKey)
				}
				m := len(keys) - (len(keys)-1)/3
				tx = ch.MultiSigTx(lworld.ProbeAddress, "run", lworld.EncodeScript([]lworld.Step{{Op: "notify", V: []byte{byte(qi)}}}), keys, m)
				addrs = []common.Address{world.OperatorAddress(pks)}
				ctx.Label("query:multisig")
			}
			want := false
			mixRemoved, outsider := false, false
			for _, a := range addrs {
				if relayers[a] || permittedEver[a] {
					want = true
				}
				if everRemoved[a] && !relayers[a] {
					mixRemoved = true
				}
				if !relayers[a] && !permittedEver[a] && !everRemoved[a] {
					outsider = true
				}
			}
			var gotErr error
			if p := ev.Catch(func() { gotErr = proc.VerifIsValidSender(tx) }); p != "" {
				ctx.Failf("step %d query %d: admission gate panicked: %s", si, qi, p)
			}
			got := gotErr == nil
			if got != want {
				ctx.Failf("step %d query %d: signing addresses %s: admitted=%v (err %v) but the model says %v (registered relayers %d, permitted %d)",
					si, qi, addrList(addrs), got, gotErr, want, len(relayers), len(permittedEver))
			}
			if want {
				ctx.Label("admitted")
			} else {
				ctx.Label("refused")
			}
			if mixRemoved && outsider {
				ctx.NonTrivial()
				ctx.Label("removed-relayer+outsider")
			}
			if mixRemoved {
				ctx.Label("signer-is-removed-relayer")
			}
		}
		// the permitted set only ever contains addresses of pool keys and their multisig
		for a := range proc.VerifPermitted() {
			if !permittedEver[a] {
				ctx.Failf("step %d: permitted-address cache holds %s which is neither a peer-pool key address nor their multi-signature address", si, a.ToBase58())
			}
		}
	}
}

func addrList(as []common.Address) string {
	s := ""
	for _, a := range as {
		s += fmt.Sprintf("%x.. ", a[:4])
	}
	return s
}

func TestC36(t *testing.T) {
	ev.Drive(t, "C36",
		"cases: 1..5 rounds on a real ledger installed as DefLedger; each round commits a block of 2..10 real governance transactions (relayer registration / removal requests and validator approvals, candidate registration and approvals, probe) "+
			"and then asks the node's sender-admission gate (permitted-address refresh + isValidSender, reached through a build-tagged export shim) about 1..6 transactions signed by combinations of registered relayers, removed relayers, validators, candidates, outsiders and multi-signature addresses; "+
			"oracle: independent model of the relayer registry (request ids, distinct validator approvals, release at ceil(2N/3) cross-checked with the contract's release event) and of the permitted set (addresses of peer-pool keys and their multisig): admitted iff some signing address is a registered relayer or permitted. "+
			"non-trivial: a query whose signing addresses mix a relayer removed by an approved request with an outsider; distinct by JSON of the case",
		genC36, runC36)
}
