package pledger

import (
	"bytes"
	"encoding/json"
	"fmt"
	"os"
	"testing"

	"github.com/polynetwork/poly/account"
	"github.com/polynetwork/poly/common"
	"github.com/polynetwork/poly/core/store/ledgerstore"
	"github.com/polynetwork/poly/core/types"
	"github.com/polynetwork/poly/merkle"
	"pgregory.net/rapid"

	"verif/harness/ev"
	"verif/harness/lworld"
	"verif/harness/world"
)

// ---------------------------------------------------------------------------------------------
// C12 Ledger recovers exactly after a crash at any persistence point (fault enumeration)

type c12Tx struct {
	Steps []lworld.Step `json:"steps"`
}

type c12Case struct {
	N      int       `json:"n"`
	Blocks [][]c12Tx `json:"blocks"`          // blocks 1..B, each a list of probe transactions
	Only   *c12Crash `json:"only,omitempty"`  // nil: enumerate the whole (block, point) grid
	Twice  bool      `json:"twice,omitempty"` // crash again at the same point during/after recovery of the continued chain
}

type c12Crash struct {
	K int    `json:"k"` // block being persisted when the process stops (0 = genesis)
	P string `json:"p"` // persistence point
}

var c12Points = []string{"submit-before-commit", "submit-after-block-commit", "submit-after-event-commit", "submit-after-state-commit"}

func genC12Step(t *rapid.T) lworld.Step {
	op := rapid.SampledFrom([]string{"put", "put", "del", "cross", "notify", "echo", "fail"}).Draw(t, "op")
	k := []byte(rapid.SampledFrom([]string{"a", "b", "c", "ab", ""}).Draw(t, "k"))
	v := rapid.SliceOfN(rapid.Byte(), 1, 6).Draw(t, "v")
	st := lworld.Step{Op: op}
	switch op {
	case "put", "cross":
		st.K, st.V = k, v
	case "del", "echo":
		st.K = k
	case "notify":
		st.V = v
	}
	return st
}

func genC12(t *rapid.T) c12Case {
	genTx := rapid.Custom(func(t *rapid.T) c12Tx {
		return c12Tx{Steps: rapid.SliceOfN(rapid.Custom(genC12Step), 1, 4).Draw(t, "steps")}
	})
	genBlock := rapid.SliceOfN(genTx, 0, 3)
	return c12Case{
		N:      rapid.IntRange(1, 4).Draw(t, "n"),
		Blocks: rapid.SliceOfN(genBlock, 1, ev.Scale(3, 6)).Draw(t, "blocks"),
		Twice:  rapid.Bool().Draw(t, "twice"),
	}
}

type crashSentinel struct{ point string }

type c12Ref struct {
	blocks   []*types.Block // 0..B
	dumps    [][][2][]byte  // state-store dump after committing height h
	stateRt  []common.Uint256
	crossRt  []common.Uint256
	accSize  []uint32
	accRoot  []common.Uint256
	events   []string
	stateful []bool // block h has at least one successful state-changing tx
}

func snapshotAt(st *ledgerstore.LedgerStoreImp, h uint32) (dump [][2][]byte, sr, cr common.Uint256, as uint32, ar common.Uint256, evs string) {
	dump = lworld.SortedDump(st.VerifStateDump())
	sr, _ = st.GetStateMerkleRoot(h)
	cr, _ = st.GetCrossStateRoot(h)
	as, ar = st.VerifBlockAccumulatorRoot()
	n, _ := st.GetEventNotifyByBlock(h)
	b, _ := json.Marshal(n)
	evs = string(b)
	return
}

// buildReference runs the chain crash-free and records the expected observable state per height.
func buildReference(ctx *ev.Ctx, c c12Case) (*c12Ref, []*account.Account) {
	dir := lworld.TempDir("c12ref")
	defer os.RemoveAll(dir)
	ch, err := lworld.Open(dir, c.N, 2)
	if err != nil {
		ctx.Failf("reference: open ledger: %v", err)
	}
	defer ch.Close()
	ref := &c12Ref{}
	record := func(b *types.Block, stateful bool) {
		d, sr, cr, as, ar, evs := snapshotAt(ch.Store, b.Header.Height)
		ref.blocks = append(ref.blocks, b)
		ref.dumps = append(ref.dumps, d)
		ref.stateRt = append(ref.stateRt, sr)
		ref.crossRt = append(ref.crossRt, cr)
		ref.accSize = append(ref.accSize, as)
		ref.accRoot = append(ref.accRoot, ar)
		ref.events = append(ref.events, evs)
		ref.stateful = append(ref.stateful, stateful)
	}
	record(ch.Genesis, true)
	model := map[string][]byte{}
	for bi, txs := range c.Blocks {
		var list []*types.Transaction
		stateful := false
		for _, tx := range txs {
			list = append(list, ch.SignedTx(lworld.ProbeAddress, "run", lworld.EncodeScript(tx.Steps), nil))
			if m := lworld.Interp(model, tx.Steps); m.OK && len(m.Touched) > 0 {
				stateful = true
			}
		}
		b := lworld.Roundtrip(ch.Build(list, lworld.BlockOpt{}))
		if err := ch.Commit(b); err != nil {
			ctx.Failf("reference: block %d rejected: %v", bi+1, err)
		}
		record(b, stateful)
	}
	return ref, ch.Vals
}

// crashRun persists the chain up to block k, stops the "process" at point p while persisting
// block k, restarts, and compares everything observable with the reference.
func crashRun(ctx *ev.Ctx, c c12Case, ref *c12Ref, cr c12Crash, twice bool) {
	dir := lworld.TempDir("c12")
	defer os.RemoveAll(dir)
	defer func() { ledgerstore.VerifCrashHook = nil }()
	_, gb, bks := lworld.Prepare(c.N, 2)
	if gb.Hash() != ref.blocks[0].Hash() {
		ctx.Failf("harness: genesis block is not deterministic")
	}
	where := fmt.Sprintf("crash at block %d point %s", cr.K, cr.P)

	st, err := ledgerstore.NewLedgerStore(dir)
	if err != nil {
		ctx.Failf("%s: NewLedgerStore: %v", where, err)
	}
	arm := func() {
		ledgerstore.VerifCrashHook = func(point string) {
			if point == cr.P {
				ledgerstore.VerifCrashHook = nil
				panic(crashSentinel{point})
			}
		}
	}
	// run until the crash
	crashed := false
	func() {
		defer func() {
			if r := recover(); r != nil {
				if _, ok := r.(crashSentinel); ok {
					crashed = true
					return
				}
				panic(r)
			}
		}()
		if cr.K == 0 {
			arm()
		}
		if err := st.InitLedgerStoreWithGenesisBlock(gb, bks); err != nil {
			ctx.Failf("%s: genesis init: %v", where, err)
		}
		for h := 1; h <= cr.K; h++ {
			if h == cr.K {
				arm()
			}
			b := ref.blocks[h]
			res, err := st.ExecuteBlock(b)
			if err != nil {
				ctx.Failf("%s: ExecuteBlock(%d): %v", where, h, err)
			}
			if err := st.SubmitBlock(b, res); err != nil {
				ctx.Failf("%s: SubmitBlock(%d): %v", where, h, err)
			}
		}
	}()
	ledgerstore.VerifCrashHook = nil
	if !crashed {
		ctx.Failf("harness: %s never reached", where)
	}
	// the process is gone: handles are closed without committing pending batches
	st.Close()

	restart := func(tag string) *ledgerstore.LedgerStoreImp {
		var st2 *ledgerstore.LedgerStoreImp
		var err error
		if p := ev.Catch(func() {
			st2, err = ledgerstore.NewLedgerStore(dir)
			if err == nil {
				err = st2.InitLedgerStoreWithGenesisBlock(gb, bks)
			}
		}); p != "" {
			key := "restart-panic:" + ev.PanicSite(p)
			if ctx.Known(key, "%s: %s panicked: %s", where, tag, p) {
				return nil
			}
		}
		if err != nil {
			if st2 != nil {
				st2.Close()
			}
			if ctx.Known(c12Key(cr, "restart-error"), "%s: %s failed: %v", where, tag, err) {
				return nil
			}
		}
		return st2
	}
	st2 := restart("restart")
	if st2 == nil {
		return
	}
	defer func() {
		if st2 != nil {
			st2.Close()
		}
	}()
	check := func(st2 *ledgerstore.LedgerStoreImp, stage string) (uint32, bool) {
		bh := st2.GetCurrentBlockHeight()
		sh, err := st2.VerifStateHeight()
		if err != nil {
			return 0, !ctx.Known(c12Key(cr, "state-height-unreadable"), "%s (%s): state height unreadable: %v", where, stage, err)
		}
		if bh != sh {
			return 0, !ctx.Known(c12Key(cr, "height-mismatch"), "%s (%s): block height %d but state height %d", where, stage, bh, sh)
		}
		lo := cr.K - 1
		if lo < 0 {
			lo = 0
		}
		if stage == "after restart" && (int(bh) < lo || int(bh) > cr.K) {
			return 0, !ctx.Known(c12Key(cr, "height-range"), "%s (%s): height %d outside {%d,%d}", where, stage, bh, lo, cr.K)
		}
		d, sr, crr, as, ar, evs := snapshotAt(st2, bh)
		if diff := world.DiffDump(ref.dumps[bh], d); diff != "" {
			return 0, !ctx.Known(c12Key(cr, "state-differs"), "%s (%s): state store at height %d differs from the crash-free run: %s", where, stage, bh, diff)
		}
		if sr != ref.stateRt[bh] || crr != ref.crossRt[bh] {
			return 0, !ctx.Known(c12Key(cr, "roots-differ"), "%s (%s): state/cross-state root at height %d differs from the crash-free run", where, stage, bh)
		}
		if as != ref.accSize[bh] || ar != ref.accRoot[bh] {
			return 0, !ctx.Known(c12Key(cr, "accumulator-differs"), "%s (%s): block-hash accumulator at height %d has size %d root %x, crash-free run size %d root %x",
				where, stage, bh, as, ar[:6], ref.accSize[bh], ref.accRoot[bh][:6])
		}
		if evs != ref.events[bh] {
			return 0, !ctx.Known(c12Key(cr, "events-differ"), "%s (%s): events of block %d differ from the crash-free run", where, stage, bh)
		}
		return bh, true
	}
	bh, ok := check(st2, "after restart")
	if !ok {
		return
	}
	// continue the chain with the reference blocks
	for h := int(bh) + 1; h < len(ref.blocks); h++ {
		b := ref.blocks[h]
		var err error
		if p := ev.Catch(func() {
			r, e := st2.ExecuteBlock(b)
			if e != nil {
				err = e
				return
			}
			err = st2.SubmitBlock(b, r)
		}); p != "" {
			ctx.Failf("%s: continuing with block %d panicked: %s", where, h, p)
		}
		if err != nil {
			if ctx.Known(c12Key(cr, "next-block-rejected"), "%s: next block %d rejected after restart: %v", where, h, err) {
				return
			}
		}
		if twice && h == int(bh)+1 {
			// a clean stop and restart in between must change nothing either
			st2.Close()
			st2 = restart("second restart")
			if st2 == nil {
				return
			}
		}
		if _, ok := check(st2, fmt.Sprintf("after continuing to block %d", h)); !ok {
			return
		}
	}
	// the block-merkle tree as relayers see it: every block-inclusion proof served by the recovered ledger must verify
	// against the committed header's block root (the hash file behind the accumulator is not part of the state dump)
	tip := st2.GetCurrentBlockHeight()
	for r := uint32(1); r <= tip; r++ {
		root := ref.blocks[r].Header.BlockRoot
		for h := uint32(0); h < r; h++ {
			hh := ref.blocks[h].Hash()
			var proof []byte
			var err error
			if p := ev.Catch(func() { proof, err = st2.GetMerkleProof(hh[:], h+1, r) }); p != "" {
				ctx.Failf("%s: GetMerkleProof(%d,%d) panicked after recovery: %s", where, h, r, p)
			}
			if err != nil {
				if ctx.Known(c12Key(cr, "block-proof-unavailable"), "%s: no block-inclusion proof (h=%d, r=%d) after recovery: %v", where, h, r, err) {
					return
				}
			}
			val, err := merkle.MerkleProve(proof, root[:])
			if err == nil {
				// and with an independent verifier (own hashing), as a relayer's counterpart would
				val, err = lworld.RefVerifyPath(proof, root)
			}
			if err != nil || !bytes.Equal(val, hh[:]) {
				if ctx.Known(c12Key(cr, "block-proof-wrong"), "%s: block-inclusion proof (h=%d, r=%d) served after recovery does not verify against header %d's block root: %v", where, h, r, r, err) {
					return
				}
			}
		}
	}
}

func c12Key(cr c12Crash, what string) string {
	k := "block"
	if cr.K == 0 {
		k = "genesis"
	}
	return k + ":" + cr.P + ":" + what
}

func runC12(ctx *ev.Ctx, c c12Case) {
	ref, _ := buildReference(ctx, c)
	rec := ev.Get("C12")
	var grid []c12Crash
	if c.Only != nil {
		grid = []c12Crash{*c.Only}
	} else {
		for _, p := range append(append([]string{}, c12Points...), "genesis-before-version") {
			grid = append(grid, c12Crash{K: 0, P: p})
		}
		for k := 1; k <= len(c.Blocks); k++ {
			for _, p := range c12Points {
				grid = append(grid, c12Crash{K: k, P: p})
			}
		}
	}
	inside := 0
	for _, cr := range grid {
		crashRun(ctx, c, ref, cr, c.Twice)
		rec.AddLabel("point:"+cr.P, 1)
		if cr.P != "submit-before-commit" && cr.P != "submit-after-state-commit" && ref.stateful[cr.K] {
			inside++
		}
	}
	rec.AddLabel("crash-runs", len(grid))
	if inside > 0 {
		ctx.NonTrivial()
	}
}

func TestC12(t *testing.T) {
	ev.Get("C12").SetExhaustive(false)
	ev.Drive(t, "C12",
		"cases: generated chains of 1..3 (thorough 6) blocks of probe transactions (writes, deletes, cross-chain records, events, failing transactions) on a real LedgerStore; "+
			"for EVERY block k (incl. genesis) and EVERY persistence point (before commits, after block-store, after event-store, after state-store commit; genesis: also before the version marker) "+
			"the run is repeated with a process stop at (k, point) [hook panics, handles closed without committing], restarted, compared with a crash-free reference "+
			"(heights, full state-store dump, state root, cross-state root, block-hash accumulator, events) and continued to the end of the chain. "+
			"The (k, point) grid is exhaustive per chain (label crash-runs counts crash executions). non-trivial: chain with a crash strictly between the commits of a block that changes state; distinct by JSON of the chain",
		genC12, runC12)
}
