package pledger

import (
	"fmt"
	"math/bits"
	"os"
	"testing"

	"github.com/polynetwork/poly/account"
	"github.com/polynetwork/poly/common"
	"github.com/polynetwork/poly/core/types"
	"pgregory.net/rapid"

	"verif/harness/ev"
	"verif/harness/lworld"
)

// ---------------------------------------------------------------------------------------------
// C42 Quorum thresholds guarantee intersection
//
// unit 1 (this file): (a) the arithmetic claim enumerated for N = 1..10000 and confirmed by brute-force
// subset enumeration for small N; (b) the block-acceptance threshold the NODE applies, extracted
// behaviourally from the real header verification (smallest number of distinct valid signers accepted),
// compared with N - floor((N-1)/3) (current rule) resp. N - floor(6N/7) (legacy rule, reported only).
// Other units (governance approval / vote / signature thresholds, VBFT commit quorum) live in pauth and pvbft.

type c42Case struct {
	Kind   string `json:"kind"` // arith | brute | node
	N      int    `json:"n"`
	Regime string `json:"regime,omitempty"`
}

func fOf(n int) int     { return (n - 1) / 3 }
func tBlock(n int) int  { return n - fOf(n) }
func tGov(n int) int    { return (2*n + 2) / 3 } // ceil(2N/3)

func runC42(ctx *ev.Ctx, c c42Case) {
	ctx.Label("kind:" + c.Kind)
	n := c.N
	switch c.Kind {
	case "arith":
		// two sets of sizes a, b >= T inside N share at least a+b-N >= 2T-N members (inclusion-exclusion)
		f := fOf(n)
		for _, t := range []int{tBlock(n), tGov(n)} {
			if t < 1 || t > n {
				ctx.Failf("N=%d: threshold %d outside 1..N", n, t)
			}
			if 2*t-n <= f {
				ctx.Failf("N=%d f=%d: threshold %d allows two qualifying sets sharing only %d <= f validators", n, f, t, 2*t-n)
			}
		}
		if n%3 != 1 {
			ctx.NonTrivial() // N not of the form 3f+1: the rounding matters
		}
	case "brute":
		// enumerate all pairs of subsets of {0..N-1} that meet the threshold and take the minimum intersection
		f := fOf(n)
		for _, t := range []int{tBlock(n), tGov(n)} {
			min := n
			var sets []uint32
			for s := uint32(0); s < 1<<uint(n); s++ {
				if bits.OnesCount32(s) >= t {
					sets = append(sets, s)
				}
			}
			for _, a := range sets {
				for _, b := range sets {
					if k := bits.OnesCount32(a & b); k < min {
						min = k
					}
				}
			}
			if min <= f {
				ctx.Failf("N=%d f=%d threshold %d: two qualifying sets share only %d validators", n, f, t, min)
			}
			if min != 2*t-n {
				ctx.Failf("N=%d threshold %d: brute-force minimum intersection %d differs from 2T-N=%d", n, t, min, 2*t-n)
			}
		}
		ctx.NonTrivial()
	case "node":
		c42Node(ctx, c)
	}
}

// c42Node finds the smallest k such that a block signed by k distinct validators (valid signatures) is
// accepted by the real ledger with N validators.
func c42Node(ctx *ev.Ctx, c c42Case) {
	n := c.N
	netID := uint32(2)
	if c.Regime != "legacy-testnet" {
		netID = 1
	}
	dir := lworld.TempDir("c42")
	defer os.RemoveAll(dir)
	ch, err := lworld.Open(dir, n, netID)
	if err != nil {
		ctx.Failf("open ledger: %v", err)
	}
	defer ch.Close()
	legacy := c.Regime != "current"
	if !legacy {
		m := paddedIndex()
		m[0] = ch.Genesis.Hash()
		ch.Store.VerifSetHeaderIndex(m)
		defer func() {
			for h := uint32(0); h < 8; h++ {
				m[h] = common.Uint256{1}
			}
		}()
	}
	ctx.Label("regime:" + c.Regime)
	smallest := -1
	var probeBlock *types.Block
	for k := 0; k <= n; k++ {
		b := ch.Build(nil, lworld.BlockOpt{Signers: append([]*account.Account{}, ch.Vals[:k]...)})
		res, err := ch.Store.ExecuteBlock(b)
		if err != nil {
			ctx.Failf("N=%d k=%d: ExecuteBlock: %v", n, k, err)
		}
		if err := ch.Store.SubmitBlock(b, res); err == nil {
			smallest = k
			probeBlock = b
			break
		}
	}
	want := tBlock(n)
	if legacy {
		want = lworld.Quorum(n, true)
	}
	if smallest != want {
		msg := fmt.Sprintf("N=%d regime=%s: smallest number of distinct valid signers accepted by the node is %d, formula gives %d", n, c.Regime, smallest, want)
		ctx.Failf("%s", msg)
	}
	// second probe: every validator is LISTED as bookkeeper, only the first k signatures are present - the
	// threshold the node applies to the signatures themselves (a header naming enough validators is not a quorum)
	ch.NoteCommitted(probeBlock)
	smallestSigs := -1
	for k := 0; k <= n; k++ {
		b := ch.Build(nil, lworld.BlockOpt{Signers: append([]*account.Account{}, ch.Vals...)})
		b.Header.SigData = b.Header.SigData[:k]
		res, err := ch.Store.ExecuteBlock(b)
		if err != nil {
			ctx.Failf("N=%d k=%d (all listed): ExecuteBlock: %v", n, k, err)
		}
		if err := ch.Store.SubmitBlock(b, res); err == nil {
			smallestSigs = k
			break
		}
	}
	if smallestSigs != want {
		ctx.Failf("N=%d regime=%s: with all %d validators listed as bookkeepers, the smallest number of valid signatures accepted by the node is %d, formula gives %d",
			n, c.Regime, n, smallestSigs, want)
	}
	if !legacy {
		// the current rule is the one C42's intersection claim is about
		if f := fOf(n); 2*smallest-n <= f {
			ctx.Failf("N=%d: node threshold %d allows two accepted signer sets sharing only %d <= f=%d validators", n, smallest, 2*smallest-n, f)
		}
	}
	ctx.NonTrivial()
}

func TestC42(t *testing.T) {
	rec := ev.Get("C42")
	rec.SetRule("unit pledger.TestC42: exhaustive grids, no random generation: (arith) N=1..10000: T=N-floor((N-1)/3) and T=ceil(2N/3) satisfy 2T-N > floor((N-1)/3); " +
		"(brute) all pairs of qualifying subsets for N=1..10 (thorough 13); (node) for N=1..24 (thorough 64) the smallest signer count the REAL ledger accepts, " +
		"legacy rule on all shards and current rule (main net, header index > 20,000,000) on shard 0, compared with the formulas. non-trivial: N not of the form 3f+1 (arith), every brute/node case; distinct by JSON of the case")
	if os.Getenv("VERIF_REPLAY") != "" {
		ev.Drive(t, "C42", "", func(t *rapid.T) c42Case { return c42Case{} }, runC42)
		return
	}
	var cases []c42Case
	sh, shards := ev.Shard(), ev.Shards()
	for n := 1; n <= 10000; n++ {
		if n%shards == sh {
			cases = append(cases, c42Case{Kind: "arith", N: n})
		}
	}
	for n := 1; n <= ev.Scale(10, 13); n++ {
		if n%shards == sh {
			cases = append(cases, c42Case{Kind: "brute", N: n})
		}
	}
	maxNode := ev.Scale(24, 64)
	for n := 1; n <= maxNode; n++ {
		if sh == 0 {
			cases = append(cases, c42Case{Kind: "node", N: n, Regime: "current"})
		}
		if shards == 1 || (sh > 0 && n%(shards-1) == sh-1) {
			cases = append(cases, c42Case{Kind: "node", N: n, Regime: "legacy-mainnet"}, c42Case{Kind: "node", N: n, Regime: "legacy-testnet"})
		}
	}
	rec.SetExhaustive(true)
	ev.DriveList(t, "C42", cases, runC42)
}
