package pnative

import (
	"testing"

	"verif/harness/ev"
	"verif/harness/world"
)

func TestMain(m *testing.M) { ev.Main(m) }

func TestWorldSmoke(t *testing.T) {
	w := world.New(5, world.Opts{})
	pubs, _ := w.ConsensusPeers()
	if len(pubs) != 5 {
		t.Fatalf("want 5 consensus peers, got %d", len(pubs))
	}
	if len(w.Dump()) == 0 {
		t.Fatal("empty dump")
	}
	op := w.Operator(); t.Logf("operator %s dump %d keys", op.ToBase58(), len(w.Dump()))
}
