package pevm

// Chain families: how a valid tracked chain is started and grown for each router. C23 only needs
// valid chains (plus a weaker side branch); C29 has its own per-family generators on top.

import (
	"fmt"

	ecommon "github.com/ethereum/go-ethereum/common"
	"github.com/ethereum/go-ethereum/core/types"
)

type family struct {
	ad *adapter
	// prepare builds (without installing) a trust root over validator keys vals at about height gnum
	prepare func(e *chainEnv, gnum uint64, vals []int, root ecommon.Hash) *trustRoot
	start   func(e *chainEnv, gnum uint64, nval int, root ecommon.Hash) (*chainModel, error)
	// grow returns a reference-valid child of p carrying root; weak asks for the lowest difficulty available
	grow func(m *chainModel, p *node, root ecommon.Hash, weak bool) *types.Header
	// after records the family's per-node state once n (child of p) is known to be valid
	after func(m *chainModel, p, n *node)
}

func parliaFamily(ad *adapter) *family {
	return &family{
		ad: ad,
		prepare: func(e *chainEnv, gnum uint64, vals []int, root ecommon.Hash) *trustRoot {
			return prepareChain(e, gnum, addrList(vals), addrList(vals), sealerAddr(nSealerKeys-1), root)
		},
		start: func(e *chainEnv, gnum uint64, nval int, root ecommon.Hash) (*chainModel, error) {
			idx := make([]int, nval)
			for i := range idx {
				idx[i] = i
			}
			return startChain(e, gnum, addrList(idx), addrList(idx), sealerAddr(nSealerKeys-1), root)
		},
		grow: func(m *chainModel, p *node, root ecommon.Hash, weak bool) *types.Header {
			if !weak {
				h, _ := m.goodChild(p, 0, turnPrefer, nil, root, 0, 0)
				return h
			}
			allowed, _ := m.allowedSigners(p)
			S := p.snap.vals
			it := S[(p.h.Number.Uint64()+1)%uint64(len(S))]
			pick := 0
			for i, a := range allowed {
				if a != it {
					pick = i
					break
				}
			}
			h, _ := m.goodChild(p, pick, turnAny, nil, root, 1, 0)
			return h
		},
		after: func(m *chainModel, p, n *node) {
			ok, why, after := m.refCheck(p, n.h)
			if !ok {
				panic(fmt.Sprintf("harness: grown header is not reference-valid: %s", why))
			}
			n.snap = after
		},
	}
}

func cliqueFamily() *family {
	return &family{
		ad: mscAdapter,
		prepare: func(e *chainEnv, gnum uint64, vals []int, root ecommon.Hash) *trustRoot {
			return prepareClique(e, gnum, addrList(vals), vals[0], root)
		},
		start: func(e *chainEnv, gnum uint64, nval int, root ecommon.Hash) (*chainModel, error) {
			idx := make([]int, nval)
			for i := range idx {
				idx[i] = i
			}
			return startClique(e, gnum, addrList(idx), 0, root)
		},
		grow: func(m *chainModel, p *node, root ecommon.Hash, weak bool) *types.Header {
			if !weak {
				h, _ := m.cliqueGood(p, 0, turnPrefer, ecommon.Address{}, false, root, 0)
				return h
			}
			allowed, _ := m.cliqueAllowed(p)
			it := p.cs.signers[(p.h.Number.Uint64()+1)%uint64(len(p.cs.signers))]
			pick := 0
			for i, a := range allowed {
				if a != it {
					pick = i
					break
				}
			}
			h, _ := m.cliqueGood(p, pick, turnAny, ecommon.Address{}, false, root, 1)
			return h
		},
		after: func(m *chainModel, p, n *node) {
			ok, why, set := m.cliqueCheck(p, n.h)
			if !ok {
				panic(fmt.Sprintf("harness: grown header is not reference-valid: %s", why))
			}
			set(n)
		},
	}
}

func adapterOf(router string) *adapter {
	switch router {
	case "msc":
		return mscAdapter
	case "polygon-bor":
		return borAdapter
	}
	return adapters[router]
}

func familyOf(router string) *family {
	switch router {
	case "msc":
		return cliqueFamily()
	case "polygon-bor":
		return borFamily()
	}
	if ad := adapters[router]; ad != nil {
		return parliaFamily(ad)
	}
	return nil
}

var c29Routers = []string{"bsc", "bytom", "heco", "hsc", "pixiechain", "msc", "msc", "polygon-bor"}

func c23Routers() []string {
	return []string{"bsc", "bytom", "heco", "hsc", "pixiechain", "msc", "polygon-bor"}
}

func c23NotExercised() []string {
	return []string{"quorum (Istanbul header builder not written)", "eth (ethash; covered by the ppow package)"}
}
