package pevm

// MSC router: a Clique chain (EIP-225) with signer voting. Reference model written from EIP-225:
// authorised signers kept sorted ascending; a header's coinbase/nonce cast a vote (0xff..: add,
// 0x00..: drop); a proposal that gathers more than half of the signers is applied at once; votes
// are reset at checkpoints (number % epoch == 0), whose extra-data lists the signers in force; a
// signer may seal one of every floor(N/2)+1 consecutive blocks; difficulty 2 iff in turn.

import (
	"bytes"
	"fmt"
	"math/big"
	"sort"

	ecommon "github.com/ethereum/go-ethereum/common"
	"github.com/ethereum/go-ethereum/core/types"
	"github.com/ethereum/go-ethereum/crypto"
	"github.com/polynetwork/poly/native/service/utils"
)

var (
	nonceAuth = types.BlockNonce{0xff, 0xff, 0xff, 0xff, 0xff, 0xff, 0xff, 0xff}
	nonceDrop = types.BlockNonce{}
)

type cvote struct {
	signer, target ecommon.Address
	authorize      bool
}

type cliqueSnap struct {
	signers []ecommon.Address // ascending
	votes   []cvote           // chronological
	gen     int               // number of signer-set changes on the branch
}

func sortAddrs(a []ecommon.Address) []ecommon.Address {
	out := append([]ecommon.Address{}, a...)
	sort.Slice(out, func(i, j int) bool { return bytes.Compare(out[i][:], out[j][:]) < 0 })
	return out
}

func (s *cliqueSnap) has(a ecommon.Address) bool { return indexOfAddr(s.signers, a) >= 0 }

// standing returns the number and the common direction of the standing votes on target (all
// standing votes on one target were cast under the same membership, hence point the same way).
func (s *cliqueSnap) standing(target ecommon.Address) (n int, authorize bool) {
	for _, v := range s.votes {
		if v.target == target {
			n++
			authorize = v.authorize
		}
	}
	return
}

// apply returns the snapshot after a header sealed by sealer (who must be authorised).
func (s *cliqueSnap) apply(h *types.Header, sealer ecommon.Address, epoch uint64) *cliqueSnap {
	n := &cliqueSnap{signers: append([]ecommon.Address{}, s.signers...), votes: append([]cvote{}, s.votes...), gen: s.gen}
	if h.Number.Uint64()%epoch == 0 {
		n.votes = nil
	}
	target := h.Coinbase
	// a signer has at most one standing vote per target: a new header on the same target replaces it
	for i, v := range n.votes {
		if v.signer == sealer && v.target == target {
			n.votes = append(n.votes[:i:i], n.votes[i+1:]...)
			break
		}
	}
	authorize := h.Nonce == nonceAuth
	// only meaningful votes count: add a non-signer, drop a signer
	if (n.has(target) && !authorize) || (!n.has(target) && authorize) {
		n.votes = append(n.votes, cvote{signer: sealer, target: target, authorize: authorize})
	}
	if cnt, dir := n.standing(target); cnt > len(n.signers)/2 {
		if dir {
			n.signers = sortAddrs(append(n.signers, target))
		} else {
			var keep []ecommon.Address
			for _, a := range n.signers {
				if a != target {
					keep = append(keep, a)
				}
			}
			n.signers = keep
			// votes cast by the removed signer are discarded
			var kv []cvote
			for _, v := range n.votes {
				if v.signer != target {
					kv = append(kv, v)
				}
			}
			n.votes = kv
		}
		// votes about the changed account are discarded
		var kv []cvote
		for _, v := range n.votes {
			if v.target != target {
				kv = append(kv, v)
			}
		}
		n.votes = kv
		n.gen++
	}
	return n
}

func signerListBytes(l []ecommon.Address) []byte {
	var out []byte
	for _, a := range l {
		out = append(out, a[:]...)
	}
	return out
}

// cliqueCheck: reference predicate for the msc router.
func (m *chainModel) cliqueCheck(p *node, h *types.Header) (ok bool, why string, set func(n *node)) {
	return m.cliqueCheckOpt(p, h, false, false)
}

const whyUnauthorised = "sealer is not an authorised signer"
const whyRecentPrefix = "signer sealed block"

// cliqueCheckOpt with skipAuth evaluates every clause except membership of the sealer (used to
// decide whether a stored header violates ONLY that clause, the known finding of the msc router);
// the state after such a header is the parent's (votes of an unauthorised sealer do not count).
func (m *chainModel) cliqueCheckOpt(p *node, h *types.Header, skipAuth, skipRecent bool) (ok bool, why string, set func(n *node)) {
	e := m.e
	if p == nil || !p.stored {
		return false, "parent not stored", nil
	}
	if h.Number == nil || !h.Number.IsUint64() || h.Number.Uint64() != p.h.Number.Uint64()+1 {
		return false, "number is not parent+1", nil
	}
	num := h.Number.Uint64()
	checkpoint := num%e.epoch == 0
	if checkpoint && h.Coinbase != (ecommon.Address{}) {
		return false, "checkpoint with non-zero beneficiary", nil
	}
	if h.Nonce != nonceAuth && h.Nonce != nonceDrop {
		return false, "vote nonce neither 0x00.. nor 0xff..", nil
	}
	if checkpoint && h.Nonce != nonceDrop {
		return false, "checkpoint with a vote nonce", nil
	}
	if len(h.Extra) < extraVanity+extraSeal {
		return false, "extra-data shorter than vanity+seal", nil
	}
	sb := len(h.Extra) - extraVanity - extraSeal
	if !checkpoint && sb != 0 {
		return false, "signer list outside a checkpoint", nil
	}
	if h.MixDigest != (ecommon.Hash{}) {
		return false, "non-zero mix digest", nil
	}
	if h.UncleHash != emptyUncleHash {
		return false, "non-empty uncle hash", nil
	}
	if h.Difficulty == nil || (h.Difficulty.Cmp(big.NewInt(1)) != 0 && h.Difficulty.Cmp(big.NewInt(2)) != 0) {
		return false, "difficulty not 1 or 2", nil
	}
	if h.Time < p.h.Time+e.period {
		return false, "timestamp earlier than parent+period", nil
	}
	ps := p.cs
	if checkpoint && !bytes.Equal(h.Extra[extraVanity:extraVanity+sb], signerListBytes(ps.signers)) {
		return false, "checkpoint signer list differs from the signers in force", nil
	}
	sealer, err := recoverSigner(h, nil)
	if err != nil {
		return false, "seal does not recover", nil
	}
	authorised := ps.has(sealer)
	if (!authorised && !skipAuth) || len(ps.signers) == 0 {
		return false, whyUnauthorised, nil
	}
	// recent window: the last floor(N/2) blocks of the branch; the trust root's own seal is not counted
	q := p
	for k := 0; k < len(ps.signers)/2 && q != nil && q != m.genesis && !skipRecent; k++ {
		if q.sealer == sealer {
			return false, fmt.Sprintf(whyRecentPrefix+" %d within the recent window (%d)", q.h.Number.Uint64(), len(ps.signers)/2), nil
		}
		q = q.parent
	}
	inturn := ps.signers[num%uint64(len(ps.signers))] == sealer
	if inturn != (h.Difficulty.Uint64() == 2) {
		return false, fmt.Sprintf("difficulty %d but in-turn=%v", h.Difficulty.Uint64(), inturn), nil
	}
	after := ps
	if authorised {
		after = ps.apply(h, sealer, e.epoch)
	}
	return true, "", func(n *node) { n.cs, n.sealer = after, sealer }
}

func (m *chainModel) cliqueAllowed(p *node) (allowed, recent []ecommon.Address) {
	ps := p.cs
	rec := map[ecommon.Address]bool{}
	q := p
	for k := 0; k < len(ps.signers)/2 && q != nil && q != m.genesis; k++ {
		rec[q.sealer] = true
		q = q.parent
	}
	// the router also counts the trust root's seal; stay clear of it when building valid headers
	avoid := map[ecommon.Address]bool{}
	q = p
	for k := 0; k < len(ps.signers)/2 && q != nil; k++ {
		avoid[q.sealer] = true
		q = q.parent
	}
	for _, a := range ps.signers {
		switch {
		case rec[a]:
			recent = append(recent, a)
		case !avoid[a]:
			allowed = append(allowed, a)
		}
	}
	return
}

// cliqueGood builds a reference-valid child of p. vote: target address and direction (zero address = no vote).
func (m *chainModel) cliqueGood(p *node, pick int, mode int, target ecommon.Address, authorize bool, root ecommon.Hash, dt uint64) (*types.Header, int) {
	e := m.e
	num := p.h.Number.Uint64() + 1
	ps := p.cs
	allowed, _ := m.cliqueAllowed(p)
	if len(allowed) == 0 {
		allowed = ps.signers // cannot happen with the window rule; keeps the builder total
	}
	if len(ps.signers) == 0 {
		panic("harness: empty signer set")
	}
	it := ps.signers[num%uint64(len(ps.signers))]
	signer := chooseSigner(allowed, it, pick, mode)
	diff := int64(1)
	if it == signer {
		diff = 2
	}
	var list []ecommon.Address
	nonce := nonceDrop
	if num%e.epoch == 0 {
		list, target = ps.signers, ecommon.Address{}
	} else if target != (ecommon.Address{}) && authorize {
		nonce = nonceAuth
	}
	h := &types.Header{
		ParentHash: p.hash, UncleHash: emptyUncleHash, Coinbase: target, Root: root, TxHash: types.EmptyRootHash,
		ReceiptHash: types.EmptyRootHash, Difficulty: big.NewInt(diff), Number: new(big.Int).SetUint64(num), GasLimit: p.h.GasLimit,
		GasUsed: 21000, Time: p.h.Time + e.period + dt, Extra: makeExtra(byte(num), list), Nonce: nonce,
	}
	ki := keyIndexOf(signer)
	seal(h, nil, sealerKey(ki))
	return h, ki
}

// startClique installs an msc trust root: a sealed checkpoint header listing the signers.
func prepareClique(e *chainEnv, gnum uint64, signers []ecommon.Address, sealedBy int, root ecommon.Hash) *trustRoot {
	gnum -= gnum % e.epoch
	if gnum == 0 {
		gnum = e.epoch
	}
	sorted := sortAddrs(signers)
	g := newGenesisHeader(gnum, sorted, ecommon.Address{}, root)
	g.Difficulty = big.NewInt(1)
	seal(g, nil, sealerKey(sealedBy))
	m := &chainModel{e: e, byHash: map[ecommon.Hash]*node{}}
	gn := &node{h: g, hash: g.Hash(), td: new(big.Int).Set(g.Difficulty), label: "genesis", cs: &cliqueSnap{signers: sorted}, sealer: sealerAddr(sealedBy)}
	m.genesis = gn
	m.add(gn)
	return &trustRoot{raw: headerJSON(g), m: m}
}

func startClique(e *chainEnv, gnum uint64, signers []ecommon.Address, sealedBy int, root ecommon.Hash) (*chainModel, error) {
	return startRoot(prepareClique(e, gnum, signers, sealedBy, root))
}

var mscAdapter = &adapter{name: "msc", router: utils.MSC_ROUTER, kind: "clique", period: true}

// cliqueBuildOp: the msc flavour of buildOp.
func (m *chainModel) cliqueBuildOp(op c29Op, p *node) (*types.Header, string) {
	e := m.e
	ps := p.cs
	num := p.h.Number.Uint64() + 1
	checkpoint := num%e.epoch == 0
	// vote carried by this header
	var target ecommon.Address
	authorize := false
	tag := ""
	if len(op.Epoch) > 0 && !checkpoint {
		k := clampList(op.Epoch)[0] % 4 // few targets, so that majorities form
		target = sealerAddr(k)
		authorize = !ps.has(target)
		if op.Gas%5 == 0 {
			authorize = !authorize // a vote that is not meaningful
		}
		tag = "+vote"
		if len(ps.signers) == 1 && !authorize {
			// never vote the last signer out: an empty signer set ends the chain (and the router divides by zero)
			target, tag = ecommon.Address{}, ""
		}
	}
	if checkpoint {
		tag = "+checkpoint"
	}
	root := crypto.Keccak256Hash([]byte("root"), p.hash[:], []byte{byte(op.Signer), byte(op.Arg)})
	h, ki := m.cliqueGood(p, op.Signer, turnMode(op), target, authorize, root, op.Dt)
	if op.Kind != "mut" {
		return h, op.Kind + tag
	}
	resign := func(k int) { seal(h, nil, sealerKey(k)) }
	rightDiff := func(a ecommon.Address) *big.Int {
		if ps.signers[num%uint64(len(ps.signers))] == a {
			return big.NewInt(2)
		}
		return big.NewInt(1)
	}
	label := "mut:" + op.Mut
	switch op.Mut {
	case "outsider":
		var out []int
		for i := 0; i < nSealerKeys; i++ {
			if !ps.has(sealerAddr(i)) {
				out = append(out, i)
			}
		}
		k := out[op.Arg%len(out)]
		h.Difficulty = big.NewInt(int64(1 + (op.Arg/3)%3/2)) // mostly 1: an outsider is never in turn
		if op.Arg%8 != 0 {
			// mostly without a vote: the router refuses every descendant of an unauthorised VOTE header
			// (its snapshot replay fails), which would end the useful part of the case
			h.Coinbase, h.Nonce = ecommon.Address{}, nonceDrop
		}
		resign(k)
	case "recent", "recent-other-coinbase": // the beneficiary is a vote target on Clique: a plain recent-signer attempt
		_, rec := m.cliqueAllowed(p)
		if len(rec) == 0 {
			return h, "mut:recent:none-available"
		}
		a := rec[op.Arg%len(rec)]
		h.Difficulty = rightDiff(a)
		resign(keyIndexOf(a))
	case "recent-dist":
		d := 2 + op.Arg%5
		if op.Arg >= 2 && op.Arg <= 6 {
			d = op.Arg
		}
		q := p
		for i := 1; i < d && q != nil; i++ {
			q = q.parent
		}
		if q == nil || keyIndexOf(q.sealer) < 0 {
			return h, "mut:recent-dist:no-such-ancestor"
		}
		h.Difficulty = rightDiff(q.sealer)
		resign(keyIndexOf(q.sealer))
		label = fmt.Sprintf("mut:recent-dist:d=%d:%s:%s", d, windowClass(d, len(ps.signers), ps.has(q.sealer)), m.phase(p, num))
	case "diff-flip":
		h.Difficulty = big.NewInt(3 - h.Difficulty.Int64())
		resign(ki)
	case "diff-bad":
		h.Difficulty = []*big.Int{big.NewInt(0), big.NewInt(3), big.NewInt(4), new(big.Int).Lsh(big.NewInt(1), 40)}[op.Arg%4]
		resign(ki)
	case "extra-short":
		h.Extra = h.Extra[:[]int{0, 20, 31, 32, 64, 96}[op.Arg%6]]
	case "extra-odd", "epoch-force": // signer bytes where none belong / a wrong list at a checkpoint
		l := addrList(clampList(append([]int{op.Arg}, op.Epoch...)))
		if checkpoint {
			l = sortAddrs(l)
			if sameList(l, ps.signers) {
				l = l[:len(l)-1]
			}
			label += ":checkpoint-list"
		}
		h.Extra = makeExtra(byte(num), l)
		if op.Mut == "extra-odd" && !checkpoint {
			h.Extra = append(append(append([]byte{}, h.Extra[:extraVanity]...), make([]byte, 7)...), make([]byte, extraSeal)...)
		}
		resign(ki)
	case "coinbase": // beneficiary / vote nonce at a checkpoint; bad nonce elsewhere
		if checkpoint {
			if op.Arg%2 == 0 {
				h.Coinbase = sealerAddr(op.Arg % nSealerKeys)
				label += ":checkpoint-beneficiary"
			} else {
				h.Nonce = nonceAuth
				label += ":checkpoint-vote"
			}
		} else {
			h.Nonce = types.BlockNonce{0, 0, 0, 0, 0, 0, 0, byte(1 + op.Arg%254)}
			label += ":bad-nonce"
		}
		resign(ki)
	case "mix":
		h.MixDigest = crypto.Keccak256Hash([]byte{byte(op.Arg)})
		resign(ki)
	case "uncle":
		h.UncleHash = []ecommon.Hash{{}, types.EmptyRootHash, crypto.Keccak256Hash([]byte{1})}[op.Arg%3]
		resign(ki)
	case "number":
		d := int64(1)
		if op.Arg%2 == 0 {
			d = -1
		}
		h.Number = new(big.Int).SetInt64(int64(num) + d)
		resign(ki)
	case "unknown-parent":
		h.ParentHash = crypto.Keccak256Hash([]byte("nowhere"), []byte{byte(op.Arg)})
		resign(ki)
	case "badsig":
		h.Extra[len(h.Extra)-extraSeal+op.Arg%64] ^= 0x5a
	case "sig-v":
		h.Extra[len(h.Extra)-1] = []byte{27, 28, 2, 4, 0xff}[op.Arg%5]
	case "chainid":
		seal(h, new(big.Int).SetUint64(e.evmID), sealerKey(ki))
	case "time-early":
		if e.period > 0 {
			h.Time = p.h.Time + e.period - 1
		} else {
			h.Time = p.h.Time
			label += ":period0"
		}
		resign(ki)
	case "zero-sig":
		copy(h.Extra[len(h.Extra)-extraSeal:], make([]byte, extraSeal))
	case "gas-jump", "gas-used":
		// the msc router documents no gas rules: such headers are built but not judged on gas
		if op.Mut == "gas-used" {
			h.GasUsed = h.GasLimit + 1
		} else {
			h.GasLimit = h.GasLimit * 2
		}
		label += ":unjudged"
		resign(ki)
	default:
		panic("harness: unknown mutation " + op.Mut)
	}
	return h, label + tag
}
