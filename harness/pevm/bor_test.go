package pevm

// Polygon Bor router, exercised inside ONE sprint: the producer set and its proposer are those of
// the trust-root snapshot (changing them needs Heimdall span proofs, which are not generated), so
// generated heights never reach a sprint end or start. Reference rules (Bor): sealer is a member of
// the producer set; succession = (index(sealer) - index(proposer)) mod N in address order;
// difficulty = N - succession; time >= parent.time + period + succession*backupMultiplier; no
// validator bytes outside sprint ends; mix digest zero; empty uncle hash. Bor has no recent-signer
// rule (a producer seals a whole sprint), so that clause of C29 is not applicable here.

import (
	"encoding/json"
	"fmt"
	"math/big"

	ecommon "github.com/ethereum/go-ethereum/common"
	"github.com/ethereum/go-ethereum/core/types"
	"github.com/ethereum/go-ethereum/crypto"
	"github.com/polynetwork/poly/native/service/utils"
)

const (
	borSprint           = 256
	borBackupMultiplier = 2
)

var borAdapter = &adapter{name: "polygon-bor", router: utils.POLYGON_BOR_ROUTER, kind: "bor", period: true}

type borValidatorJSON struct {
	ID     uint64          `json:"ID"`
	Signer ecommon.Address `json:"signer"`
	Power  int64           `json:"power"`
	Accum  int64           `json:"accum"`
}

func borHeaderJSON(h *types.Header) []byte {
	b, err := json.Marshal(struct {
		Header *types.Header
		Proof  []byte
	}{h, nil})
	if err != nil {
		panic(err)
	}
	return b
}

func prepareBor(e *chainEnv, gnum uint64, producers []ecommon.Address, prop int, root ecommon.Hash) *trustRoot {
	e.epoch = borSprint
	gnum = gnum - gnum%borSprint + 1 // first block after a sprint start: 254 further heights stay inside the sprint
	set := sortAddrs(producers)
	prop = ((prop % len(set)) + len(set)) % len(set)
	g := newGenesisHeader(gnum, nil, ecommon.Address{}, root)
	g.Difficulty = big.NewInt(int64(len(set)))
	vals := make([]borValidatorJSON, len(set))
	for i, a := range set {
		vals[i] = borValidatorJSON{ID: uint64(i + 1), Signer: a, Power: 10, Accum: 0}
	}
	vals[prop].Accum = 5
	gj, err := json.Marshal(map[string]interface{}{
		"Header":   g,
		"Snapshot": map[string]interface{}{"hash": g.Hash(), "validatorSet": map[string]interface{}{"validators": vals, "proposer": vals[prop]}},
	})
	if err != nil {
		panic(err)
	}
	m := &chainModel{e: e, byHash: map[ecommon.Hash]*node{}, borSet: set, borProp: prop}
	gn := &node{h: g, hash: g.Hash(), td: new(big.Int).Set(g.Difficulty), label: "genesis"}
	m.genesis = gn
	m.add(gn)
	return &trustRoot{raw: gj, m: m}
}

func startBor(e *chainEnv, gnum uint64, producers []ecommon.Address, prop int, root ecommon.Hash) (*chainModel, error) {
	return startRoot(prepareBor(e, gnum, producers, prop, root))
}

func (m *chainModel) borSuccession(a ecommon.Address) int {
	i := indexOfAddr(m.borSet, a)
	if i < 0 {
		return -1
	}
	return (i - m.borProp + len(m.borSet)) % len(m.borSet)
}

func (m *chainModel) borCheck(p *node, h *types.Header) (ok bool, why string, set func(n *node)) {
	e := m.e
	if p == nil || !p.stored {
		return false, "parent not stored", nil
	}
	if h.Number == nil || !h.Number.IsUint64() || h.Number.Uint64() != p.h.Number.Uint64()+1 {
		return false, "number is not parent+1", nil
	}
	num := h.Number.Uint64()
	if (num+1)%borSprint == 0 || num%borSprint == 0 {
		return false, "outside the modelled sprint (harness limitation)", nil
	}
	if len(h.Extra) < extraVanity+extraSeal {
		return false, "extra-data shorter than vanity+seal", nil
	}
	if len(h.Extra) != extraVanity+extraSeal {
		return false, "validator bytes outside a sprint end", nil
	}
	if h.MixDigest != (ecommon.Hash{}) {
		return false, "non-zero mix digest", nil
	}
	if h.UncleHash != emptyUncleHash {
		return false, "non-empty uncle hash", nil
	}
	if h.Difficulty == nil {
		return false, "no difficulty", nil
	}
	sealer, err := recoverSigner(h, nil)
	if err != nil {
		return false, "seal does not recover", nil
	}
	succ := m.borSuccession(sealer)
	if succ < 0 {
		return false, "sealer is not in the producer set", nil
	}
	if h.Time < p.h.Time+e.period+uint64(succ)*borBackupMultiplier {
		return false, fmt.Sprintf("block too soon for succession %d", succ), nil
	}
	if !h.Difficulty.IsUint64() || h.Difficulty.Uint64() != uint64(len(m.borSet)-succ) {
		return false, fmt.Sprintf("difficulty %v, expected %d (succession %d of %d)", h.Difficulty, len(m.borSet)-succ, succ, len(m.borSet)), nil
	}
	return true, "", func(n *node) { n.sealer = sealer }
}

func (m *chainModel) borGood(p *node, pick int, mode int, root ecommon.Hash, dt uint64) (*types.Header, int) {
	e := m.e
	num := p.h.Number.Uint64() + 1
	signer := chooseSigner(m.borSet, m.borSet[m.borProp], pick, mode)
	succ := m.borSuccession(signer)
	h := &types.Header{
		ParentHash: p.hash, UncleHash: emptyUncleHash, Root: root, TxHash: types.EmptyRootHash, ReceiptHash: types.EmptyRootHash,
		Difficulty: big.NewInt(int64(len(m.borSet) - succ)), Number: new(big.Int).SetUint64(num), GasLimit: p.h.GasLimit, GasUsed: 21000,
		Time: p.h.Time + e.period + uint64(succ)*borBackupMultiplier + dt, Extra: makeExtra(byte(num), nil),
	}
	ki := keyIndexOf(signer)
	seal(h, nil, sealerKey(ki))
	return h, ki
}

func (m *chainModel) borBuildOp(op c29Op, p *node) (*types.Header, string) {
	e := m.e
	num := p.h.Number.Uint64() + 1
	root := crypto.Keccak256Hash([]byte("root"), p.hash[:], []byte{byte(op.Signer), byte(op.Arg)})
	h, ki := m.borGood(p, op.Signer, turnMode(op), root, op.Dt)
	if op.Kind != "mut" {
		return h, op.Kind
	}
	resign := func(k int) { seal(h, nil, sealerKey(k)) }
	label := "mut:" + op.Mut
	N := int64(len(m.borSet))
	switch op.Mut {
	case "outsider":
		var out []int
		for i := 0; i < nSealerKeys; i++ {
			if indexOfAddr(m.borSet, sealerAddr(i)) < 0 {
				out = append(out, i)
			}
		}
		h.Difficulty = big.NewInt(1 + int64(op.Arg)%N)
		h.Time += uint64(N) * borBackupMultiplier
		resign(out[op.Arg%len(out)])
	case "diff-flip":
		d := h.Difficulty.Int64() + 1
		if op.Arg%2 == 0 && h.Difficulty.Int64() > 1 {
			d = h.Difficulty.Int64() - 1
		}
		h.Difficulty = big.NewInt(d)
		resign(ki)
	case "diff-bad":
		h.Difficulty = []*big.Int{big.NewInt(0), big.NewInt(N + 1), big.NewInt(N + 7), new(big.Int).Lsh(big.NewInt(1), 40)}[op.Arg%4]
		resign(ki)
	case "extra-short":
		h.Extra = h.Extra[:[]int{0, 20, 31, 32, 64, 96}[op.Arg%6]]
	case "extra-odd", "epoch-force":
		n := []int{1, 7, 20, 40, 80}[op.Arg%5]
		h.Extra = append(append(append([]byte{}, h.Extra[:extraVanity]...), make([]byte, n)...), make([]byte, extraSeal)...)
		resign(ki)
	case "mix":
		h.MixDigest = crypto.Keccak256Hash([]byte{byte(op.Arg)})
		resign(ki)
	case "uncle":
		h.UncleHash = []ecommon.Hash{{}, types.EmptyRootHash, crypto.Keccak256Hash([]byte{1})}[op.Arg%3]
		resign(ki)
	case "number":
		d := int64(1)
		if op.Arg%2 == 0 {
			d = -1
		}
		h.Number = new(big.Int).SetInt64(int64(num) + d)
		resign(ki)
	case "unknown-parent":
		h.ParentHash = crypto.Keccak256Hash([]byte("nowhere"), []byte{byte(op.Arg)})
		resign(ki)
	case "badsig":
		h.Extra[len(h.Extra)-extraSeal+op.Arg%64] ^= 0x5a
	case "sig-v":
		h.Extra[len(h.Extra)-1] = []byte{27, 28, 2, 4, 0xff}[op.Arg%5]
	case "chainid":
		seal(h, new(big.Int).SetUint64(e.evmID), sealerKey(ki))
	case "time-early":
		succ := m.borSuccession(sealerAddr(ki))
		need := e.period + uint64(succ)*borBackupMultiplier
		if need == 0 {
			label += ":no-delay"
		} else {
			h.Time = p.h.Time + need - 1
		}
		resign(ki)
	case "zero-sig":
		copy(h.Extra[len(h.Extra)-extraSeal:], make([]byte, extraSeal))
	case "coinbase":
		// Bor does not tie the beneficiary to the sealer: a valid header, kept for the distribution
		h.Coinbase = sealerAddr(op.Arg % nSealerKeys)
		label += ":unjudged"
		resign(ki)
	case "recent", "recent-dist", "recent-other-coinbase", "gas-jump", "gas-used":
		// no such rule in Bor / in this router: valid header
		if op.Mut == "gas-used" {
			h.GasUsed = h.GasLimit + 1
		} else if op.Mut == "gas-jump" {
			h.GasLimit *= 2
		}
		label += ":unjudged"
		resign(ki)
	default:
		panic("harness: unknown mutation " + op.Mut)
	}
	return h, label
}

func borFamily() *family {
	return &family{
		ad: borAdapter,
		prepare: func(e *chainEnv, gnum uint64, vals []int, root ecommon.Hash) *trustRoot {
			return prepareBor(e, gnum, addrList(vals), 0, root)
		},
		start: func(e *chainEnv, gnum uint64, nval int, root ecommon.Hash) (*chainModel, error) {
			idx := make([]int, nval)
			for i := range idx {
				idx[i] = i
			}
			return startBor(e, gnum, addrList(idx), 0, root)
		},
		grow: func(m *chainModel, p *node, root ecommon.Hash, weak bool) *types.Header {
			if !weak || len(m.borSet) == 1 {
				h, _ := m.borGood(p, 0, turnPrefer, root, 0)
				if weak {
					h, _ = m.borGood(p, 0, turnPrefer, root, 1)
				}
				return h
			}
			// the producer right before the proposer has the largest succession, i.e. the lowest difficulty
			h, _ := m.borGood(p, (m.borProp+len(m.borSet)-1)%len(m.borSet), turnAny, root, 0)
			return h
		},
		after: func(m *chainModel, p, n *node) {
			ok, why, set := m.borCheck(p, n.h)
			if !ok {
				panic(fmt.Sprintf("harness: grown header is not reference-valid: %s", why))
			}
			set(n)
		},
	}
}
