package pevm

import (
	"fmt"
	"math/big"
	"os"
	"strings"
	"sync"
	"testing"

	ecommon "github.com/ethereum/go-ethereum/common"
	"github.com/ethereum/go-ethereum/core/types"
	"github.com/ethereum/go-ethereum/crypto"
	"pgregory.net/rapid"

	"verif/harness/ev"
)

// ---------------------------------------------------------------------------------------------
// C29 PoSA light clients accept only valid validator seals
//
// A case is a synthetic chain tree over a small validator set: a trust root plus a list of ops.
// Every op is resolved against the harness's own model of the tree inside run (parents, allowed
// signers ... are indices modulo the current state) so a case replays from JSON.

type c29Op struct {
	Kind   string `json:"k"`            // ext: extend the current canonical head; fork: build on an earlier stored header; side: extend the newest non-canonical header; mut: one broken rule
	Parent int    `json:"p,omitempty"`  // fork: which of the most recent stored headers
	Signer int    `json:"s,omitempty"`  // which allowed validator seals
	InTurn bool   `json:"it,omitempty"` // prefer the in-turn validator when allowed
	Weak   bool   `json:"w,omitempty"`  // prefer an out-of-turn validator (lowest difficulty), overrides InTurn
	Epoch  []int  `json:"ep,omitempty"` // key indices of a new validator list carried in extra-data
	Mut    string `json:"m,omitempty"`
	Arg    int    `json:"a,omitempty"`
	Batch  bool   `json:"b,omitempty"` // submit in the same transaction as the next op
	Dt     uint64 `json:"dt,omitempty"`
	Gas    int64  `json:"g,omitempty"`
}

type c29Case struct {
	Router string  `json:"router"`
	List   []int   `json:"list"` // validator list carried by the trust-root header (key indices)
	Prev   []int   `json:"prev"` // list in force before it
	GNum   uint64  `json:"gnum"` // trust-root height
	GCoin  int     `json:"gcoin"`
	EvmID  uint64  `json:"evmid"`
	Period uint64  `json:"period"`
	Epoch  uint64  `json:"epoch,omitempty"` // msc: checkpoint interval
	Ops    []c29Op `json:"ops"`
}

var c29Muts = []string{"outsider", "outsider", "recent", "recent", "diff-flip", "diff-flip", "diff-bad", "coinbase", "coinbase",
	"extra-short", "extra-odd", "mix", "uncle", "gas-jump", "gas-used", "number", "unknown-parent", "badsig", "sig-v", "chainid",
	"time-early", "epoch-force", "zero-sig", "recent-dist", "recent-dist", "recent-other-coinbase", "recent-other-coinbase", "coinbase"}

func genKeyList(t *rapid.T, label string, lo, hi int) []int {
	return rapid.SliceOfNDistinct(rapid.IntRange(0, nSealerKeys-1), lo, hi, rapid.ID[int]).Draw(t, label)
}

func genC29Op(t *rapid.T, weakMain bool) c29Op {
	op := c29Op{}
	switch k := rapid.IntRange(0, 99).Draw(t, "kind"); {
	case k < 54:
		op.Kind = "ext"
	case k < 64:
		op.Kind = "fork"
		op.Parent = rapid.IntRange(0, 7).Draw(t, "parent")
	case k < 74:
		op.Kind = "side" // extend the most recently stored header that is off the canonical chain
	default:
		op.Kind = "mut"
		op.Mut = rapid.SampledFrom(c29Muts).Draw(t, "mut")
		op.Arg = rapid.IntRange(0, 63).Draw(t, "arg")
		if rapid.IntRange(0, 3).Draw(t, "mutfork") == 0 {
			op.Parent = rapid.IntRange(1, 5).Draw(t, "parent")
		}
	}
	op.Signer = rapid.IntRange(0, 8).Draw(t, "signer")
	op.InTurn = rapid.IntRange(0, 2).Draw(t, "inturn") > 0
	if weakMain && op.Kind == "ext" {
		// cases with a weak main chain: heavier, shorter side chains then force reorganisations to a lower height
		op.Weak = rapid.IntRange(0, 3).Draw(t, "weak") > 0
	}
	if rapid.IntRange(0, 7).Draw(t, "epoch?") == 0 || op.Mut == "epoch-force" {
		op.Epoch = genKeyList(t, "epoch", 1, 9)
	}
	op.Batch = rapid.IntRange(0, 6).Draw(t, "batch") == 0
	op.Dt = uint64(rapid.IntRange(0, 2).Draw(t, "dt"))
	op.Gas = int64(rapid.IntRange(-40000, 40000).Draw(t, "gas"))
	return op
}

func genC29(t *rapid.T) c29Case {
	c := c29Case{
		Router: rapid.SampledFrom(c29Routers).Draw(t, "router"),
		List:   genKeyList(t, "list", 1, 9),
		Prev:   genKeyList(t, "prev", 1, 9),
		GNum:   uint64(rapid.IntRange(1, 400).Draw(t, "gnum")),
		GCoin:  rapid.IntRange(0, nSealerKeys-1).Draw(t, "gcoin"),
		EvmID:  uint64(rapid.SampledFrom([]int{1, 56, 97, 128, 256, 666, 6626}).Draw(t, "evmid")),
		Period: uint64(rapid.IntRange(0, 3).Draw(t, "period")),
	}
	if r := os.Getenv("PEVM_ROUTER"); r != "" {
		c.Router = r // development aid only: pin the router (never set by the driver)
	}
	c.Epoch = uint64(rapid.IntRange(3, 12).Draw(t, "epoch"))
	if rapid.IntRange(0, 2).Draw(t, "prev=list") == 0 {
		c.Prev = append([]int{}, c.List...)
	}
	weakMain := rapid.IntRange(0, 2).Draw(t, "weakMain") == 0
	// transition script (2 of 3 cases): a validator set of extreme size, an epoch header that shrinks or grows it by a
	// large factor, then at EVERY height of the transition window a recent-signer attempt at EVERY distance 2..max/2+1
	// (the rejected attempts leave no trace, so one chain carries the whole grid), each height closed by a valid header.
	var script []c29Op
	nscripts := 0
	if rapid.IntRange(0, 2).Draw(t, "script?") > 0 {
		nscripts = ev.Scale(1, 2)
	}
	size := 0
	for k := 0; k < nscripts; k++ {
		if k == 0 {
			size = rapid.SampledFrom([]int{2, 3, 5, 7, 9}).Draw(t, "oldsize")
			c.List = genKeyList(t, "slist", size, size)
			c.Prev = append([]int{}, c.List...)
		}
		newSize := rapid.SampledFrom([]int{1, 2, 3, 4, 7, 9}).Draw(t, "newsize")
		wOld, wMax := size/2, size/2
		if newSize/2 > wMax {
			wMax = newSize / 2
		}
		for i := 0; i < wOld+1+rapid.IntRange(0, 2).Draw(t, "pre"); i++ {
			script = append(script, c29Op{Kind: "ext", InTurn: true, Signer: i})
		}
		script = append(script, c29Op{Kind: "ext", InTurn: true, Epoch: genKeyList(t, "newlist", newSize, newSize)})
		for h := 0; h <= wMax+1; h++ {
			for d := 2; d <= wMax+1; d++ {
				script = append(script, c29Op{Kind: "mut", Mut: "recent-dist", Arg: d, InTurn: rapid.Bool().Draw(t, "it")})
			}
			script = append(script, c29Op{Kind: "mut", Mut: "recent-other-coinbase", Arg: rapid.IntRange(0, 15).Draw(t, "roc"), Signer: h})
			script = append(script, c29Op{Kind: "ext", InTurn: rapid.IntRange(0, 3).Draw(t, "ext-it") > 0, Signer: rapid.IntRange(0, 8).Draw(t, "ext-s")})
		}
		size = newSize
	}
	maxRandom := ev.Scale(44, 110) - len(script)
	if maxRandom < 8 {
		maxRandom = 8
	}
	random := rapid.SliceOfN(rapid.Custom(func(t *rapid.T) c29Op { return genC29Op(t, weakMain) }), 6, maxRandom).Draw(t, "ops")
	lead := 0
	if len(script) > 0 && rapid.IntRange(0, 3).Draw(t, "lead") == 0 {
		lead = rapid.IntRange(0, len(random)).Draw(t, "leadn")
	}
	c.Ops = append(append(append([]c29Op{}, random[:lead]...), script...), random[lead:]...)
	return c
}

// --- evidence tables

var (
	c29Mu     sync.Mutex
	c29Cases  = map[string]int{}
	c29Stored = map[string]int{}
	c29Reject = map[string]int{}
	c29RefRej = map[string]int{}
)

func c29Flush() {
	r := ev.Get("C29")
	r.Extra("routers", c29Cases)
	r.Extra("routers_headers_stored", c29Stored)
	r.Extra("routers_headers_rejected", c29Reject)
	r.Extra("routers_reference_valid_but_rejected", c29RefRej)
	r.Extra("routers_not_exercised", c29NotExercised())
}

func c29NotExercised() []string {
	return []string{"polygon-bor: exercised only inside one sprint with the producer set of the trust-root snapshot (span changes / sprint boundaries need Heimdall span proofs and are not generated)"}
}

// windowClass names where a seal at distance d lies relative to the recent window of a set of n validators.
func windowClass(d, n int, member bool) string {
	switch {
	case !member:
		return "not-in-set"
	case d <= n/2:
		return "in-window"
	case d == n/2+1:
		return "just-outside"
	}
	return "outside"
}

// phase of a child of p at height num with respect to validator-set changes.
func (m *chainModel) phase(p *node, num uint64) string {
	switch {
	case m.e.ad.kind == "clique":
		if num%m.e.epoch <= 1 {
			return "at-checkpoint"
		}
		return "steady"
	case p.snap.pend != nil:
		return "change-pending"
	case num-p.snap.lastEpoch <= 6:
		return "after-change"
	}
	return "steady"
}

func turnMode(op c29Op) int {
	switch {
	case op.Weak:
		return turnAvoid
	case op.InTurn:
		return turnPrefer
	}
	return turnAny
}

// opNode is one header produced by an op inside run.
type opNode struct {
	n     *node
	op    c29Op
	ok    bool
	why   string
	set   func(n *node)
	label string
	fresh bool
}

func clampList(idx []int) []int {
	seen := map[int]bool{}
	var out []int
	for _, k := range idx {
		k = ((k % nSealerKeys) + nSealerKeys) % nSealerKeys
		if !seen[k] {
			seen[k] = true
			out = append(out, k)
		}
	}
	if len(out) == 0 {
		out = []int{0}
	}
	if len(out) > 9 {
		out = out[:9]
	}
	return out
}

// buildOp turns an op into a header relative to the model. tip is the header "ext" builds on.
func (m *chainModel) buildOp(op c29Op, tip *node) (*types.Header, string) {
	e := m.e
	p := tip
	if op.Kind == "fork" || (op.Kind == "mut" && op.Parent > 0) {
		k := len(m.stored)
		if k > 8 {
			k = 8
		}
		p = m.stored[len(m.stored)-1-(op.Parent%k)]
	}
	if op.Kind == "side" {
		onCanon := map[*node]bool{}
		for q := tip; q != nil; q = q.parent {
			onCanon[q] = true
		}
		for i := len(m.stored) - 1; i >= 0; i-- {
			if !onCanon[m.stored[i]] {
				p = m.stored[i]
				break
			}
		}
	}
	switch e.ad.kind {
	case "clique":
		return m.cliqueBuildOp(op, p)
	case "bor":
		return m.borBuildOp(op, p)
	}
	var epoch []ecommon.Address
	if len(op.Epoch) > 0 {
		epoch = addrList(clampList(op.Epoch))
	}
	root := crypto.Keccak256Hash([]byte("root"), p.hash[:], []byte{byte(op.Signer), byte(op.Arg)})
	h, ki := m.goodChild(p, op.Signer, turnMode(op), epoch, root, op.Dt, op.Gas)
	tag := ""
	if epoch != nil {
		tag = "+epoch"
	}
	if op.Kind != "mut" {
		return h, op.Kind + tag
	}
	S := p.snap.vals
	num := h.Number.Uint64()
	rightDiff := func(a ecommon.Address) *big.Int {
		if S[num%uint64(len(S))] == a {
			return big.NewInt(2)
		}
		return big.NewInt(1)
	}
	resign := func(k int) { seal(h, e.sealID, sealerKey(k)) }
	label := "mut:" + op.Mut
	switch op.Mut {
	case "outsider":
		var out, pref []int
		for i := 0; i < nSealerKeys; i++ {
			a := sealerAddr(i)
			if indexOfAddr(S, a) < 0 {
				out = append(out, i)
				if indexOfAddr(p.snap.pend, a) >= 0 || indexOfAddr(epochListOf(m.genesis.h), a) >= 0 {
					pref = append(pref, i)
				}
			}
		}
		if len(pref) > 0 && op.Arg%3 != 0 {
			out = pref
			label += ":other-epoch-member"
		}
		k := out[op.Arg%len(out)]
		h.Coinbase = sealerAddr(k)
		h.Difficulty = big.NewInt(int64(1 + (op.Arg/3)%2))
		resign(k)
	case "recent":
		_, rec := m.allowedSigners(p)
		if len(rec) == 0 {
			return h, "mut:recent:none-available"
		}
		a := rec[op.Arg%len(rec)]
		h.Coinbase = a
		h.Difficulty = rightDiff(a)
		resign(keyIndexOf(a))
	case "recent-dist":
		// sealed by whoever sealed the block at distance d = 2.. (Arg) behind the new header (d = 1 is the parent)
		d := 2 + op.Arg%5
		if op.Arg >= 2 && op.Arg <= 6 {
			d = op.Arg
		}
		q := p
		for i := 1; i < d && q != nil; i++ {
			q = q.parent
		}
		if q == nil || keyIndexOf(q.h.Coinbase) < 0 {
			return h, "mut:recent-dist:no-such-ancestor"
		}
		a := q.h.Coinbase
		h.Coinbase = a
		h.Difficulty = rightDiff(a)
		resign(keyIndexOf(a))
		label = fmt.Sprintf("mut:recent-dist:d=%d:%s:%s", d, windowClass(d, len(S), indexOfAddr(S, a) >= 0), m.phase(p, num))
	case "recent-other-coinbase":
		// sealed by a validator that sealed d = 1.. blocks back (inside the window when possible), with the sealer's right
		// difficulty, but the miner field names another, non-recent validator
		allowed, rec := m.allowedSigners(p)
		if len(rec) == 0 {
			return h, "mut:recent-other-coinbase:none-available"
		}
		a := rec[op.Arg%len(rec)]
		claim := allowed[op.Signer%len(allowed)]
		if op.Arg%5 == 0 {
			claim = crypto.PubkeyToAddress(sealerKey((keyIndexOf(a) + 1) % nSealerKeys).PublicKey)
		}
		h.Coinbase = claim
		h.Difficulty = rightDiff(a)
		resign(keyIndexOf(a))
	case "diff-flip":
		h.Difficulty = big.NewInt(3 - h.Difficulty.Int64())
		resign(ki)
	case "diff-bad":
		h.Difficulty = []*big.Int{big.NewInt(0), big.NewInt(3), big.NewInt(4), new(big.Int).Lsh(big.NewInt(1), 40)}[op.Arg%4]
		resign(ki)
	case "coinbase":
		other := sealerAddr((ki + 1 + op.Arg) % nSealerKeys)
		if len(S) > 1 {
			other = S[(indexOfAddr(S, h.Coinbase)+1+op.Arg%(len(S)-1))%len(S)]
		}
		if other == h.Coinbase {
			other = sealerAddr((ki + 1) % nSealerKeys)
		}
		h.Coinbase = other
		h.Difficulty = rightDiff(other)
		if op.Arg%2 == 1 {
			h.Difficulty = rightDiff(sealerAddr(ki)) // difficulty of the real sealer, only the miner field lies
			label += ":sealer-difficulty"
		}
		resign(ki) // sealed by ki, claims other
	case "extra-short":
		h.Extra = h.Extra[:[]int{0, 20, 31, 32, 64, 96}[op.Arg%6]]
	case "extra-odd":
		odd := make([]byte, []int{1, 7, 19, 21, 27, 39}[op.Arg%6])
		for i := range odd {
			odd[i] = byte(i + 1)
		}
		x := append([]byte{}, h.Extra[:extraVanity]...)
		x = append(x, odd...)
		h.Extra = append(x, make([]byte, extraSeal)...)
		resign(ki)
	case "mix":
		h.MixDigest = crypto.Keccak256Hash([]byte{byte(op.Arg)})
		resign(ki)
	case "uncle":
		h.UncleHash = []ecommon.Hash{{}, types.EmptyRootHash, crypto.Keccak256Hash([]byte{1})}[op.Arg%3]
		resign(ki)
	case "gas-jump":
		pg := int64(p.h.GasLimit)
		div := int64(e.ad.gasDiv)
		if div == 0 {
			div = 1024
		}
		lim := pg / div
		switch op.Arg % 6 {
		case 0:
			h.GasLimit = uint64(pg + lim)
		case 1:
			h.GasLimit = uint64(pg - lim)
		case 2:
			h.GasLimit = uint64(pg + lim - 1) // boundary, allowed
		case 3:
			h.GasLimit = uint64(pg - lim + 1) // boundary, allowed
		case 4:
			h.GasLimit = uint64(pg * 2)
		case 5:
			h.GasLimit = 4999
		}
		if h.GasUsed > h.GasLimit {
			h.GasUsed = h.GasLimit
		}
		label += fmt.Sprintf(":%d", op.Arg%6)
		if e.ad.gasDiv == 0 {
			label += ":unjudged" // this router documents no gas-limit delta rule
		}
		resign(ki)
	case "gas-used":
		h.GasUsed = h.GasLimit + 1 + uint64(op.Arg)
		resign(ki)
	case "number":
		d := int64(1)
		if op.Arg%2 == 0 {
			d = -1
		}
		h.Number = new(big.Int).SetInt64(int64(num) + d)
		resign(ki)
	case "unknown-parent":
		h.ParentHash = crypto.Keccak256Hash([]byte("nowhere"), []byte{byte(op.Arg)})
		resign(ki)
	case "badsig":
		h.Extra[len(h.Extra)-extraSeal+op.Arg%64] ^= 0x5a
	case "sig-v":
		h.Extra[len(h.Extra)-1] = []byte{27, 28, 2, 4, 0xff}[op.Arg%5]
	case "chainid":
		if e.sealID != nil {
			alt := []*big.Int{new(big.Int).SetUint64(e.evmID + 1), big.NewInt(0), nil}[op.Arg%3]
			seal(h, alt, sealerKey(ki))
		} else {
			seal(h, new(big.Int).SetUint64(e.evmID), sealerKey(ki))
		}
	case "time-early":
		if e.period > 0 {
			h.Time = p.h.Time + e.period - 1
		} else {
			h.Time = p.h.Time
			label += ":period0"
		}
		resign(ki)
	case "epoch-force":
		h.Extra = makeExtra(byte(num), addrList(clampList(op.Epoch)))
		resign(ki)
	case "zero-sig":
		copy(h.Extra[len(h.Extra)-extraSeal:], make([]byte, extraSeal))
	default:
		panic("harness: unknown mutation " + op.Mut)
	}
	return h, label + tag
}

func runC29(ctx *ev.Ctx, c c29Case) { runC29With(ctx, c, nil) }

// runC29With: hook != nil makes the run a transaction source for another unit (no C29 evidence tables).
func runC29With(ctx *ev.Ctx, c c29Case, hook txHook) {
	ad := adapterOf(c.Router)
	if ad == nil {
		panic("harness: unknown router " + c.Router)
	}
	list, prev := addrList(clampList(c.List)), addrList(clampList(c.Prev))
	gnum := c.GNum
	if gnum == 0 {
		gnum = 1
	}
	e := newEnv(ad, 1000+ad.router, c.EvmID, c.Period, 1, crypto.Keccak256([]byte("ccmc"))[:20], c.Epoch)
	e.hook = hook
	defer e.w.Store.Close() // releases the store's background goroutines and buffers
	var m *chainModel
	var err error
	groot := crypto.Keccak256Hash([]byte("groot"))
	switch ad.kind {
	case "clique":
		m, err = startClique(e, gnum, list, clampList(c.List)[c.GCoin%len(clampList(c.List))], groot)
	case "bor":
		m, err = startBor(e, gnum, list, c.GCoin, groot)
	default:
		m, err = startChain(e, gnum, list, prev, sealerAddr(c.GCoin%nSealerKeys), groot)
	}
	if err != nil {
		ctx.Failf("setup (%s): a well-formed trust root was refused: %v", ad.name, err)
	}
	ctx.Label("router:" + ad.name)
	stats := struct{ stored, rejected, refRejected, mutRejected, epochSealed int }{}

	head := m.genesis
	for i := 0; i < len(c.Ops); {
		// one transaction = ops[i..j)
		j := i + 1
		for j < len(c.Ops) && c.Ops[j-1].Batch && j-i < 4 {
			j++
		}
		var batch []*opNode
		tip := head
		allOK := true
		tentative := map[*node]bool{}
		for _, op := range c.Ops[i:j] {
			h, label := m.buildOp(op, tip)
			hash := h.Hash()
			on := &opNode{op: op, label: label}
			if old := m.byHash[hash]; old != nil {
				on.n, on.ok, on.label = old, old.stored, label+":resubmitted"
				batch = append(batch, on)
				continue
			}
			n := &node{h: h, hash: hash, parent: m.byHash[h.ParentHash], label: label}
			on.n, on.fresh = n, true
			p := n.parent
			if p != nil && tentative[p] {
				p.stored = true // evaluate the child as if the earlier header of this batch were stored
				on.ok, on.why, on.set = m.check(p, h)
				p.stored = false
			} else {
				on.ok, on.why, on.set = m.check(p, h)
			}
			if p != nil && h.Difficulty != nil {
				n.td = new(big.Int).Add(p.td, h.Difficulty)
			}
			if on.ok {
				on.set(n)
				tentative[n] = true
				if op.Kind == "ext" {
					tip = n
				}
			} else {
				allOK = false
			}
			m.add(n)
			batch = append(batch, on)
		}
		i = j

		raws := make([][]byte, len(batch))
		for k, on := range batch {
			raws[k] = m.wire(on.n.h)
		}
		res := e.syncHeaders(raws)
		e.w.NextBlock()
		if res.Panic != "" {
			ctx.Failf("%s syncBlockHeader panicked on header %s: %s", ad.name, batch[len(batch)-1].label, res.Panic)
		}

		for _, on := range batch {
			n := on.n
			raw := e.storedRaw(n.hash)
			switch {
			case raw != nil && !n.stored:
				if !on.fresh {
					// known, previously rejected header now stored: judge with the recorded verdict below
					on.ok, on.why, on.set = m.check(n.parent, n.h)
					if on.ok {
						on.set(n)
					}
				}
				if n.parent == nil || !n.parent.stored {
					ctx.Failf("%s stored header %x (height %v, %s) whose parent %x is not stored", ad.name, n.hash[:6], n.h.Number, on.label, n.h.ParentHash[:6])
				}
				if !on.ok && ad.kind == "clique" && on.why == whyUnauthorised {
					// known finding of the msc router: is membership the ONLY violated clause?
					if ok2, _, set2 := m.cliqueCheckOpt(n.parent, n.h, true, false); ok2 {
						if ctx.Known(keyMscUnauthorised, "msc stored header %x (height %v, op %s, difficulty %v) sealed by key %d, which is not among the authorised signers %s; every other rule holds",
							n.hash[:6], n.h.Number, on.label, n.h.Difficulty, sealerIndex(n.h), fmtSet(m.setInForce(n.parent))) {
							ctx.Label("known:" + keyMscUnauthorised)
							set2(n)
							on.ok = true
						}
					}
				}
				if !on.ok && ad.kind == "clique" && strings.HasPrefix(on.why, whyRecentPrefix) {
					// second known finding of the msc router: recent-signer rule skipped after an earlier vote
					if ok2, _, set2 := m.cliqueCheckOpt(n.parent, n.h, false, true); ok2 {
						if ctx.Known(keyMscRecent, "msc stored header %x (height %v, op %s) although its %s; signers in force %s; every other rule holds",
							n.hash[:6], n.h.Number, on.label, on.why, fmtSet(m.setInForce(n.parent))) {
							ctx.Label("known:" + keyMscRecent)
							set2(n)
							on.ok = true
						}
					}
				}
				if !on.ok {
					ctx.Failf("%s stored header %x (height %v, op %s, coinbase key %d, difficulty %v, set in force %s) that violates the reference predicate: %s",
						ad.name, n.hash[:6], n.h.Number, on.label, keyIndexOf(n.h.Coinbase), n.h.Difficulty, fmtSet(m.setInForce(n.parent)), on.why)
				}
				if td := storedTD(raw); td == nil || td.Cmp(n.td) != 0 {
					ctx.Failf("%s recorded total difficulty %v for header %x, branch sum is %v", ad.name, td, n.hash[:6], n.td)
				}
				m.markStored(n)
				stats.stored++
				ctx.Label("stored:" + on.label)
				if m.setGen(n.parent) > 0 || (ad.kind == "bor" && m.borSuccession(n.sealer) > 0) {
					stats.epochSealed++
				}
			case raw == nil && n.stored:
				ctx.Failf("%s: stored header %x (height %v) disappeared", ad.name, n.hash[:6], n.h.Number)
			case raw == nil:
				stats.rejected++
				ctx.Label("rejected:" + on.label)
				if on.op.Kind == "mut" && !on.ok {
					stats.mutRejected++
				}
				if on.ok && allOK && on.fresh {
					// reference-valid header refused: counted, not judged (soundness-only oracle)
					stats.refRejected++
					ctx.Label("reference-valid-rejected:" + on.label)
					if os.Getenv("PEVM_DEBUG") != "" {
						fmt.Printf("REFREJ %s %s height %v: %v\n", ad.name, on.label, n.h.Number, res.Err)
					}
				}
			}
		}

		nh, problem := m.checkForkChoice()
		if problem != "" {
			ctx.Failf("%s fork choice after %s: %s", ad.name, batch[len(batch)-1].label, problem)
		}
		hashes, _ := e.scan()
		for _, hh := range hashes {
			if n := m.byHash[hh]; n == nil || !n.stored {
				ctx.Failf("%s: header index holds %x which the harness never saw stored", ad.name, hh[:6])
			}
		}
		if len(hashes) != len(m.stored) {
			ctx.Failf("%s: header index holds %d headers, model %d", ad.name, len(hashes), len(m.stored))
		}
		if nh != head && nh.td.Cmp(head.td) == 0 {
			ctx.Label("head-switch-on-tie")
		}
		head = nh
	}

	if stats.epochSealed > 0 && stats.mutRejected > 0 && hook == nil {
		ctx.NonTrivial()
	}
	if stats.epochSealed > 0 {
		ctx.Label("set-change-exercised:" + ad.name)
	}
	if hook != nil {
		return
	}
	c29Mu.Lock()
	c29Cases[ad.name]++
	c29Stored[ad.name] += stats.stored
	c29Reject[ad.name] += stats.rejected
	c29RefRej[ad.name] += stats.refRejected
	c29Mu.Unlock()
	c29Flush()
}

const keyMscUnauthorised = "msc-unauthorised-sealer-stored"
const keyMscRecent = "msc-recent-signer-after-vote-stored"

func sealerIndex(h *types.Header) int {
	if len(h.Extra) < extraSeal {
		return -1
	}
	a, err := recoverSigner(h, nil)
	if err != nil {
		return -1
	}
	return keyIndexOf(a)
}

func fmtSet(s []ecommon.Address) string {
	out := "["
	for i, a := range s {
		if i > 0 {
			out += " "
		}
		out += fmt.Sprint(keyIndexOf(a))
	}
	return out + "]"
}

func TestC29(t *testing.T) {
	ev.Drive(t, "C29",
		"cases: a trust root (validator list 1..9, previous list, height 1..400) for one router of {bsc, bytom, heco, hsc, pixiechain, msc, polygon-bor} and 6..44 (thorough 110) ops, "+
			"each producing one header relative to the harness's model of the header tree: valid extensions of the canonical head, valid forks on earlier headers, "+
			"headers announcing a new validator list, and headers with exactly one broken rule (outsider / recent signer, wrong difficulty, coinbase != signer, malformed extra, "+
			"mix digest, uncle hash, gas limit, number, unknown parent, corrupted seal, wrong chain id, early timestamp, forced epoch list); some ops share one transaction. "+
			"msc: Clique chains whose headers may carry add/drop votes and checkpoints every 3..12 blocks; polygon-bor: chains inside one sprint over the producer set of the trust-root snapshot. "+
			"non-trivial: at least one header was stored under a validator set that replaced an earlier one on its branch (polygon-bor: sealed by a backup producer) AND at least one broken header was rejected; distinct by JSON of the case",
		genC29, runC29)
}
