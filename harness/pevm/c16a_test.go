package pevm

import (
	"bytes"
	"crypto/sha256"
	"fmt"
	"os"
	"sync"
	"testing"

	"github.com/polynetwork/poly/common/config"
	"github.com/polynetwork/poly/common/verifclock"
	"github.com/polynetwork/poly/core/payload"
	scommon "github.com/polynetwork/poly/core/store/common"
	"github.com/polynetwork/poly/core/store/overlaydb"
	ptypes "github.com/polynetwork/poly/core/types"
	"github.com/polynetwork/poly/native"
	"github.com/polynetwork/poly/native/storage"
	"pgregory.net/rapid"

	"verif/harness/ev"
	"verif/harness/world"
)

// ---------------------------------------------------------------------------------------------
// C16 part A (PoSA routers): executing the same transaction on the same prior state always yields
// the same verdict, write set and notifications, independent of Go map iteration order.
//
// Transaction source: the C29 generator (trust-root install, header syncs incl. epoch headers /
// votes / forks / reorganisations / broken headers) followed by the C23 generator (header chain +
// deposit imports, honest and mutated). Every transaction is first executed k times (8, thorough
// 16) on throw-away forks of the current state - a fresh overlay whose backing store reads through
// the world's block layer - and only then once for real. The clock is pinned (verifclock.SetFake)
// so the known wall-clock sites cannot interfere.

type c16aCase struct {
	Chain c29Case `json:"chain"`
	Proof c23Case `json:"proof"`
}

func genC16A(t *rapid.T) c16aCase {
	c := c16aCase{Chain: genC29(t), Proof: genC23(t)}
	if len(c.Chain.Ops) > 28 {
		c.Chain.Ops = c.Chain.Ops[:28]
	}
	if len(c.Proof.Imports) > 4 {
		c.Proof.Imports = c.Proof.Imports[:4]
	}
	if r := os.Getenv("PEVM_ROUTER"); r != "" {
		c.Chain.Router, c.Proof.Router = r, r
	}
	return c
}

// readThrough is a read-only PersistStore view of a world's block layer.
type readThrough struct{ o *overlaydb.OverlayDB }

func (r readThrough) Get(key []byte) ([]byte, error) {
	v, err := r.o.Get(key)
	if err != nil {
		return nil, err
	}
	if v == nil {
		return nil, scommon.ErrNotFound
	}
	return v, nil
}
func (r readThrough) Has(key []byte) (bool, error) {
	v, err := r.o.Get(key)
	return v != nil, err
}
func (r readThrough) NewIterator(prefix []byte) scommon.StoreIterator { return r.o.NewIterator(prefix) }
func (r readThrough) Put(key []byte, value []byte) error              { panic("harness: read-only view") }
func (r readThrough) Delete(key []byte) error                         { panic("harness: read-only view") }
func (r readThrough) NewBatch()                                       {}
func (r readThrough) BatchPut(key []byte, value []byte)               { panic("harness: read-only view") }
func (r readThrough) BatchDelete(key []byte)                          { panic("harness: read-only view") }
func (r readThrough) BatchCommit() error                              { return nil }
func (r readThrough) Close() error                                    { return nil }

// execImage: everything observable of one execution.
type execImage struct {
	verdict string
	writes  [][2][]byte
	events  []string
	digest  [32]byte
}

func forkExec(w *world.World, tx *ptypes.Transaction) execImage {
	fork := overlaydb.VerifNewOverlayDB(readThrough{w.Overlay}, 64*1024, 64)
	cache := storage.NewCacheDB(fork)
	var img execImage
	code := tx.Payload.(*payload.InvokeCode).Code
	svc, err := native.NewNativeService(cache, tx, w.Time, w.Height, w.BlockHash, w.ChainID, code, false)
	if err != nil {
		img.verdict = "service: " + err.Error()
	} else {
		func() {
			defer func() {
				if r := recover(); r != nil {
					err = fmt.Errorf("panic: %v", r)
				}
			}()
			_, err = svc.Invoke()
		}()
		if err != nil {
			img.verdict = "error: " + err.Error()
		} else {
			img.verdict = "ok"
			cache.Commit()
			for _, n := range svc.GetNotify() {
				img.events = append(img.events, fmt.Sprintf("%x %v", n.ContractAddress[:], n.States))
			}
			for _, h := range svc.GetCrossHashes() {
				img.events = append(img.events, fmt.Sprintf("cross %x", h[:]))
			}
		}
	}
	h := sha256.New()
	h.Write([]byte(img.verdict))
	fork.GetWriteSet().ForEach(func(k, v []byte) {
		img.writes = append(img.writes, [2][]byte{append([]byte{}, k...), append([]byte{}, v...)})
		fmt.Fprintf(h, "|%d:%x=%d:%x", len(k), k, len(v), v)
	})
	for _, e := range img.events {
		fmt.Fprintf(h, "|ev:%s", e)
	}
	copy(img.digest[:], h.Sum(nil))
	return img
}

func (a execImage) diff(b execImage) string {
	if a.verdict != b.verdict {
		return fmt.Sprintf("verdict %q vs %q", clipStr(a.verdict), clipStr(b.verdict))
	}
	if len(a.writes) != len(b.writes) {
		return fmt.Sprintf("%d vs %d written keys", len(a.writes), len(b.writes))
	}
	for i := range a.writes {
		if !bytes.Equal(a.writes[i][0], b.writes[i][0]) {
			return fmt.Sprintf("written key #%d: %x vs %x", i, a.writes[i][0], b.writes[i][0])
		}
		if !bytes.Equal(a.writes[i][1], b.writes[i][1]) {
			return fmt.Sprintf("value of key %x: %s vs %s", a.writes[i][0], clipStr(fmt.Sprintf("%x", a.writes[i][1])), clipStr(fmt.Sprintf("%x", b.writes[i][1])))
		}
	}
	for i := range a.events {
		if i >= len(b.events) || a.events[i] != b.events[i] {
			return fmt.Sprintf("notification #%d differs", i)
		}
	}
	if len(a.events) != len(b.events) {
		return fmt.Sprintf("%d vs %d notifications", len(a.events), len(b.events))
	}
	return ""
}

func clipStr(s string) string {
	if len(s) > 220 {
		return s[:220] + "..."
	}
	return s
}

var (
	c16aMu      sync.Mutex
	c16aRouters = map[string]int{}
	c16aTx      = map[string]int{}
)

func runC16A(ctx *ev.Ctx, c c16aCase) {
	k := ev.Scale(8, 16)
	verifclock.SetFake(2000000000)
	defer verifclock.ClearFake()
	old := config.DefConfig.Common.EnableEventLog
	config.DefConfig.Common.EnableEventLog = true // header sync and imports notify only when the event log is on
	defer func() { config.DefConfig.Common.EnableEventLog = old }()
	okTx := 0
	hook := func(e *chainEnv, tx *ptypes.Transaction) {
		first := forkExec(e.w, tx)
		for i := 1; i < k; i++ {
			img := forkExec(e.w, tx)
			if img.digest != first.digest {
				ctx.Failf("%s: execution #%d of the same transaction on the same prior state differs from execution #1: %s", e.ad.name, i+1, first.diff(img))
			}
		}
		c16aMu.Lock()
		kind := "rejected"
		if first.verdict == "ok" {
			kind = "ok"
			okTx++
		}
		c16aTx[e.ad.name+"/"+kind]++
		c16aMu.Unlock()
	}
	runC29With(ctx, c.Chain, hook)
	runC23With(ctx, c.Proof, hook)
	if len(clampList(c.Chain.List)) >= 3 && okTx > 0 {
		ctx.NonTrivial() // the installed trust root (validator list / signer set / producer snapshot) derives from >= 3 validators
	}
	c16aMu.Lock()
	c16aRouters[c.Chain.Router]++
	c16aRouters[c.Proof.Router]++
	c16aMu.Unlock()
	id := propID("C16")
	ev.Get(id).Extra("routers", c16aRouters)
	ev.Get(id).Extra("transactions", c16aTx)
}

func TestC16AEvm(t *testing.T) {
	ev.Drive(t, propID("C16"),
		"part A, PoSA-router unit (bsc, bytom, heco, hsc, pixiechain, msc, polygon-bor): transactions of the C29 generator (trust-root install, <=28 header-sync ops incl. epoch lists / Clique votes / forks / reorganisations / broken headers) "+
			"and of the C23 generator (header chain with side branch, <=4 deposit imports, honest or mutated); each transaction is executed 8 (thorough 16) times on throw-away forks of the same prior state with the clock pinned, then once for real. "+
			"Required: identical verdict, byte-identical write set, identical notifications and cross hashes. non-trivial: a trust root derived from >= 3 validators was installed; distinct by JSON of the case",
		genC16A, runC16A)
}
