package pevm

import (
	"bytes"
	"fmt"
	"math/big"
	"os"
	"sync"
	"testing"

	ecommon "github.com/ethereum/go-ethereum/common"
	"github.com/ethereum/go-ethereum/crypto"
	"github.com/polynetwork/poly/common"
	hscom "github.com/polynetwork/poly/native/service/header_sync/common"
	"github.com/polynetwork/poly/native/service/utils"
	"pgregory.net/rapid"

	"verif/harness/ev"
	"verif/harness/world"
)

// ---------------------------------------------------------------------------------------------
// C19 (PoSA routers): the trust root of a side chain can be installed at most once.
//
// A case registers 1..3 side chains (routers drawn from the seven PoSA routers, several chains may
// share a router) in one world and runs a history of installs (syncGenesisHeader with a generated
// witness set and a generated trust-root document) and header syncs. Oracle: once a chain has a
// trust root, every later install for that chain id returns an error and the complete contract
// state is byte-identical before/after; a successful install or sync changes only header-sync keys
// of its own chain id.

type c19Chain struct {
	Router string `json:"router"`
	Vals   []int  `json:"vals"`
	GNum   uint64 `json:"gnum"`
}

type c19Op struct {
	Kind    string `json:"k"`           // install | sync
	Chain   int    `json:"c"`           // which chain (mod number of chains)
	Variant string `json:"v,omitempty"` // same | vals | header | height | garbage | empty
	Signer  string `json:"s,omitempty"` // operator | validator | validators | outsider | none | operator+outsider
	N       int    `json:"n,omitempty"` // sync: number of headers
	Arg     int    `json:"a,omitempty"` // variation selector
}

type c19Case struct {
	Chains []c19Chain `json:"chains"`
	Ops    []c19Op    `json:"ops"`
}

var c19Variants = []string{"same", "same", "vals", "vals", "header", "height", "garbage", "empty"}
var c19Signers = []string{"operator", "operator", "operator", "operator", "validator", "validators", "outsider", "none", "operator+outsider"}

func propID(def string) string {
	if v := os.Getenv("VERIF_PROP_ID"); v != "" { // development only: lets a helper entry (_C19evm, _C16Bevm) collect the shard files
		return v
	}
	return def
}

func genC19(t *rapid.T) c19Case {
	var c c19Case
	n := rapid.IntRange(1, 3).Draw(t, "nchains")
	for i := 0; i < n; i++ {
		ch := c19Chain{Router: rapid.SampledFrom(c23Routers()).Draw(t, "router"), Vals: genKeyList(t, "vals", 1, 5), GNum: uint64(rapid.IntRange(2, 300).Draw(t, "gnum"))}
		if r := os.Getenv("PEVM_ROUTER"); r != "" && i == 0 {
			ch.Router = r // development aid only
		}
		c.Chains = append(c.Chains, ch)
	}
	c.Ops = rapid.SliceOfN(rapid.Custom(func(t *rapid.T) c19Op {
		op := c19Op{Chain: rapid.IntRange(0, 2).Draw(t, "chain"), Arg: rapid.IntRange(0, 15).Draw(t, "arg")}
		if rapid.IntRange(0, 9).Draw(t, "kind") < 7 {
			op.Kind = "install"
			op.Variant = rapid.SampledFrom(c19Variants).Draw(t, "variant")
			op.Signer = rapid.SampledFrom(c19Signers).Draw(t, "signer")
		} else {
			op.Kind = "sync"
			op.N = rapid.IntRange(1, 4).Draw(t, "n")
		}
		return op
	}), 2, ev.Scale(12, 24)).Draw(t, "ops")
	// most chains get their trust root early, so that the history is about what follows
	var pre []c19Op
	for i := range c.Chains {
		if rapid.IntRange(0, 5).Draw(t, "early") > 0 {
			pre = append(pre, c19Op{Kind: "install", Chain: i, Variant: "same", Signer: "operator"}, c19Op{Kind: "sync", Chain: i, N: rapid.IntRange(1, 3).Draw(t, "n0")})
		}
	}
	c.Ops = append(pre, c.Ops...)
	return c
}

var (
	c19Mu       sync.Mutex
	c19Routers  = map[string]int{}
	c19Attempts = map[string]int{}
	c19NotInst  = map[string]int{}
)

// hsPrefixes: every header-sync key prefix that is followed by the chain id.
var hsPrefixes = []string{hscom.CROSS_CHAIN_MSG, hscom.CURRENT_MSG_HEIGHT, hscom.BLOCK_HEADER, hscom.CURRENT_HEADER_HEIGHT, hscom.HEADER_INDEX,
	hscom.CONSENSUS_PEER, hscom.CONSENSUS_PEER_BLOCK_HEIGHT, hscom.KEY_HEIGHTS, hscom.ETH_CACHE, hscom.GENESIS_HEADER, hscom.MAIN_CHAIN,
	hscom.EPOCH_SWITCH, hscom.POLYGON_SPAN}

// chainOfKey tells whether a raw dump key is a header-sync key of chain id.
func isChainKey(rawKey []byte, id uint64) bool {
	if len(rawKey) < 21 || !bytes.Equal(rawKey[1:21], utils.HeaderSyncContractAddress[:]) {
		return false
	}
	rest := rawKey[21:]
	for _, p := range hsPrefixes {
		if bytes.HasPrefix(rest, append([]byte(p), le64(id)...)) {
			return true
		}
	}
	return false
}

// foreignChange describes the first changed entry between two dumps that is not a header-sync key of chain id.
func foreignChange(before, after [][2][]byte, id uint64) string {
	bm := map[string][]byte{}
	for _, kv := range before {
		bm[string(kv[0])] = kv[1]
	}
	for _, kv := range after {
		v, ok := bm[string(kv[0])]
		if ok && bytes.Equal(v, kv[1]) {
			delete(bm, string(kv[0]))
			continue
		}
		delete(bm, string(kv[0]))
		if !isChainKey(kv[0], id) {
			return fmt.Sprintf("key %x written", kv[0])
		}
	}
	for k := range bm {
		if !isChainKey([]byte(k), id) {
			return fmt.Sprintf("key %x removed", k)
		}
	}
	return ""
}

type c19State struct {
	e         *chainEnv
	fam       *family
	cfg       c19Chain
	installed *chainModel
	tip       *node
	synced    int
}

func runC19(ctx *ev.Ctx, c c19Case) {
	if len(c.Chains) == 0 {
		return
	}
	w := world.New(4, world.Opts{})
	defer w.Store.Close()
	var chains []*c19State
	for i, ch := range c.Chains {
		fam := familyOf(ch.Router)
		if fam == nil {
			panic("harness: unknown router " + ch.Router)
		}
		e := newEnvIn(w, fam.ad, 3000+uint64(i), 97, 1, 1, crypto.Keccak256([]byte("ccmc"), []byte{byte(i)})[:20], 16)
		chains = append(chains, &c19State{e: e, fam: fam, cfg: ch})
	}
	witnesses := func(kind string) []common.Address {
		switch kind {
		case "operator":
			return []common.Address{w.Operator()}
		case "validator":
			return []common.Address{w.Validators[0].Address}
		case "validators":
			var out []common.Address
			for _, v := range w.Validators {
				out = append(out, v.Address)
			}
			return out
		case "outsider":
			return []common.Address{world.Acct(50).Address}
		case "operator+outsider":
			return []common.Address{world.Acct(50).Address, w.Operator()}
		}
		return nil
	}
	firstOK := map[string]bool{}
	nontrivial := false
	for _, op := range c.Ops {
		st := chains[op.Chain%len(chains)]
		name := st.fam.ad.name
		switch op.Kind {
		case "sync":
			if st.installed == nil {
				ctx.Label("sync-before-install:skipped")
				continue
			}
			for k := 0; k < op.N; k++ {
				m := st.installed
				h := st.fam.grow(m, st.tip, crypto.Keccak256Hash([]byte("r"), st.tip.hash[:]), false)
				n := &node{h: h, hash: h.Hash(), parent: st.tip, td: new(big.Int).Add(st.tip.td, h.Difficulty)}
				st.fam.after(m, st.tip, n)
				m.add(n)
				before := w.Dump()
				res := st.e.syncHeaders([][]byte{m.wire(h)})
				w.NextBlock()
				if !res.OK() || st.e.storedRaw(n.hash) == nil {
					ctx.Label("valid-header-refused:" + name) // completeness of header sync is C29's count, not judged here
					break
				}
				if ch := foreignChange(before, w.Dump(), st.e.chainID); ch != "" {
					ctx.Failf("%s: syncBlockHeader for chain %d changed state outside that chain: %s", name, st.e.chainID, ch)
				}
				m.markStored(n)
				st.tip = n
				st.synced++
			}
		case "install":
			vals := clampList(st.cfg.Vals)
			gnum := st.cfg.GNum
			root := crypto.Keccak256Hash([]byte("c19-root"), []byte{byte(op.Chain)})
			variant := op.Variant
			if st.installed == nil && (variant == "same") {
				variant = "first"
			}
			switch variant {
			case "vals":
				vals = clampList(append([]int{vals[0] + 1 + op.Arg}, vals[1:]...))
				if op.Arg%2 == 0 {
					vals = append(vals, (vals[0]+7)%nSealerKeys)
					vals = clampList(vals)
				}
			case "header":
				root = crypto.Keccak256Hash([]byte("c19-other-root"), []byte{byte(op.Arg)})
			case "height":
				gnum += uint64(1+op.Arg) * 300
				if st.installed != nil && op.Arg%3 == 0 {
					gnum = st.tip.h.Number.Uint64() + 1 // right above the synced tip
				}
			}
			tr := st.fam.prepare(st.e, gnum, vals, root)
			switch variant {
			case "garbage":
				tr.raw = tr.raw[:len(tr.raw)/2]
			case "empty":
				tr.raw = nil
			}
			before := w.Dump()
			res := tr.install(witnesses(op.Signer))
			w.NextBlock()
			after := w.Dump()
			changed := world.DiffDump(before, after)
			cls := fmt.Sprintf("%s/%s/%s", name, variant, op.Signer)
			if res.Panic != "" {
				ctx.Failf("%s: syncGenesisHeader (%s) panicked: %s", name, cls, res.Panic)
			}
			if st.installed == nil {
				// no trust root yet: not under judgement except for containment of the effect
				if res.Err != nil {
					ctx.Label("first-install-refused:" + variant + "/" + op.Signer)
					if changed != "" {
						ctx.Failf("%s: refused syncGenesisHeader (%s) changed state: %s", name, cls, changed)
					}
					if op.Signer == "operator" && (variant == "first" || variant == "vals" || variant == "header" || variant == "height") {
						c19Mu.Lock()
						c19NotInst[name]++
						c19Mu.Unlock()
						ctx.Label("valid-operator-install-refused:" + name)
					}
					continue
				}
				if changed == "" {
					if !ctx.Known(name+"-genesis-install-reports-success-without-state", "%s: first syncGenesisHeader (%s) reported success but stored nothing", name, cls) {
						return
					}
					continue
				}
				if ch := foreignChange(before, after, st.e.chainID); ch != "" {
					ctx.Failf("%s: syncGenesisHeader for chain %d changed state outside that chain: %s", name, st.e.chainID, ch)
				}
				if err := tr.confirm(); err != nil {
					ctx.Failf("%s: syncGenesisHeader (%s) succeeded but %v", name, cls, err)
				}
				if op.Signer != "operator" && op.Signer != "operator+outsider" {
					ctx.Label("install-without-operator-witness-accepted:" + name) // C18's subject; recorded, the model follows the code
				}
				st.installed, st.tip = tr.m, tr.m.genesis
				ctx.Label("installed:" + name)
				if !firstOK[name] {
					firstOK[name] = true
				}
				continue
			}
			// a trust root exists: every attempt must fail and leave the state untouched
			c19Mu.Lock()
			c19Attempts[name]++
			c19Mu.Unlock()
			ctx.Label("reinstall:" + variant + "/" + op.Signer)
			if res.Err == nil {
				if changed != "" {
					if ctx.Known(name+"-genesis-reinstall-accepted", "%s: second syncGenesisHeader (%s) for chain %d after %d synced headers succeeded and changed state: %s",
						name, cls, st.e.chainID, st.synced, changed) {
						return // the model cannot follow a replaced trust root
					}
				}
				if ctx.Known(name+"-genesis-reinstall-reports-success", "%s: second syncGenesisHeader (%s) for chain %d reported success (state unchanged)", name, cls, st.e.chainID) {
					continue
				}
			}
			if changed != "" {
				ctx.Failf("%s: failed second syncGenesisHeader (%s) for chain %d changed state: %s", name, cls, st.e.chainID, changed)
			}
			if st.synced > 0 && (variant == "vals" || variant == "header" || variant == "height") {
				nontrivial = true
			}
		}
	}
	// the light client still works on every installed chain: its canonical bookkeeping is intact
	for _, st := range chains {
		if st.installed == nil {
			continue
		}
		if head, problem := st.installed.checkForkChoice(); problem != "" {
			ctx.Failf("%s: chain %d bookkeeping after the history: %s", st.fam.ad.name, st.e.chainID, problem)
		} else if head != st.tip {
			ctx.Failf("%s: chain %d canonical head is %x, the synced tip is %x", st.fam.ad.name, st.e.chainID, head.hash[:6], st.tip.hash[:6])
		}
	}
	if nontrivial {
		ctx.NonTrivial()
	}
	c19Mu.Lock()
	for r := range firstOK {
		c19Routers[r]++
	}
	c19Mu.Unlock()
	id := propID("C19")
	ev.Get(id).Extra("routers", c19Routers)
	ev.Get(id).Extra("routers_reinstall_attempts", c19Attempts)
	ev.Get(id).Extra("routers_valid_operator_install_refused", c19NotInst)
}

func TestC19(t *testing.T) {
	ev.Drive(t, propID("C19"),
		"PoSA-router unit (bsc, bytom, heco, hsc, pixiechain, msc, polygon-bor): 1..3 registered side chains in one world (routers may repeat) and 2..12 (thorough 24) ops: "+
			"syncGenesisHeader with a generated witness set (operator, one validator, all validators individually, outsider, none, operator+outsider) and a generated trust-root document "+
			"(the chain's own, other validators, other header, other height incl. right above the synced tip, truncated, empty), interleaved with syncBlockHeader of valid headers and with the other chains. "+
			"non-trivial: a re-install with different data for a chain that already has a trust root and >=1 synced header; distinct by JSON of the case",
		genC19, runC19)
}

var _ = ecommon.Hash{}
