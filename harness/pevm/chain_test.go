package pevm

// Synthetic proof-of-staked-authority chains: sealer keys, header construction, one small adapter
// per router, the plumbing that drives the real native contracts, black-box readers of what the
// light client stored, and the reference model (written from the property statement and the
// Parlia / Congress rules, simulated forwards along each branch, never calling the routers).

import (
	"bytes"
	"crypto/ecdsa"
	"encoding/binary"
	"encoding/json"
	"fmt"
	"math/big"
	"sort"
	"strings"
	"sync"

	ecommon "github.com/ethereum/go-ethereum/common"
	"github.com/ethereum/go-ethereum/core/types"
	"github.com/ethereum/go-ethereum/crypto"
	"github.com/ethereum/go-ethereum/rlp"
	"github.com/polynetwork/poly/common"
	ptypes "github.com/polynetwork/poly/core/types"
	"github.com/polynetwork/poly/native/service/governance/side_chain_manager"
	hscom "github.com/polynetwork/poly/native/service/header_sync/common"
	"github.com/polynetwork/poly/native/service/utils"

	"verif/harness/world"
)

// ---------------------------------------------------------------------------------------------
// sealer keys (secp256k1), deterministic

const nSealerKeys = 14

var (
	keyMu    sync.Mutex
	keyCache = map[int]*ecdsa.PrivateKey{}
)

func sealerKey(i int) *ecdsa.PrivateKey {
	keyMu.Lock()
	defer keyMu.Unlock()
	if k, ok := keyCache[i]; ok {
		return k
	}
	seed := crypto.Keccak256([]byte(fmt.Sprintf("verif-posa-sealer-%d", i)))
	k, err := crypto.ToECDSA(seed)
	if err != nil {
		panic(err)
	}
	keyCache[i] = k
	return k
}

func sealerAddr(i int) ecommon.Address { return crypto.PubkeyToAddress(sealerKey(i).PublicKey) }

func keyIndexOf(a ecommon.Address) int {
	for i := 0; i < nSealerKeys; i++ {
		if sealerAddr(i) == a {
			return i
		}
	}
	return -1
}

// ---------------------------------------------------------------------------------------------
// adapters

type adapter struct {
	name        string
	router      uint64
	kind        string // "" = Parlia/Congress family (validator lists in epoch headers), "clique" = msc (votes), "bor" = polygon
	sealChainID bool   // the EVM chain id is the first element of the sealed RLP list (Parlia)
	delayed     bool   // a new validator list takes effect after floor(|old|/2) further blocks (Parlia); else with the next block (Congress)
	contRule    int    // 0: none; 1: no epoch header while a change is pending; 2: no epoch header within floor(|cur|/2) blocks of the last one
	period      bool   // header.time >= parent.time + Period
	gasDiv      uint64 // |gasLimit - parent.gasLimit| < parent.gasLimit/gasDiv and gasLimit >= 5000 (0: the router documents no such rule)
}

var adapters = map[string]*adapter{
	"bsc":        {name: "bsc", router: utils.BSC_ROUTER, sealChainID: true, delayed: true, contRule: 1, gasDiv: 256},
	"bytom":      {name: "bytom", router: utils.BYTOM_ROUTER, sealChainID: true, delayed: true, contRule: 1, gasDiv: 256},
	"heco":       {name: "heco", router: utils.HECO_ROUTER, contRule: 2, period: true, gasDiv: 1024},
	"hsc":        {name: "hsc", router: utils.HSC_ROUTER, contRule: 2, period: true, gasDiv: 0},
	"pixiechain": {name: "pixiechain", router: utils.PIXIECHAIN_ROUTER, contRule: 0, period: true, gasDiv: 1024},
}

var parliaRouters = []string{"bsc", "bytom", "heco", "hsc", "pixiechain"}

func (a *adapter) extraInfo(evmChainID, period, epoch uint64) []byte {
	switch a.kind {
	case "clique":
		return []byte(fmt.Sprintf(`{"ChainID":%d,"Period":%d,"Epoch":%d}`, evmChainID, period, epoch))
	case "bor":
		return []byte(fmt.Sprintf(`{"Sprint":%d,"Period":%d,"ProducerDelay":%d,"BackupMultiplier":%d,"HeimdallPolyChainID":0}`, epoch, period, period+2, borBackupMultiplier))
	}
	if a.period {
		return []byte(fmt.Sprintf(`{"ChainID":%d,"Period":%d}`, evmChainID, period))
	}
	return []byte(fmt.Sprintf(`{"ChainID":%d}`, evmChainID))
}

// ---------------------------------------------------------------------------------------------
// header helpers

const (
	extraVanity = 32
	extraSeal   = 65
)

var emptyUncleHash = types.CalcUncleHash(nil)

// refSealHash: keccak256 of the RLP list of the header fields without the 65-byte seal, preceded by
// the chain id on Parlia chains. Requires len(extra) >= 65.
func refSealHash(h *types.Header, chainID *big.Int) ecommon.Hash {
	var l []interface{}
	if chainID != nil {
		l = append(l, chainID)
	}
	l = append(l, h.ParentHash, h.UncleHash, h.Coinbase, h.Root, h.TxHash, h.ReceiptHash, h.Bloom, h.Difficulty, h.Number,
		h.GasLimit, h.GasUsed, h.Time, h.Extra[:len(h.Extra)-extraSeal], h.MixDigest, h.Nonce)
	b, err := rlp.EncodeToBytes(l)
	if err != nil {
		panic(err)
	}
	return crypto.Keccak256Hash(b)
}

func addrList(idx []int) []ecommon.Address {
	out := make([]ecommon.Address, len(idx))
	for i, k := range idx {
		out[i] = sealerAddr(k)
	}
	return out
}

func makeExtra(vanityByte byte, list []ecommon.Address) []byte {
	e := bytes.Repeat([]byte{vanityByte}, extraVanity)
	for _, a := range list {
		e = append(e, a[:]...)
	}
	return append(e, make([]byte, extraSeal)...)
}

// seal signs the header with key over the adapter's seal hash and writes the signature into the
// last 65 bytes of extra. No-op when extra is too short to hold a seal.
func seal(h *types.Header, chainID *big.Int, key *ecdsa.PrivateKey) {
	if len(h.Extra) < extraSeal {
		return
	}
	sig, err := crypto.Sign(refSealHash(h, chainID).Bytes(), key)
	if err != nil {
		panic(err)
	}
	copy(h.Extra[len(h.Extra)-extraSeal:], sig)
}

func headerJSON(h *types.Header) []byte {
	b, err := json.Marshal(h)
	if err != nil {
		panic(err)
	}
	return b
}

func sameList(a, b []ecommon.Address) bool {
	if len(a) != len(b) {
		return false
	}
	for i := range a {
		if a[i] != b[i] {
			return false
		}
	}
	return true
}

func indexOfAddr(l []ecommon.Address, a ecommon.Address) int {
	for i, x := range l {
		if x == a {
			return i
		}
	}
	return -1
}

// ---------------------------------------------------------------------------------------------
// environment: one L1 world with one registered PoSA side chain (and a destination chain)

type chainEnv struct {
	w       *world.World
	ad      *adapter
	chainID uint64 // poly side-chain id of the tracked chain
	evmID   uint64
	period  uint64
	btw     uint64
	ccmc    []byte
	sealID  *big.Int // chain id element of the seal hash (nil when the router does not use one)
	epoch   uint64   // msc: checkpoint interval; polygon-bor: sprint length
	hook    txHook   // optional observer called with every transaction before it is executed (C16 part A)
}

// txHook observes a transaction that is about to be executed on e's world.
type txHook func(e *chainEnv, tx *ptypes.Transaction)

// exec runs one transaction on the world, after showing it to the hook.
func (e *chainEnv) exec(tx *ptypes.Transaction) world.Result {
	if e.hook != nil {
		e.hook(e, tx)
	}
	return e.w.Exec(tx)
}

func le64(v uint64) []byte { b := make([]byte, 8); binary.LittleEndian.PutUint64(b, v); return b }

func hsKey(prefix string, parts ...[]byte) []byte {
	k := append([]byte{}, utils.HeaderSyncContractAddress[:]...)
	k = append(k, prefix...)
	for _, p := range parts {
		k = append(k, p...)
	}
	return k
}

// registerChain runs the real registration flow: registerSideChain by an owner account, then
// approveRegisterSideChain by every validator.
func registerChain(w *world.World, chainID, router, btw uint64, ccmc, extraInfo []byte, name string) error {
	owner := world.Acct(40).Address
	p := &side_chain_manager.RegisterSideChainParam{Address: owner, ChainId: chainID, Router: router, Name: name,
		BlocksToWait: btw, CCMCAddress: ccmc, ExtraInfo: extraInfo}
	sink := common.NewZeroCopySink(nil)
	p.Serialization(sink)
	r := w.Invoke(utils.SideChainManagerContractAddress, "registerSideChain", sink.Bytes(), []common.Address{owner})
	if !r.OK() {
		return fmt.Errorf("registerSideChain: %v", r.Err)
	}
	for _, v := range w.Validators {
		if sc, _ := side_chain_manager.GetSideChain(w.Service(), chainID); sc != nil {
			break // quorum of approvals reached
		}
		cp := &side_chain_manager.ChainidParam{Chainid: chainID, Address: v.Address}
		s2 := common.NewZeroCopySink(nil)
		cp.Serialization(s2)
		r := w.Invoke(utils.SideChainManagerContractAddress, "approveRegisterSideChain", s2.Bytes(), []common.Address{v.Address})
		if !r.OK() {
			return fmt.Errorf("approveRegisterSideChain: %v", r.Err)
		}
	}
	sc, err := side_chain_manager.GetSideChain(w.Service(), chainID)
	if err != nil || sc == nil {
		return fmt.Errorf("side chain %d not registered after approvals: %v", chainID, err)
	}
	return nil
}

const destChainID = 77

func newEnv(ad *adapter, chainID, evmID, period, btw uint64, ccmc []byte, epoch uint64) *chainEnv {
	return newEnvIn(world.New(4, world.Opts{}), ad, chainID, evmID, period, btw, ccmc, epoch)
}

// newEnvIn registers one more side chain in an existing world.
func newEnvIn(w *world.World, ad *adapter, chainID, evmID, period, btw uint64, ccmc []byte, epoch uint64) *chainEnv {
	if epoch == 0 {
		epoch = 8
	}
	if ad.kind == "clique" && period == 0 {
		period = 1 // the msc router refuses a zero period
	}
	if ad.kind == "bor" {
		epoch = borSprint
	}
	e := &chainEnv{w: w, ad: ad, chainID: chainID, evmID: evmID, period: period, btw: btw, ccmc: ccmc, epoch: epoch}
	if ad.sealChainID {
		e.sealID = new(big.Int).SetUint64(evmID)
	}
	if err := registerChain(w, chainID, ad.router, btw, ccmc, ad.extraInfo(evmID, period, epoch), ad.name); err != nil {
		panic("harness: " + err.Error())
	}
	w.NextBlock()
	return e
}

func (e *chainEnv) genesisTx(genesis []byte, signers []common.Address) *ptypes.Transaction {
	p := &hscom.SyncGenesisHeaderParam{ChainID: e.chainID, GenesisHeader: genesis}
	sink := common.NewZeroCopySink(nil)
	p.Serialization(sink)
	return e.w.MakeTx(utils.HeaderSyncContractAddress, hscom.SYNC_GENESIS_HEADER, sink.Bytes(), signers)
}

func (e *chainEnv) syncGenesis(genesis []byte, signers []common.Address) world.Result {
	return e.exec(e.genesisTx(genesis, signers))
}

func (e *chainEnv) headersTx(hs [][]byte) *ptypes.Transaction {
	relayer := world.Acct(41).Address
	p := &hscom.SyncBlockHeaderParam{ChainID: e.chainID, Address: relayer, Headers: hs}
	sink := common.NewZeroCopySink(nil)
	p.Serialization(sink)
	return e.w.MakeTx(utils.HeaderSyncContractAddress, hscom.SYNC_BLOCK_HEADER, sink.Bytes(), []common.Address{relayer})
}

func (e *chainEnv) syncHeaders(hs [][]byte) world.Result {
	return e.exec(e.headersTx(hs))
}

// --- black-box readers of the light client's storage

func (e *chainEnv) storedRaw(hash ecommon.Hash) []byte {
	return e.w.Get(hsKey(hscom.HEADER_INDEX, le64(e.chainID), hash[:]))
}

func (e *chainEnv) canonHeight() (uint64, bool) {
	v := e.w.Get(hsKey(hscom.CURRENT_HEADER_HEIGHT, le64(e.chainID)))
	if len(v) != 8 {
		return 0, false
	}
	return binary.LittleEndian.Uint64(v), true
}

func (e *chainEnv) canonHash(height uint64) (ecommon.Hash, bool) {
	v := e.w.Get(hsKey(hscom.MAIN_CHAIN, le64(e.chainID), le64(height)))
	if v == nil {
		return ecommon.Hash{}, false
	}
	return ecommon.BytesToHash(v), true
}

// scan returns every stored header hash and every canonical height entry of this chain found in
// the full contract state.
func (e *chainEnv) scan() (hashes []ecommon.Hash, canon map[uint64]ecommon.Hash) {
	canon = map[uint64]ecommon.Hash{}
	pi := string(hsKey(hscom.HEADER_INDEX, le64(e.chainID)))
	pm := string(hsKey(hscom.MAIN_CHAIN, le64(e.chainID)))
	for _, kv := range e.w.Dump() {
		if len(kv[0]) < 1 {
			continue
		}
		raw := kv[0][1:] // the state store prefixes contract keys with one DataEntryPrefix byte
		k := string(raw)
		switch {
		case strings.HasPrefix(k, pi) && len(k) == len(pi)+32:
			hashes = append(hashes, ecommon.BytesToHash([]byte(k[len(pi):])))
		case strings.HasPrefix(k, pm) && len(k) == len(pm)+8:
			h := binary.LittleEndian.Uint64([]byte(k[len(pm):]))
			v := e.w.Get(raw)
			canon[h] = ecommon.BytesToHash(v)
		}
	}
	return
}

// ---------------------------------------------------------------------------------------------
// reference model

type snapState struct {
	vals      []ecommon.Address // set in force for the next block
	pend      []ecommon.Address // announced, not yet in force (Parlia)
	pendAt    uint64            // becomes the set in force after the block with this number
	lastEpoch uint64            // number of the most recent epoch header on the branch
	gen       int               // how many times the set in force has been replaced on this branch
}

type node struct {
	h      *types.Header
	hash   ecommon.Hash
	parent *node
	td     *big.Int
	stored bool
	seq    int // storage order (tie-break information only)
	snap   snapState
	label  string
	cs     *cliqueSnap     // msc: signer snapshot after this header
	sealer ecommon.Address // msc / bor: recovered sealer of this header
}

type chainModel struct {
	borSet  []ecommon.Address // polygon-bor: static producer set of the sprint (ascending), borSet[borProp] is the proposer
	borProp int
	e       *chainEnv
	genesis *node
	byHash  map[ecommon.Hash]*node
	stored  []*node // in storage order
}

func epochListOf(h *types.Header) []ecommon.Address {
	n := len(h.Extra) - extraVanity - extraSeal
	if n <= 0 || n%20 != 0 {
		return nil
	}
	out := make([]ecommon.Address, n/20)
	for i := range out {
		copy(out[i][:], h.Extra[extraVanity+20*i:])
	}
	return out
}

// genesisSnap: the trust root is (genesis header carrying the list L, previously valid list P).
// Parlia: P stays in force for floor(|P|/2) blocks after the genesis, then L. Congress: L at once.
func genesisSnap(ad *adapter, g *types.Header, prev []ecommon.Address) snapState {
	l := epochListOf(g)
	n := g.Number.Uint64()
	if !ad.delayed {
		return snapState{vals: l, lastEpoch: n}
	}
	s := snapState{vals: prev, pend: l, pendAt: n + uint64(len(prev)/2), lastEpoch: n}
	if s.pendAt == n {
		s.vals, s.pend = l, nil
	}
	return s
}

func recoverSigner(h *types.Header, chainID *big.Int) (ecommon.Address, error) {
	sig := h.Extra[len(h.Extra)-extraSeal:]
	pub, err := crypto.Ecrecover(refSealHash(h, chainID).Bytes(), sig)
	if err != nil {
		return ecommon.Address{}, err
	}
	var a ecommon.Address
	copy(a[:], crypto.Keccak256(pub[1:])[12:])
	return a, nil
}

// refCheck is the reference predicate of C29 for header h on top of parent p (nil = unknown).
// It returns the snapshot after h when h is valid. unjudged != "" marks a class for which the
// property statement does not decide (counted, not judged).
func (m *chainModel) refCheck(p *node, h *types.Header) (ok bool, why string, after snapState) {
	ad, e := m.e.ad, m.e
	if p == nil || !p.stored {
		return false, "parent not stored", after
	}
	if len(h.Extra) < extraVanity+extraSeal {
		return false, "extra-data shorter than vanity+seal", after
	}
	if (len(h.Extra)-extraVanity-extraSeal)%20 != 0 {
		return false, "validator bytes not a multiple of 20", after
	}
	if h.MixDigest != (ecommon.Hash{}) {
		return false, "non-zero mix digest", after
	}
	if h.UncleHash != emptyUncleHash {
		return false, "non-empty uncle hash", after
	}
	if h.Difficulty == nil || (h.Difficulty.Cmp(big.NewInt(1)) != 0 && h.Difficulty.Cmp(big.NewInt(2)) != 0) {
		return false, "difficulty not 1 or 2", after
	}
	if h.Number == nil || !h.Number.IsUint64() || h.Number.Uint64() != p.h.Number.Uint64()+1 {
		return false, "number is not parent+1", after
	}
	num := h.Number.Uint64()
	if h.GasLimit > 0x7fffffffffffffff {
		return false, "gas limit above 2^63-1", after
	}
	if h.GasUsed > h.GasLimit {
		return false, "gas used above gas limit", after
	}
	if ad.gasDiv > 0 {
		d := int64(p.h.GasLimit) - int64(h.GasLimit)
		if d < 0 {
			d = -d
		}
		if uint64(d) >= p.h.GasLimit/ad.gasDiv || h.GasLimit < 5000 {
			return false, "gas limit jump", after
		}
	}
	if ad.period && h.Time < p.h.Time+e.period {
		return false, "timestamp earlier than parent+period", after
	}
	signer, err := recoverSigner(h, e.sealID)
	if err != nil {
		return false, "seal does not recover", after
	}
	if signer != h.Coinbase {
		return false, "coinbase differs from recovered signer", after
	}
	S := p.snap.vals
	idx := indexOfAddr(S, signer)
	if idx < 0 {
		return false, "signer not in the validator set in force", after
	}
	// recent-signer window: the last floor(|S|/2) sealers on this branch
	q := p
	for k := 0; k < len(S)/2 && q != nil; k++ {
		if q.h.Coinbase == signer {
			return false, fmt.Sprintf("signer sealed block %d within the recent window (%d)", q.h.Number.Uint64(), len(S)/2), after
		}
		q = q.parent
	}
	inturn := S[num%uint64(len(S))] == signer
	if inturn != (h.Difficulty.Uint64() == 2) {
		return false, fmt.Sprintf("difficulty %d but in-turn=%v", h.Difficulty.Uint64(), inturn), after
	}
	list := epochListOf(h)
	after = snapState{vals: p.snap.vals, pend: p.snap.pend, pendAt: p.snap.pendAt, lastEpoch: p.snap.lastEpoch, gen: p.snap.gen}
	if list != nil {
		switch ad.contRule {
		case 1:
			if p.snap.pend != nil {
				return false, "validator change announced while another change is pending", after
			}
		case 2:
			if num-p.snap.lastEpoch <= uint64(len(S)/2) {
				return false, "validator change within floor(|set|/2) blocks of the previous one", after
			}
		}
		after.lastEpoch = num
		if ad.delayed {
			after.pend, after.pendAt = list, num+uint64(len(S)/2)
		} else {
			if !sameList(after.vals, list) {
				after.gen++
			}
			after.vals = list
		}
	}
	if ad.delayed && after.pend != nil && num >= after.pendAt {
		if !sameList(after.vals, after.pend) {
			after.gen++
		}
		after.vals, after.pend = after.pend, nil
	}
	return true, "", after
}

// check dispatches to the family's reference predicate; set installs the family state on the node.
func (m *chainModel) check(p *node, h *types.Header) (ok bool, why string, set func(n *node)) {
	switch m.e.ad.kind {
	case "clique":
		return m.cliqueCheck(p, h)
	case "bor":
		return m.borCheck(p, h)
	}
	ok, why, after := m.refCheck(p, h)
	return ok, why, func(n *node) { n.snap = after }
}

// wire is the JSON document syncBlockHeader expects for one header.
func (m *chainModel) wire(h *types.Header) []byte {
	if m.e.ad.kind == "bor" {
		return borHeaderJSON(h)
	}
	return headerJSON(h)
}

// setGen: how many times the signer set has been replaced on the branch ending in n.
func (m *chainModel) setGen(n *node) int {
	switch m.e.ad.kind {
	case "clique":
		return n.cs.gen
	case "bor":
		return 0
	}
	return n.snap.gen
}

func (m *chainModel) setInForce(n *node) []ecommon.Address {
	switch m.e.ad.kind {
	case "clique":
		return n.cs.signers
	case "bor":
		return m.borSet
	}
	return n.snap.vals
}

// allowedSigners: validators of the set in force for a child of p that are outside the recent window.
func (m *chainModel) allowedSigners(p *node) (allowed []ecommon.Address, recent []ecommon.Address) {
	S := p.snap.vals
	rec := map[ecommon.Address]bool{}
	q := p
	for k := 0; k < len(S)/2 && q != nil; k++ {
		rec[q.h.Coinbase] = true
		q = q.parent
	}
	for _, v := range S {
		if rec[v] {
			recent = append(recent, v)
		} else {
			allowed = append(allowed, v)
		}
	}
	return
}

func (m *chainModel) add(n *node) {
	if old, ok := m.byHash[n.hash]; ok {
		_ = old
		return
	}
	m.byHash[n.hash] = n
}

func (m *chainModel) markStored(n *node) {
	n.stored = true
	n.seq = len(m.stored)
	m.stored = append(m.stored, n)
}

// bestTD returns the maximal total difficulty over stored nodes.
func (m *chainModel) bestTD() *big.Int {
	best := big.NewInt(-1)
	for _, n := range m.stored {
		if n.td.Cmp(best) > 0 {
			best = n.td
		}
	}
	return best
}

// checkForkChoice: canonical head has the highest total difficulty among stored headers; the
// canonical height->hash map is exactly the ancestor chain of the head down to the trust root.
func (m *chainModel) checkForkChoice() (head *node, problem string) {
	e := m.e
	ch, ok := e.canonHeight()
	if !ok {
		return nil, "no canonical height stored"
	}
	hh, ok := e.canonHash(ch)
	if !ok {
		return nil, fmt.Sprintf("canonical height %d has no hash entry", ch)
	}
	head = m.byHash[hh]
	if head == nil || !head.stored {
		return nil, fmt.Sprintf("canonical head %x at height %d is not a stored header of the model", hh, ch)
	}
	if head.h.Number.Uint64() != ch {
		return head, fmt.Sprintf("canonical height %d but head header number %d", ch, head.h.Number.Uint64())
	}
	if best := m.bestTD(); head.td.Cmp(best) != 0 {
		return head, fmt.Sprintf("canonical head %x (height %d) has total difficulty %v, a stored header has %v", hh, ch, head.td, best)
	}
	_, canon := e.scan()
	want := map[uint64]ecommon.Hash{}
	for q := head; q != nil; q = q.parent {
		want[q.h.Number.Uint64()] = q.hash
	}
	var hs []uint64
	for k := range canon {
		hs = append(hs, k)
	}
	sort.Slice(hs, func(i, j int) bool { return hs[i] < hs[j] })
	for _, k := range hs {
		w, ok := want[k]
		if !ok {
			return head, fmt.Sprintf("stale canonical entry at height %d (head is at %d, trust root at %d)", k, ch, m.genesis.h.Number.Uint64())
		}
		if w != canon[k] {
			return head, fmt.Sprintf("canonical entry at height %d is %x, ancestor of the head is %x", k, canon[k], w)
		}
	}
	for k, w := range want {
		if canon[k] != w {
			return head, fmt.Sprintf("canonical entry missing at height %d (ancestor %x of the head)", k, w)
		}
	}
	return head, ""
}

// storedTD reads the total difficulty the light client recorded with a header.
func storedTD(raw []byte) *big.Int {
	var x struct {
		DifficultySum *big.Int `json:"difficultySum"`
	}
	if json.Unmarshal(raw, &x) != nil {
		return nil
	}
	return x.DifficultySum
}

// ---------------------------------------------------------------------------------------------
// genesis construction (bsc / bytom / heco / hsc / pixiechain share the shape)

type prevVals struct {
	Height     *big.Int
	Validators []ecommon.Address
	Hash       *ecommon.Hash
}

func genesisJSON(g *types.Header, prevHeight uint64, prev []ecommon.Address) []byte {
	x := struct {
		Header         *types.Header
		PrevValidators []prevVals
	}{g, []prevVals{{Height: new(big.Int).SetUint64(prevHeight), Validators: prev}}}
	b, err := json.Marshal(x)
	if err != nil {
		panic(err)
	}
	return b
}

const baseTime = 1500000000

func newGenesisHeader(num uint64, list []ecommon.Address, coinbase ecommon.Address, root ecommon.Hash) *types.Header {
	return &types.Header{
		ParentHash: crypto.Keccak256Hash([]byte("pre-genesis"), le64(num)), UncleHash: emptyUncleHash, Coinbase: coinbase, Root: root,
		TxHash: types.EmptyRootHash, ReceiptHash: types.EmptyRootHash, Difficulty: big.NewInt(2), Number: new(big.Int).SetUint64(num),
		GasLimit: 30000000, GasUsed: 0, Time: baseTime + 3*num, Extra: makeExtra(0x11, list),
	}
}

// startChain installs the trust root through the real syncGenesisHeader (operator witness).
// trustRoot is a prepared (not yet installed) trust root: the document syncGenesisHeader expects
// and the model that holds once it is installed.
type trustRoot struct {
	raw []byte
	m   *chainModel
}

// install pushes the trust root through the real syncGenesisHeader with the given witnesses.
func (t *trustRoot) install(signers []common.Address) world.Result {
	return t.m.e.syncGenesis(t.raw, signers)
}

// confirm marks the trust root installed in the model after checking it is stored under its hash.
func (t *trustRoot) confirm() error {
	if t.m.e.storedRaw(t.m.genesis.hash) == nil {
		return fmt.Errorf("genesis header not stored under its hash")
	}
	if !t.m.genesis.stored {
		t.m.markStored(t.m.genesis)
	}
	return nil
}

func startRoot(t *trustRoot) (*chainModel, error) {
	e := t.m.e
	r := t.install([]common.Address{e.w.Operator()})
	if !r.OK() {
		return nil, fmt.Errorf("syncGenesisHeader: %v", r.Err)
	}
	e.w.NextBlock()
	if err := t.confirm(); err != nil {
		return nil, err
	}
	return t.m, nil
}

func prepareChain(e *chainEnv, gnum uint64, list, prev []ecommon.Address, coinbase ecommon.Address, root ecommon.Hash) *trustRoot {
	g := newGenesisHeader(gnum, list, coinbase, root)
	m := &chainModel{e: e, byHash: map[ecommon.Hash]*node{}}
	gn := &node{h: g, hash: g.Hash(), td: new(big.Int).Set(g.Difficulty), snap: genesisSnap(e.ad, g, prev), label: "genesis"}
	m.genesis = gn
	m.add(gn)
	return &trustRoot{raw: genesisJSON(g, gnum-1, prev), m: m}
}

// startChain installs the trust root through the real syncGenesisHeader (operator witness).
func startChain(e *chainEnv, gnum uint64, list, prev []ecommon.Address, coinbase ecommon.Address, root ecommon.Hash) (*chainModel, error) {
	return startRoot(prepareChain(e, gnum, list, prev, coinbase, root))
}

// goodChild builds a header on p that satisfies the reference predicate: an allowed signer
// (the in-turn one when preferInTurn and allowed), right difficulty, neutral fields.
const (
	turnAny    = 0 // signer chosen by pick
	turnPrefer = 1 // the in-turn signer when allowed
	turnAvoid  = 2 // an out-of-turn signer when one is allowed
)

// chooseSigner applies a turn mode to the allowed signers; inTurn is the in-turn address.
func chooseSigner(allowed []ecommon.Address, inTurn ecommon.Address, pick, mode int) ecommon.Address {
	signer := allowed[pick%len(allowed)]
	switch mode {
	case turnPrefer:
		if indexOfAddr(allowed, inTurn) >= 0 {
			signer = inTurn
		}
	case turnAvoid:
		for k := 0; k < len(allowed) && signer == inTurn; k++ {
			signer = allowed[(pick+1+k)%len(allowed)]
		}
	}
	return signer
}

func (m *chainModel) goodChild(p *node, pick int, mode int, epoch []ecommon.Address, root ecommon.Hash, dt uint64, gasStep int64) (*types.Header, int) {
	e := m.e
	num := p.h.Number.Uint64() + 1
	allowed, _ := m.allowedSigners(p)
	S := p.snap.vals
	signer := chooseSigner(allowed, S[num%uint64(len(S))], pick, mode)
	diff := int64(1)
	if S[num%uint64(len(S))] == signer {
		diff = 2
	}
	gl := int64(p.h.GasLimit)
	if lim := gl / 1024; lim > 1 {
		gl += gasStep % (lim - 1)
	}
	h := &types.Header{
		ParentHash: p.hash, UncleHash: emptyUncleHash, Coinbase: signer, Root: root, TxHash: types.EmptyRootHash,
		ReceiptHash: types.EmptyRootHash, Difficulty: big.NewInt(diff), Number: new(big.Int).SetUint64(num), GasLimit: uint64(gl),
		GasUsed: uint64(gl) / 2, Time: p.h.Time + e.period + dt, Extra: makeExtra(byte(num), epoch),
	}
	ki := keyIndexOf(signer)
	if ki >= 0 {
		seal(h, e.sealID, sealerKey(ki))
	}
	return h, ki
}
