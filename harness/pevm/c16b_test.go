package pevm

import (
	"encoding/json"
	"fmt"
	"math/big"
	"os"
	"sort"
	"strings"
	"sync"
	"testing"

	ecommon "github.com/ethereum/go-ethereum/common"
	"github.com/ethereum/go-ethereum/core/types"
	"github.com/ethereum/go-ethereum/crypto"
	"github.com/polynetwork/poly/common"
	"github.com/polynetwork/poly/common/verifclock"
	ptypes "github.com/polynetwork/poly/core/types"
	ccom "github.com/polynetwork/poly/native/service/cross_chain_manager/common"
	"github.com/polynetwork/poly/native/service/utils"
	"pgregory.net/rapid"

	"verif/harness/ev"
	"verif/harness/world"
)

// ---------------------------------------------------------------------------------------------
// C16 part B (PoSA routers): native contract code reachable from transaction execution does not
// consult the wall clock or an entropy source, and its outcome does not depend on the wall clock.
//
// Every harness build compiles instrumented copies of native/** whose time.Now/Since/Until and
// crypto/rand calls go through common/verifclock. A case builds the SAME world twice (A and B),
// and executes every transaction (trust-root install, header sync, deposit import) in A under a
// fake clock t1 and in B under t2, with t1 < header.Time < t2 for header transactions:
//   monitor      - any consultation recorded while a transaction executes is a violation, keyed by
//                  the consulting function ("clock:<function>");
//   differential - success/failure and the complete contract state of A and B must agree.

type c16Op struct {
	Kind string `json:"k"`           // header | import | badimport
	Off  int    `json:"off"`         // header time = now_i + Off seconds (raised to the chain's minimum when below it)
	D1   int    `json:"d1"`          // t1 = header.Time - D1
	D2   int    `json:"d2"`          // t2 = header.Time + D2
	Weak bool   `json:"w,omitempty"` // prefer an out-of-turn sealer
	N    int    `json:"n,omitempty"` // header: batch size 1..3
}

type c16Case struct {
	Router string  `json:"router"`
	NVal   int     `json:"nval"`
	GNum   uint64  `json:"gnum"`
	Now    int64   `json:"now"` // the generated "now" of the first transaction; advances 200 s per op
	Ops    []c16Op `json:"ops"`
}

func genC16B(t *rapid.T) c16Case {
	c := c16Case{
		Router: rapid.SampledFrom(c23Routers()).Draw(t, "router"),
		NVal:   rapid.IntRange(1, 5).Draw(t, "nval"),
		GNum:   uint64(rapid.IntRange(2, 300).Draw(t, "gnum")),
		Now:    int64(rapid.IntRange(1550000000, 1750000000).Draw(t, "now")),
	}
	if r := os.Getenv("PEVM_ROUTER"); r != "" {
		c.Router = r // development aid only
	}
	c.Ops = rapid.SliceOfN(rapid.Custom(func(t *rapid.T) c16Op {
		op := c16Op{Off: rapid.IntRange(-100, 100).Draw(t, "off"), D1: rapid.IntRange(1, 150).Draw(t, "d1"), D2: rapid.IntRange(1, 150).Draw(t, "d2")}
		switch k := rapid.IntRange(0, 9).Draw(t, "kind"); {
		case k < 7:
			op.Kind = "header"
			op.N = rapid.IntRange(1, 3).Draw(t, "n")
			op.Weak = rapid.IntRange(0, 3).Draw(t, "weak") == 0
		case k < 9:
			op.Kind = "import"
		default:
			op.Kind = "badimport"
		}
		return op
	}), 1, ev.Scale(10, 24)).Draw(t, "ops")
	return c
}

var (
	c16Mu      sync.Mutex
	c16Sites   = map[string]int{}
	c16Routers = map[string]int{}
	c16Diverge = map[string]int{}
	c16Tx      = map[string]int{}
)

// siteFunc extracts the function from a verifclock snapshot key "<kind> in <function>".
func siteFunc(k string) string {
	if i := strings.Index(k, " in "); i >= 0 {
		return k[i+4:]
	}
	return k
}

func mustJSON(v interface{}) []byte {
	b, err := json.Marshal(v)
	if err != nil {
		panic(err)
	}
	return b
}

func runC16B(ctx *ev.Ctx, c c16Case) {
	fam := familyOf(c.Router)
	if fam == nil {
		panic("harness: unknown router " + c.Router)
	}
	name := fam.ad.name
	ctx.Label("router:" + name)
	defer verifclock.ClearFake()
	verifclock.SetFake(c.Now - 5000)

	// source-chain world state with deposits for the imports
	ccmc := ecommon.BytesToAddress(crypto.Keccak256([]byte("ccmc-contract"))[12:])
	nmsg := len(c.Ops) + 1
	msgs := make([]message, nmsg)
	cc := &acctState{addr: ccmc, nonce: 1, balance: big.NewInt(0), code: crypto.Keccak256Hash([]byte("ccmc-code")), storage: map[ecommon.Hash][]byte{}}
	for i := range msgs {
		msgs[i] = makeMessage(i, 8, false)
		cc.storage[slotKey("dep", i)] = crypto.Keccak256(msgs[i].encode())
	}
	other := &acctState{addr: ecommon.BytesToAddress(crypto.Keccak256([]byte("acct"))[12:]), nonce: 3, balance: big.NewInt(7), code: crypto.Keccak256Hash(nil), storage: map[ecommon.Hash][]byte{}}
	ws := buildWorldState("dep", []*acctState{other, cc})

	// two identical worlds
	nval := c.NVal
	if nval < 1 {
		nval = 1
	}
	vals := make([]int, nval)
	for i := range vals {
		vals[i] = i
	}
	build := func() *chainEnv {
		e := newEnv(fam.ad, 4000+fam.ad.router, 97, 1, 1, ccmc[:], 64)
		if err := registerChain(e.w, destChainID, utils.ETH_ROUTER, 1, crypto.Keccak256([]byte("dest-ccmc"))[:20], nil, "dest"); err != nil {
			panic("harness: " + err.Error())
		}
		return e
	}
	A, B := build(), build()
	defer A.w.Store.Close()
	defer B.w.Store.Close()
	if A.w.DumpHash() != B.w.DumpHash() {
		ctx.Failf("harness: the two worlds differ after identical setup: %s", world.DiffDump(A.w.Dump(), B.w.Dump()))
	}

	stats := struct{ tx, diverged, imports int }{}
	// both executes one transaction in A under t1 and in B under t2 and applies both oracles.
	// It returns the (common) verdict after re-convergence.
	both := func(kind string, tx *ptypes.Transaction, t1, t2 int64, detail string) bool {
		stats.tx++
		verifclock.SetFake(t1)
		verifclock.Reset()
		rA := A.w.Exec(tx)
		sA := verifclock.Snapshot()
		verifclock.SetFake(t2)
		verifclock.Reset()
		rB := B.w.Exec(tx)
		sB := verifclock.Snapshot()
		verifclock.Reset()
		if rA.Panic != "" || rB.Panic != "" {
			ctx.Failf("%s: %s transaction panicked: %s%s", name, kind, rA.Panic, rB.Panic)
		}
		sites := map[string]int{}
		for k, v := range sA {
			sites[k] += v
		}
		for k, v := range sB {
			sites[k] += v
		}
		okA, okB := rA.Err == nil, rB.Err == nil
		divergence := ""
		if okA != okB {
			divergence = fmt.Sprintf("under clock %d the transaction %s, under clock %d it %s (%s)", t1, verdict(rA), t2, verdict(rB), detail)
		} else if A.w.DumpHash() != B.w.DumpHash() {
			divergence = fmt.Sprintf("same verdict (%s) under clocks %d and %d but different state: %s (%s)", verdict(rA), t1, t2, world.DiffDump(A.w.Dump(), B.w.Dump()), detail)
		}
		c16Mu.Lock()
		for k, v := range sites {
			c16Sites[k] += v
		}
		c16Tx[name+"/"+kind]++
		if divergence != "" {
			c16Diverge[name]++
		}
		c16Mu.Unlock()
		var keys []string
		for k := range sites {
			keys = append(keys, k)
		}
		sort.Strings(keys)
		for _, k := range keys {
			msg := fmt.Sprintf("%s: %s transaction consulted %q %d time(s)", name, kind, k, sites[k])
			if divergence != "" {
				msg += "; outcome depends on it: " + divergence
			}
			if ctx.Known("clock:"+siteFunc(k), "%s", msg) {
				ctx.Label("known:clock:" + siteFunc(k))
			}
		}
		if divergence != "" {
			stats.diverged++
			ctx.Label("diverged:" + name + "/" + kind)
			if len(keys) == 0 {
				ctx.Failf("%s: %s transaction is not a function of (state, transaction) although no clock/entropy consultation was recorded: %s", name, kind, divergence)
			}
			// re-converge: run the transaction in the lagging world under the other clock
			switch {
			case !okA && okB:
				verifclock.SetFake(t2)
				rA = A.w.Exec(tx)
			case okA && !okB:
				verifclock.SetFake(t1)
				rB = B.w.Exec(tx)
			}
			verifclock.Reset()
			if (rA.Err == nil) != (rB.Err == nil) || A.w.DumpHash() != B.w.DumpHash() {
				ctx.Failf("%s: worlds do not re-converge after running the %s transaction under the same clock: %v / %v / %s", name, kind, rA.Err, rB.Err, world.DiffDump(A.w.Dump(), B.w.Dump()))
			}
		}
		A.w.NextBlock()
		B.w.NextBlock()
		return rA.Err == nil
	}

	// trust root
	tr := fam.prepare(A, c.GNum, vals, ws.root)
	gt := int64(tr.m.genesis.h.Time)
	if !both("genesis", A.genesisTx(tr.raw, []common.Address{A.w.Operator()}), gt-50, gt+50, "trust-root install") {
		ctx.Failf("setup (%s): a well-formed trust root was refused", name)
	}
	if err := tr.confirm(); err != nil {
		ctx.Failf("setup (%s): %v", name, err)
	}
	m := tr.m
	tip := m.genesis

	straddled := false
	for i, op := range c.Ops {
		now := c.Now + 200*int64(i)
		switch op.Kind {
		case "header":
			n := op.N
			if n < 1 {
				n = 1
			}
			var raws [][]byte
			var nodes []*node
			p := tip
			lo, hi := int64(1<<62), int64(0)
			for k := 0; k < n; k++ {
				h := fam.grow(m, p, ws.root, op.Weak)
				want := uint64(now + int64(op.Off) + int64(k))
				if want > h.Time {
					sealer, err := recoverSigner(h, A.sealID)
					if err != nil {
						panic("harness: grown header does not recover")
					}
					h.Time = want
					seal(h, A.sealID, sealerKey(keyIndexOf(sealer)))
				}
				nd := &node{h: h, hash: h.Hash(), parent: p, td: new(big.Int).Add(p.td, h.Difficulty)}
				p.stored = true // evaluate the batch as a chain
				fam.after(m, p, nd)
				m.add(nd)
				nodes = append(nodes, nd)
				raws = append(raws, m.wire(h))
				if int64(h.Time) < lo {
					lo = int64(h.Time)
				}
				if int64(h.Time) > hi {
					hi = int64(h.Time)
				}
				p = nd
			}
			for _, nd := range nodes {
				nd.stored = false
			}
			tip.stored = true
			t1, t2 := lo-int64(max1(op.D1)), hi+int64(max1(op.D2))
			straddled = true
			ok := both("header", A.headersTx(raws), t1, t2, fmt.Sprintf("%d header(s) with timestamps %d..%d, generated now %d", n, lo, hi, now))
			if ok {
				for _, nd := range nodes {
					if A.storedRaw(nd.hash) == nil {
						ctx.Label("valid-header-refused:" + name)
						break
					}
					m.markStored(nd)
					tip = nd
				}
			} else {
				ctx.Label("valid-header-refused:" + name)
			}
		case "import", "badimport":
			mi := i % nmsg
			extra := msgs[mi].encode()
			pj := honestProof(ws, ccmc, slotKey("dep", mi))
			if op.Kind == "badimport" {
				extra = append([]byte{}, extra...)
				extra[len(extra)-1] ^= 1
			}
			raw := mustJSON(pj)
			ep := &ccom.EntranceParam{SourceChainID: A.chainID, Height: uint32(tip.h.Number.Uint64()), Proof: raw, RelayerAddress: world.Acct(41).Address[:], Extra: extra}
			sink := common.NewZeroCopySink(nil)
			ep.Serialization(sink)
			tx := A.w.MakeTx(utils.CrossChainManagerContractAddress, ccom.IMPORT_OUTER_TRANSFER_NAME, sink.Bytes(), []common.Address{world.Acct(41).Address})
			ok := both(op.Kind, tx, now-int64(max1(op.D1)), now+int64(max1(op.D2)), fmt.Sprintf("deposit import at height %v", tip.h.Number))
			stats.imports++
			if ok != (op.Kind == "import") {
				ctx.Label("import-verdict-unexpected:" + op.Kind) // soundness of imports is C23's subject
			}
		}
	}
	if straddled && stats.imports > 0 {
		ctx.NonTrivial()
	}
	c16Mu.Lock()
	c16Routers[name]++
	c16Mu.Unlock()
	id := propID("C16")
	ev.Get(id).Extra("clock_sites", c16Sites)
	ev.Get(id).Extra("routers", c16Routers)
	ev.Get(id).Extra("routers_clock_dependent_transactions", c16Diverge)
	ev.Get(id).Extra("transactions", c16Tx)
}

func max1(v int) int {
	if v < 1 {
		return 1
	}
	return v
}

func verdict(r world.Result) string {
	if r.Err == nil {
		return "succeeded"
	}
	s := r.Err.Error()
	if len(s) > 160 {
		s = s[len(s)-160:]
	}
	return "failed: " + s
}

func TestC16B(t *testing.T) {
	ev.Drive(t, propID("C16"),
		"part B, PoSA-router unit (bsc, bytom, heco, hsc, pixiechain, msc, polygon-bor): the same world is built twice; the trust-root install and 1..10 (thorough 24) transactions - "+
			"header syncs of 1..3 valid next headers whose timestamps lie within +-100 s of a generated 'now' (advancing 200 s per op), honest and corrupted deposit imports - are executed in world A under fake clock t1 and in world B under t2 "+
			"(t1 < header timestamps < t2, 1..150 s away). Monitor: every time.Now/Since/Until or crypto/rand consultation recorded by the instrumented native sources during a transaction. "+
			"Differential: verdict and full contract state of A and B agree. non-trivial: at least one header transaction executed under straddling clocks and at least one import; distinct by JSON of the case",
		genC16B, runC16B)
}

var _ = types.EmptyRootHash
