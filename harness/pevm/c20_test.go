package pevm

import (
	"bytes"
	"fmt"
	"math/big"
	"os"
	"sync"
	"testing"

	ecommon "github.com/ethereum/go-ethereum/common"
	"github.com/ethereum/go-ethereum/crypto"
	"github.com/polynetwork/poly/common"
	ccom "github.com/polynetwork/poly/native/service/cross_chain_manager/common"
	"github.com/polynetwork/poly/native/service/utils"
	"pgregory.net/rapid"

	"verif/harness/ev"
	"verif/harness/world"
)

// ---------------------------------------------------------------------------------------------
// C20 (PoSA routers, main net): a cross-chain message identified by (source chain, cross-chain id)
// is accepted at most once; a second submission fails without side effects; the message is marked
// done exactly when it is accepted.
//
// The C23 world is re-used on a MAIN-NET relay chain (network id 1, relay height above the router
// start block of hsc/bytom): source-chain state as go-ethereum secure tries, tracked header chains
// installed through the real header sync (a main branch carrying the deposit state and a side branch
// carrying a state without deposits, so that the deposit's block can leave and re-enter the canonical
// chain), real ImportOuterTransfer. Optionally a second chain of the same router holds the same
// deposits (same cross-chain ids): it must be independent.

type c20Op struct {
	Kind      string `json:"k"`            // import | main | side | block
	Chain     int    `json:"c,omitempty"`  // import: 0 = chain A, 1 = chain B (when present)
	Msg       int    `json:"msg"`          // which cross-chain id
	Variant   string `json:"v,omitempty"`  // honest | other-slot | other-proof | other-body | corrupt
	HOff      int    `json:"ho,omitempty"` // height = confirmation boundary - HOff (negative: one short)
	SameBlock bool   `json:"sb,omitempty"` // execute in the same relay block as the previous transaction
	N         int    `json:"n,omitempty"`  // main/side: headers to add
	Weak      bool   `json:"w,omitempty"`  // main/side: lowest available difficulty
}

type c20Case struct {
	Router string  `json:"router"`
	Btw    uint64  `json:"btw"`
	NVal   int     `json:"nval"`
	GNum   uint64  `json:"gnum"`
	Len    int     `json:"len"`    // main-branch headers synced before the first op
	SideAt int     `json:"sideAt"` // the side branch forks off main-branch index SideAt (0 = trust root)
	ChainB bool    `json:"chainB"`
	NMsg   int     `json:"nmsg"`
	Relay  uint32  `json:"relay"` // relay-chain height offset above 18823000
	Ops    []c20Op `json:"ops"`
}

var c20Variants = []string{"honest", "honest", "honest", "other-slot", "other-proof", "other-body", "corrupt"}

func genC20(t *rapid.T) c20Case {
	c := c20Case{
		Router: rapid.SampledFrom(c23Routers()).Draw(t, "router"),
		Btw:    uint64(rapid.IntRange(1, 4).Draw(t, "btw")),
		NVal:   rapid.IntRange(1, 5).Draw(t, "nval"),
		GNum:   uint64(rapid.IntRange(2, 200).Draw(t, "gnum")),
		ChainB: rapid.IntRange(0, 2).Draw(t, "chainB") == 0,
		NMsg:   rapid.IntRange(1, 3).Draw(t, "nmsg"),
		Relay:  uint32(rapid.IntRange(1, 100000).Draw(t, "relay")),
	}
	if r := os.Getenv("PEVM_ROUTER"); r != "" {
		c.Router = r // development aid only
	}
	c.Len = int(c.Btw) - 1 + rapid.IntRange(0, 4).Draw(t, "len")
	c.SideAt = rapid.IntRange(0, c.Len).Draw(t, "sideAt")
	nImports := rapid.IntRange(2, 8).Draw(t, "nimports")
	for i := 0; i < nImports; i++ {
		// chain activity between imports
		switch k := rapid.IntRange(0, 9).Draw(t, "between"); {
		case k < 2:
			c.Ops = append(c.Ops, c20Op{Kind: "main", N: rapid.IntRange(1, 3).Draw(t, "n"), Weak: rapid.IntRange(0, 3).Draw(t, "w") == 0})
		case k < 5:
			c.Ops = append(c.Ops, c20Op{Kind: "side", N: rapid.IntRange(1, 4).Draw(t, "n"), Weak: rapid.IntRange(0, 3).Draw(t, "w") == 0})
			if rapid.Bool().Draw(t, "back") {
				c.Ops = append(c.Ops, c20Op{Kind: "main", N: rapid.IntRange(1, 5).Draw(t, "n2")})
			}
		}
		op := c20Op{Kind: "import", Msg: rapid.IntRange(0, 2).Draw(t, "msg"), Variant: rapid.SampledFrom(c20Variants).Draw(t, "variant"),
			HOff: rapid.SampledFrom([]int{0, 0, 0, 1, 2, 3, -1}).Draw(t, "hoff"), SameBlock: rapid.IntRange(0, 2).Draw(t, "sameblock") == 0}
		if c.ChainB && rapid.IntRange(0, 3).Draw(t, "onB") == 0 {
			op.Chain = 1
		}
		c.Ops = append(c.Ops, op)
	}
	return c
}

var (
	c20Mu      sync.Mutex
	c20Routers = map[string]int{}
	c20Acc     = map[string]int{}
	c20Replay  = map[string]int{}
)

// c20Chain: one tracked source chain in the relay world.
type c20Chain struct {
	e        *chainEnv
	m        *chainModel
	mainTip  *node
	sideTip  *node
	sideBase *node
	canon    map[uint64]*node
	tipH     uint64
	main     []*node // main[0] = trust root
}

func (ch *c20Chain) refresh(ctx *ev.Ctx, name string) {
	head, problem := ch.m.checkForkChoice()
	if problem != "" {
		ctx.Failf("%s fork choice on the tracked chain %d: %s", name, ch.e.chainID, problem)
	}
	ch.canon = map[uint64]*node{}
	for q := head; q != nil; q = q.parent {
		ch.canon[q.h.Number.Uint64()] = q
	}
	ch.tipH = head.h.Number.Uint64()
}

const relayStart = 18823000 // hsc / bytom routers are active on main net from this relay height

func runC20(ctx *ev.Ctx, c c20Case) {
	fam := familyOf(c.Router)
	if fam == nil {
		panic("harness: unknown router " + c.Router)
	}
	name := fam.ad.name
	ctx.Label("router:" + name)
	ccmc := ecommon.BytesToAddress(crypto.Keccak256([]byte("ccmc-contract"))[12:])
	nmsg := c.NMsg
	if nmsg < 1 {
		nmsg = 1
	}
	// messages: msgs[i] and bodies[i] share the cross-chain id i but differ in content
	msgs, bodies := make([]message, nmsg), make([]message, nmsg)
	for i := range msgs {
		msgs[i] = makeMessage(i, 8, false)
		bodies[i] = makeMessage(i, 9, false)
		bodies[i].Method = "unlock2"
	}
	mk := func(withDeposits bool) *worldState {
		cc := &acctState{addr: ccmc, nonce: 1, balance: big.NewInt(0), code: crypto.Keccak256Hash([]byte("ccmc-code")), storage: map[ecommon.Hash][]byte{}}
		for i := 0; i < 5; i++ {
			cc.storage[slotKey("filler", i)] = crypto.Keccak256([]byte("filler"), []byte{byte(i)})
		}
		if withDeposits {
			for i := range msgs {
				cc.storage[slotKey("dep", i)] = crypto.Keccak256(msgs[i].encode())
				cc.storage[slotKey("dep-layout2", i)] = crypto.Keccak256(msgs[i].encode()) // same message under another slot layout
				cc.storage[slotKey("dep-body2", i)] = crypto.Keccak256(bodies[i].encode())
			}
		}
		o := &acctState{addr: ecommon.BytesToAddress(crypto.Keccak256([]byte("acct"))[12:]), nonce: 3, balance: big.NewInt(7), code: crypto.Keccak256Hash(nil), storage: map[ecommon.Hash][]byte{}}
		return buildWorldState("s", []*acctState{o, cc})
	}
	dep, pre := mk(true), mk(false)

	w := world.New(4, world.Opts{NetworkID: 1, StartHeight: relayStart + 1 + c.Relay})
	defer w.Store.Close()
	defer world.ResetGlobals(0)
	if err := registerChain(w, destChainID, utils.ETH_ROUTER, 1, crypto.Keccak256([]byte("dest-ccmc"))[:20], nil, "dest"); err != nil {
		panic("harness: " + err.Error())
	}
	nval := c.NVal
	if nval < 1 {
		nval = 1
	}
	vals := make([]int, nval)
	for i := range vals {
		vals[i] = i
	}
	push := func(ch *c20Chain, p *node, root ecommon.Hash, weak bool) *node {
		h := fam.grow(ch.m, p, root, weak)
		n := &node{h: h, hash: h.Hash(), parent: p, td: new(big.Int).Add(p.td, h.Difficulty)}
		fam.after(ch.m, p, n)
		if old := ch.m.byHash[n.hash]; old != nil {
			return old
		}
		ch.m.add(n)
		res := ch.e.syncHeaders([][]byte{ch.m.wire(h)})
		w.NextBlock()
		if !res.OK() || ch.e.storedRaw(n.hash) == nil {
			ctx.Label("setup-incomplete:valid-header-refused:" + name) // header-sync completeness is C29's count
			return nil
		}
		ch.m.markStored(n)
		return n
	}
	newChain := func(id uint64, length int) *c20Chain {
		e := newEnvIn(w, fam.ad, id, 97, 1, c.Btw, ccmc[:], 64)
		gnum := c.GNum
		if gnum < 2 {
			gnum = 2
		}
		m, err := startRoot(fam.prepare(e, gnum, vals, dep.root))
		if err != nil {
			ctx.Failf("setup (%s, main net): a well-formed trust root was refused: %v", name, err)
		}
		ch := &c20Chain{e: e, m: m, mainTip: m.genesis, main: []*node{m.genesis}}
		for i := 0; i < length; i++ {
			n := push(ch, ch.mainTip, dep.root, false)
			if n == nil {
				return nil
			}
			ch.mainTip = n
			ch.main = append(ch.main, n)
		}
		return ch
	}
	chains := []*c20Chain{newChain(5000+fam.ad.router, c.Len)}
	if chains[0] == nil {
		return
	}
	if c.ChainB {
		b := newChain(5100+fam.ad.router, int(c.Btw)+1)
		if b == nil {
			return
		}
		chains = append(chains, b)
	}
	A := chains[0]
	A.sideBase = A.main[c.SideAt%len(A.main)]
	A.sideTip = A.sideBase
	for _, ch := range chains {
		ch.refresh(ctx, name)
	}

	type doneKey struct {
		chain uint64
		id    string
	}
	done := map[doneKey]bool{}
	firstProof := map[doneKey]string{}
	accepted := 0
	nontrivial := false
	requestPrefix := append(append([]byte{}, utils.CrossChainManagerContractAddress[:]...), []byte(ccom.REQUEST)...)
	countRequests := func() int {
		n := 0
		for _, kv := range w.Dump() {
			if len(kv[0]) > 1 && bytes.HasPrefix(kv[0][1:], requestPrefix) {
				n++
			}
		}
		return n
	}
	checkMarkers := func(when string) {
		dump := w.Dump()
		for _, ch := range chains {
			// raw key of the done marker: contract address, "doneTx", chain id (u64 LE), cross-chain id
			prefix := append(append(append([]byte{}, utils.CrossChainManagerContractAddress[:]...), []byte("doneTx")...), le64(ch.e.chainID)...)
			nMarkers, nDone := 0, 0
			for _, kv := range dump {
				if len(kv[0]) > 1 && bytes.HasPrefix(kv[0][1:], prefix) {
					nMarkers++
				}
			}
			for dk, v := range done {
				if v && dk.chain == ch.e.chainID {
					nDone++
				}
			}
			if nMarkers != nDone {
				ctx.Failf("%s: %s: chain %d has %d done markers in the state, %d messages were accepted", name, when, ch.e.chainID, nMarkers, nDone)
			}
			for i := range msgs {
				marked := w.Get(append(append([]byte{}, prefix...), msgs[i].CrossChainID...)) != nil
				if want := done[doneKey{ch.e.chainID, string(msgs[i].CrossChainID)}]; marked != want {
					ctx.Failf("%s: %s: done marker of (chain %d, cross-chain id #%d) is %v, the message was accepted: %v", name, when, ch.e.chainID, i, marked, want)
				}
			}
		}
		if n := countRequests(); n != accepted {
			ctx.Failf("%s: %s: %d request records for %d accepted imports", name, when, n, accepted)
		}
	}
	checkMarkers("after setup")

	for oi, op := range c.Ops {
		switch op.Kind {
		case "main", "side":
			for k := 0; k < op.N; k++ {
				if op.Kind == "main" {
					n := push(A, A.mainTip, dep.root, op.Weak)
					if n == nil {
						return
					}
					A.mainTip = n
				} else {
					n := push(A, A.sideTip, pre.root, op.Weak)
					if n == nil {
						return
					}
					A.sideTip = n
				}
			}
			before := A.canon[A.main[len(A.main)-1].h.Number.Uint64()]
			A.refresh(ctx, name)
			if after := A.canon[A.main[len(A.main)-1].h.Number.Uint64()]; before != after {
				if after != nil && after.h.Root == dep.root {
					ctx.Label("reorg:deposit-block-re-enters")
				} else {
					ctx.Label("reorg:deposit-block-leaves")
				}
			}
			checkMarkers("after header sync")
		case "import":
			ch := chains[0]
			if op.Chain == 1 && len(chains) > 1 {
				ch = chains[1]
			}
			mi := op.Msg % nmsg
			msg := msgs[mi]
			slot := slotKey("dep", mi)
			proofKind := op.Variant
			switch op.Variant {
			case "other-slot":
				slot = slotKey("dep-layout2", mi)
			case "other-body":
				msg, slot = bodies[mi], slotKey("dep-body2", mi)
			}
			extra := msg.encode()
			pj := honestProof(dep, ccmc, slot)
			proofOK := true
			switch op.Variant {
			case "other-proof": // same content, another valid document: re-ordered nodes, extra nodes, other spellings
				pj.AccountProof = append(reverseStrings(pj.AccountProof), hx(crypto.Keccak256([]byte("junk"))))
				pj.StorageProofs[0].Proof = reverseStrings(pj.StorageProofs[0].Proof)
				pj.Address = hx(ccmc[:])[2:]
				pj.Nonce = "0x01"
			case "corrupt":
				pj.Balance = "0x5"
				proofOK = false
			}
			height := int64(ch.tipH) - int64(c.Btw) + 1 - int64(op.HOff)
			if height < 0 {
				height = 0
			}
			blk := ch.canon[uint64(height)]
			confirmed := blk != nil && ch.tipH >= uint64(height) && ch.tipH-uint64(height)+1 >= c.Btw
			rootMatch := blk != nil && blk.h.Root == dep.root
			dk := doneKey{ch.e.chainID, string(msg.CrossChainID)}
			valid := confirmed && rootMatch && proofOK
			want := valid && !done[dk]
			if !(op.SameBlock && oi > 0) {
				w.NextBlock()
			}
			ep := &ccom.EntranceParam{SourceChainID: ch.e.chainID, Height: uint32(height), Proof: mustJSON(pj), RelayerAddress: world.Acct(41).Address[:], Extra: extra}
			sink := common.NewZeroCopySink(nil)
			ep.Serialization(sink)
			before := w.Dump()
			res := w.Invoke(utils.CrossChainManagerContractAddress, ccom.IMPORT_OUTER_TRANSFER_NAME, sink.Bytes(), []common.Address{world.Acct(41).Address})
			cls := fmt.Sprintf("%s height %d (tip %d, BlocksToWait %d, canonical=%v, root-match=%v) chain %d id #%d", op.Variant, height, ch.tipH, c.Btw, blk != nil, rootMatch, ch.e.chainID, mi)
			if res.Panic != "" {
				ctx.Failf("%s: import panicked (%s): %s", name, cls, res.Panic)
			}
			got := res.Err == nil
			signature := fmt.Sprintf("%s@%d", proofKind, height)
			if got != want {
				if got && done[dk] {
					ctx.Failf("%s: message (chain %d, cross-chain id #%d) accepted a second time (%s; first accepted with %s)", name, ch.e.chainID, mi, cls, firstProof[dk])
				}
				ctx.Failf("%s: import accepted=%v, reference says %v (%s, already done=%v) err=%v", name, got, want, cls, done[dk], res.Err)
			}
			if got {
				accepted++
				done[dk] = true
				firstProof[dk] = signature
				ctx.Label("accepted:" + op.Variant)
				for _, o := range chains {
					if o != ch && done[doneKey{o.e.chainID, string(msg.CrossChainID)}] {
						ctx.Label("accepted:same-id-already-done-on-the-other-chain")
					}
				}
				key := append(append(append([]byte{}, requestPrefix...), le64(msg.ToChain)...), res.TxHash[:]...)
				wantVal := append(append(encVarBytes(res.TxHash[:]), le64(ch.e.chainID)...), extra...)
				if !bytes.Equal(w.Get(key), wantVal) {
					ctx.Failf("%s: accepted import did not store the request record for its transaction (%s)", name, cls)
				}
			} else {
				if d := world.DiffDump(before, w.Dump()); d != "" {
					ctx.Failf("%s: rejected import (%s, already done=%v) changed state: %s", name, cls, done[dk], d)
				}
				switch {
				case done[dk] && valid:
					c20Mu.Lock()
					c20Replay[name]++
					c20Mu.Unlock()
					if firstProof[dk] != signature {
						nontrivial = true
						ctx.Label("replay-rejected:different-valid-proof:" + op.Variant)
					} else {
						ctx.Label("replay-rejected:exact")
					}
					if op.SameBlock {
						ctx.Label("replay-rejected:same-relay-block")
					}
				case done[dk]:
					ctx.Label("replay-rejected:also-invalid")
				default:
					ctx.Label("rejected:not-acceptable:" + op.Variant)
				}
			}
			checkMarkers("after import " + cls)
		}
	}
	if nontrivial {
		ctx.NonTrivial()
	}
	c20Mu.Lock()
	c20Routers[name]++
	c20Acc[name] += accepted
	c20Mu.Unlock()
	id := propID("C20")
	ev.Get(id).Extra("routers", c20Routers)
	ev.Get(id).Extra("routers_imports_accepted", c20Acc)
	ev.Get(id).Extra("routers_valid_replays_rejected", c20Replay)
}

func TestC20Evm(t *testing.T) {
	ev.Drive(t, propID("C20"),
		"PoSA-router unit on a MAIN-NET relay world (network id 1, relay height 18823001+): bsc, bytom, heco, hsc, pixiechain, msc, polygon-bor with header chains synced through the real header sync "+
			"(a main branch carrying the deposit state, a side branch carrying a state without deposits; branch growth ops make the deposit's block leave and re-enter the canonical chain), optionally a second registered chain of the same router holding the same cross-chain ids. "+
			"2..8 real ImportOuterTransfer calls: fresh deposit, exact replay, the same (source chain, cross-chain id) proven at another height / under another storage slot / by another valid proof document / with another message body, corrupted proofs, "+
			"replays in the same and in later relay blocks and after header syncs. non-trivial: an accepted import followed later by a rejected replay that carries a different valid proof; distinct by JSON of the case",
		genC20, runC20)
}
