// Package pevm holds the checks of the EVM-family routers that track a proof-of-staked-authority
// chain: C29 (PoSA light clients store only validly sealed headers, canonical chain follows the
// highest total difficulty) and C23 (deposit proofs against a tracked header are sound and
// complete). Both drive the real native contracts through the L1 world (package world): side
// chains are registered with registerSideChain + approveRegisterSideChain, the trust root is
// installed with syncGenesisHeader witnessed by the operator address, and synthetic headers sealed
// by harness secp256k1 keys are pushed through syncBlockHeader.
package pevm

import (
	"testing"

	"verif/harness/ev"
)

func TestMain(m *testing.M) { ev.Main(m) }
