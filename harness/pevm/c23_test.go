package pevm

import (
	"bytes"
	"encoding/hex"
	"encoding/json"
	"fmt"
	"math/big"
	"os"
	"strings"
	"sync"
	"testing"

	ecommon "github.com/ethereum/go-ethereum/common"
	"github.com/ethereum/go-ethereum/core/types"
	"github.com/ethereum/go-ethereum/crypto"
	"github.com/ethereum/go-ethereum/ethdb/memorydb"
	"github.com/ethereum/go-ethereum/light"
	"github.com/ethereum/go-ethereum/rlp"
	"github.com/ethereum/go-ethereum/trie"
	"github.com/polynetwork/poly/common"
	ccom "github.com/polynetwork/poly/native/service/cross_chain_manager/common"
	"github.com/polynetwork/poly/native/service/utils"
	"pgregory.net/rapid"

	"verif/harness/ev"
	"verif/harness/world"
)

// ---------------------------------------------------------------------------------------------
// C23 EVM-family deposit proofs are sound and complete
//
// World state of the source chain: a go-ethereum secure state trie (accounts incl. the registered
// cross-chain-manager contract, CCMC) whose CCMC account points to a secure storage trie; a deposit
// is a storage slot holding keccak256(message). Three states exist per case: "pre" (no deposit),
// "dep" (deposits present) and "alt" (another storage content, carried by side-branch blocks).
// Tracked headers carrying these roots are installed through the real header-sync path.

type acctState struct {
	addr    ecommon.Address
	nonce   uint64
	balance *big.Int
	code    ecommon.Hash
	storage map[ecommon.Hash][]byte // slot key -> value (32 bytes, or longer; stored without leading zero bytes; absent = zero)
	raw     map[ecommon.Hash][]byte // slot key -> byte string stored AS IS (may be empty or start with zero bytes: encodings no real chain produces)
}

type worldState struct {
	name     string
	accts    []*acctState
	state    *trie.SecureTrie
	root     ecommon.Hash
	storages map[ecommon.Address]*trie.SecureTrie
}

func newSecure() *trie.SecureTrie {
	t, err := trie.NewSecure(ecommon.Hash{}, trie.NewDatabase(memorydb.New()))
	if err != nil {
		panic(err)
	}
	return t
}

func storageValueRLP(v []byte) []byte {
	b, _ := rlp.EncodeToBytes(bytes.TrimLeft(v, "\x00"))
	return b
}

func buildWorldState(name string, accts []*acctState) *worldState {
	ws := &worldState{name: name, accts: accts, state: newSecure(), storages: map[ecommon.Address]*trie.SecureTrie{}}
	for _, a := range accts {
		st := newSecure()
		for k, v := range a.storage {
			if len(bytes.TrimLeft(v, "\x00")) == 0 {
				continue
			}
			st.Update(k[:], storageValueRLP(v))
		}
		for k, v := range a.raw {
			enc, _ := rlp.EncodeToBytes(v)
			st.Update(k[:], enc)
		}
		ws.storages[a.addr] = st
		enc, err := rlp.EncodeToBytes([]interface{}{a.nonce, a.balance, st.Hash(), a.code})
		if err != nil {
			panic(err)
		}
		ws.state.Update(a.addr[:], enc)
	}
	ws.root = ws.state.Hash()
	return ws
}

func (ws *worldState) acct(a ecommon.Address) *acctState {
	for _, x := range ws.accts {
		if x.addr == a {
			return x
		}
	}
	return nil
}

func proveNodes(t *trie.SecureTrie, key []byte) [][]byte {
	var nl light.NodeList
	// SecureTrie.Prove expects the already hashed key (go-ethereum's state.GetProof does the same)
	if err := t.Prove(crypto.Keccak256(key), 0, &nl); err != nil {
		panic(err)
	}
	out := make([][]byte, len(nl))
	for i, n := range nl {
		out[i] = []byte(n)
	}
	return out
}

// --- the relayer's proof document (eth_getProof shape)

type spJSON struct {
	Key   string   `json:"key"`
	Value string   `json:"value"`
	Proof []string `json:"proof"`
}

type proofJSON struct {
	Address       string   `json:"address"`
	Balance       string   `json:"balance"`
	CodeHash      string   `json:"codeHash"`
	Nonce         string   `json:"nonce"`
	StorageHash   string   `json:"storageHash"`
	AccountProof  []string `json:"accountProof"`
	StorageProofs []spJSON `json:"storageProof"`
}

func hx(b []byte) string { return "0x" + hex.EncodeToString(b) }

func hexList(n [][]byte) []string {
	out := make([]string, len(n))
	for i, b := range n {
		out[i] = hx(b)
	}
	return out
}

// honestProof is what an honest relayer would submit for (account, slot) against state ws.
func honestProof(ws *worldState, account ecommon.Address, slot ecommon.Hash) *proofJSON {
	a := ws.acct(account)
	p := &proofJSON{Address: hx(account[:]), AccountProof: hexList(proveNodes(ws.state, account[:]))}
	if a == nil {
		p.Balance, p.Nonce = "0x0", "0x0"
		p.CodeHash, p.StorageHash = hx(crypto.Keccak256(nil)), hx(types.EmptyRootHash[:])
		p.StorageProofs = []spJSON{{Key: hx(slot[:]), Value: "0x0", Proof: nil}}
		return p
	}
	st := ws.storages[account]
	sh := st.Hash()
	p.Balance = "0x" + a.balance.Text(16)
	p.Nonce = fmt.Sprintf("0x%x", a.nonce)
	p.CodeHash = hx(a.code[:])
	p.StorageHash = hx(sh[:])
	v := a.storage[slot]
	p.StorageProofs = []spJSON{{Key: hx(slot[:]), Value: "0x" + new(big.Int).SetBytes(v).Text(16), Proof: hexList(proveNodes(st, slot[:]))}}
	return p
}

// --- messages

// Own writer / reader of the wire format's var-uint and var-bytes (written from the format description:
// < 0xFD one byte; <= 0xFFFF 0xFD + u16 LE; <= 0xFFFFFFFF 0xFE + u32 LE; else 0xFF + u64 LE), so that
// expected values and the "message parses" term do not depend on the codec of the code under test.
func encVarUint(v uint64) []byte {
	switch {
	case v < 0xFD:
		return []byte{byte(v)}
	case v <= 0xFFFF:
		return []byte{0xFD, byte(v), byte(v >> 8)}
	case v <= 0xFFFFFFFF:
		return []byte{0xFE, byte(v), byte(v >> 8), byte(v >> 16), byte(v >> 24)}
	}
	return append([]byte{0xFF}, le64(v)...)
}

func encVarBytes(b []byte) []byte {
	return append(encVarUint(uint64(len(b))), b...)
}

// decVarBytes reads one var-bytes item from b; ok=false when b is too short.
func decVarBytes(b []byte) (item, rest []byte, ok bool) {
	if len(b) < 1 {
		return nil, nil, false
	}
	var n uint64
	w := 1
	switch b[0] {
	case 0xFD:
		w = 3
	case 0xFE:
		w = 5
	case 0xFF:
		w = 9
	}
	if len(b) < w {
		return nil, nil, false
	}
	if w == 1 {
		n = uint64(b[0])
	} else {
		for i := w - 1; i >= 1; i-- {
			n = n<<8 | uint64(b[i])
		}
	}
	if uint64(len(b)-w) < n {
		return nil, nil, false
	}
	return b[w : w+int(n)], b[w+int(n):], true
}

type message struct {
	TxHash, CrossChainID, FromContract, ToContract, Args []byte
	Method                                               string
	ToChain                                              uint64
}

// encode: var-bytes txHash, crossChainID, fromContract; u64 toChain; var-bytes toContract, method, args
func (m message) encode() []byte {
	var out []byte
	out = append(out, encVarBytes(m.TxHash)...)
	out = append(out, encVarBytes(m.CrossChainID)...)
	out = append(out, encVarBytes(m.FromContract)...)
	out = append(out, le64(m.ToChain)...)
	out = append(out, encVarBytes(m.ToContract)...)
	out = append(out, encVarBytes([]byte(m.Method))...)
	out = append(out, encVarBytes(m.Args)...)
	return out
}

func makeMessage(i int, argLen int, leadZero bool) message {
	tag := []byte(fmt.Sprintf("msg-%d", i))
	m := message{TxHash: crypto.Keccak256(tag, []byte("tx")), CrossChainID: crypto.Keccak256(tag, []byte("ccid")),
		FromContract: crypto.Keccak256(tag, []byte("from"))[:20], ToContract: crypto.Keccak256(tag, []byte("to"))[:20],
		Method: "unlock", ToChain: destChainID}
	if argLen < 2 {
		argLen = 2 // room for the grinding counter
	}
	m.Args = make([]byte, argLen)
	for k := range m.Args {
		m.Args[k] = byte(i*31 + k)
	}
	if leadZero {
		// search a message whose keccak starts with a zero byte (stored value is then shorter than 32 bytes)
		for n := 0; n < 1<<16; n++ {
			m.Args[0], m.Args[1] = byte(n), byte(n>>8)
			if crypto.Keccak256(m.encode())[0] == 0 {
				break
			}
		}
	}
	return m
}

// --- case

type c23Import struct {
	Height string `json:"h"`            // boundary | short | deep | tip | above | below-root | root | side | pre
	HOff   int    `json:"ho,omitempty"` // variation inside the class
	State  string `json:"st"`           // state the proof is built against: dep | pre | alt | block (the state of the block at the chosen height)
	Msg    int    `json:"msg"`
	Mut    string `json:"m,omitempty"`
	Arg    int    `json:"a,omitempty"`
}

type c23Case struct {
	Router   string      `json:"router"`
	Btw      uint64      `json:"btw"`
	GNum     uint64      `json:"gnum"`
	NVal     int         `json:"nval"`
	Len      int         `json:"len"`      // canonical blocks after the trust root
	DepAt    int         `json:"depAt"`    // first canonical block (0 = trust root) carrying the deposit state
	SideAt   int         `json:"sideAt"`   // side branch forks off canonical block index SideAt
	SideLen  int         `json:"sideLen"`  // 0 = no side branch
	SideFrst bool        `json:"sideFrst"` // side branch synced before the main chain (forces a reorg)
	NAcc     int         `json:"nacc"`
	NSlot    int         `json:"nslot"`
	NMsg     int         `json:"nmsg"`
	ArgLen   int         `json:"arglen"`
	LeadZero bool        `json:"leadzero,omitempty"`
	Imports  []c23Import `json:"imports"`
}

// Args lengths incl. every var-uint prefix boundary of the message encoding
var c23ArgLens = []int{2, 3, 32, 200, 2, 32, 200, 252, 253, 254, 255, 256, 65534, 65535, 65536}

// lengths of the "short value that is a tail of keccak(message)" slots
var c23ShortLens = []int{1, 2, 3, 8, 16, 20, 31}

var c23Muts = []string{"", "", "", "", "splice-storage", "splice-storage", "splice-storage", "short-suffix", "short-suffix", "short-suffix", "long-suffix", "hash-prefix", "empty-value", "zero-byte-then-hash", "other-account", "ccmc-label-other-proof", "other-slot", "absent-slot", "value-field", "drop-acct-node",
	"drop-stor-node", "reorder", "extra-nodes", "addr-case", "addr-noprefix", "addr-other", "nonce", "balance", "codehash", "storagehash",
	"equiv-encoding", "message", "message-trunc", "two-storage-proofs", "no-storage-proof", "json-trunc", "json-garbage", "swap-proofs", "empty-acct-proof"}

var c23Heights = []string{"boundary", "boundary", "boundary", "short", "short", "deep", "tip", "above", "below-root", "below-root", "root", "side", "pre"}

func genC23(t *rapid.T) c23Case {
	c := c23Case{
		Router: rapid.SampledFrom(c23Routers()).Draw(t, "router"),
		Btw:    uint64(rapid.IntRange(1, ev.Scale(8, 20)).Draw(t, "btw")),
		GNum:   uint64(rapid.IntRange(2, 60).Draw(t, "gnum")),
		NVal:   rapid.IntRange(1, 5).Draw(t, "nval"),
		NAcc:   rapid.IntRange(1, ev.Scale(16, 50)).Draw(t, "nacc"),
		NSlot:  rapid.IntRange(1, ev.Scale(16, 50)).Draw(t, "nslot"),
		NMsg:   rapid.IntRange(1, 8).Draw(t, "nmsg"),
		ArgLen: rapid.SampledFrom(c23ArgLens).Draw(t, "arglen"),
	}
	if r := os.Getenv("PEVM_ROUTER"); r != "" {
		c.Router = r // development aid only: pin the router (never set by the driver)
	}
	// mostly long enough for the confirmation boundary to lie on the tracked chain
	if rapid.IntRange(0, 4).Draw(t, "shortchain") == 0 {
		c.Len = rapid.IntRange(0, int(c.Btw)).Draw(t, "len")
	} else {
		c.Len = int(c.Btw) - 1 + rapid.IntRange(0, 6).Draw(t, "len")
	}
	if rapid.IntRange(0, 2).Draw(t, "dep0") > 0 {
		c.DepAt = 0
	} else {
		c.DepAt = rapid.IntRange(0, c.Len).Draw(t, "depAt")
	}
	if c.Len > 0 && rapid.Bool().Draw(t, "side?") {
		c.SideAt = rapid.IntRange(0, c.Len-1).Draw(t, "sideAt")
		c.SideLen = rapid.IntRange(1, 3).Draw(t, "sideLen")
		c.SideFrst = rapid.Bool().Draw(t, "sideFirst")
	}
	c.LeadZero = rapid.IntRange(0, 5).Draw(t, "leadzero") == 0
	c.Imports = rapid.SliceOfN(rapid.Custom(func(t *rapid.T) c23Import {
		im := c23Import{
			Mut:  rapid.SampledFrom(c23Muts).Draw(t, "mut"),
			HOff: rapid.IntRange(0, 3).Draw(t, "hoff"),
			Msg:  rapid.IntRange(0, 7).Draw(t, "msg"),
			Arg:  rapid.IntRange(0, 31).Draw(t, "arg"),
		}
		if im.Mut != "" && rapid.IntRange(0, 9).Draw(t, "focus") > 0 {
			// a mutated proof is mostly submitted where the honest one would be accepted
			im.Height = rapid.SampledFrom([]string{"boundary", "boundary", "deep"}).Draw(t, "height")
			im.State = "block"
		} else {
			im.Height = rapid.SampledFrom(c23Heights).Draw(t, "height")
			im.State = rapid.SampledFrom([]string{"block", "block", "block", "block", "dep", "pre", "alt"}).Draw(t, "state")
		}
		return im
	}), 1, 8).Draw(t, "imports")
	return c
}

// --- evidence tables

var (
	c23Mu       sync.Mutex
	c23Cases    = map[string]int{}
	c23Accepted = map[string]int{}
	c23Rejected = map[string]int{}
)

func c23Flush() {
	r := ev.Get("C23")
	r.Extra("routers", c23Cases)
	r.Extra("routers_imports_accepted", c23Accepted)
	r.Extra("routers_imports_rejected", c23Rejected)
	r.Extra("routers_not_exercised", c23NotExercised())
}

const keyF8 = "F8-nil-canonical-header-below-trust-root"

// slotKey: an arbitrary but fixed 32-byte storage key per (message index, variant)
func slotKey(tag string, i int) ecommon.Hash {
	return crypto.Keccak256Hash([]byte("slot"), []byte(tag), []byte{byte(i), byte(i >> 8)})
}

func runC23(ctx *ev.Ctx, c c23Case) { runC23With(ctx, c, nil) }

func runC23With(ctx *ev.Ctx, c c23Case, hook txHook) {
	fam := familyOf(c.Router)
	if fam == nil {
		panic("harness: unknown router " + c.Router)
	}
	ctx.Label("router:" + c.Router)
	ctx.Label(fmt.Sprintf("arglen:%d", c.ArgLen))
	ccmc := ecommon.BytesToAddress(crypto.Keccak256([]byte("ccmc-contract"))[12:])

	// ---- source-chain world states
	nmsg := c.NMsg
	if nmsg < 1 {
		nmsg = 1
	}
	msgs := make([]message, nmsg+1)
	for i := range msgs {
		msgs[i] = makeMessage(i, c.ArgLen, c.LeadZero && i == 0)
	}
	altMsg := nmsg // the message deposited only in the "alt" state
	mkAccts := func(variant string) []*acctState {
		var as []*acctState
		n := c.NAcc
		if n < 1 {
			n = 1
		}
		for i := 0; i < n-1; i++ {
			a := &acctState{addr: ecommon.BytesToAddress(crypto.Keccak256([]byte("acct"), []byte{byte(i)})[12:]), nonce: uint64(i * 3),
				balance: new(big.Int).Lsh(big.NewInt(int64(i+1)), uint(i%70)), code: crypto.Keccak256Hash(nil), storage: map[ecommon.Hash][]byte{}}
			if i%2 == 0 {
				// some other contracts hold the very same deposit hashes: they must not help
				a.code = crypto.Keccak256Hash([]byte("othercode"))
				for k := 0; k < nmsg; k++ {
					a.storage[slotKey("dep", k)] = crypto.Keccak256(msgs[k].encode())
				}
			}
			as = append(as, a)
		}
		cc := &acctState{addr: ccmc, nonce: 1, balance: big.NewInt(0), code: crypto.Keccak256Hash([]byte("ccmc-code")), storage: map[ecommon.Hash][]byte{}}
		ns := c.NSlot
		if ns < 1 {
			ns = 1
		}
		for i := 0; i < ns-1; i++ {
			cc.storage[slotKey("filler", i)] = crypto.Keccak256([]byte("filler"), []byte{byte(i)})
		}
		cc.raw = map[ecommon.Hash][]byte{}
		deposit := func(k int) {
			hash := crypto.Keccak256(msgs[k].encode())
			cc.storage[slotKey("dep", k)] = hash
			// neighbours of the deposit slot: slots of the same contract whose value is only RELATED to the hash
			for _, n := range c23ShortLens {
				short := make([]byte, 32)
				copy(short[32-n:], hash[32-n:]) // a short value (flag / counter sized) that is a tail of the hash
				cc.storage[slotKey(fmt.Sprintf("short%d", n), k)] = short
			}
			cc.storage[slotKey("long", k)] = append([]byte{0x01}, hash...) // 33 bytes ending in the hash
			cc.storage[slotKey("prefix", k)] = append(append([]byte{}, hash[:16]...), make([]byte, 16)...)
			cc.raw[slotKey("zero33", k)] = append([]byte{0x00}, hash...) // non-canonical: leading zero byte kept
			cc.raw[slotKey("empty", k)] = []byte{}
		}
		switch variant {
		case "dep":
			for k := 0; k < nmsg; k++ {
				deposit(k)
			}
		case "alt":
			deposit(altMsg)
			cc.nonce = 2
		}
		return append(as, cc)
	}
	states := map[string]*worldState{"pre": buildWorldState("pre", mkAccts("pre")), "dep": buildWorldState("dep", mkAccts("dep")), "alt": buildWorldState("alt", mkAccts("alt"))}
	byRoot := map[ecommon.Hash]*worldState{}
	for _, ws := range states {
		byRoot[ws.root] = ws
	}

	// ---- tracked chain through the real header sync
	rootAt := func(i int) ecommon.Hash {
		if i >= c.DepAt {
			return states["dep"].root
		}
		return states["pre"].root
	}
	e := newEnv(fam.ad, 2000+fam.ad.router, 97, 1, c.Btw, ccmc[:], 64)
	e.hook = hook
	defer e.w.Store.Close() // releases the store's background goroutines and buffers
	if err := registerChain(e.w, destChainID, utils.ETH_ROUTER, 1, crypto.Keccak256([]byte("dest-ccmc"))[:20], nil, "dest"); err != nil {
		panic("harness: " + err.Error())
	}
	gnum := c.GNum
	if gnum < 2 {
		gnum = 2
	}
	nval := c.NVal
	if nval < 1 {
		nval = 1
	}
	m, err := fam.start(e, gnum, nval, rootAt(0))
	if err != nil {
		ctx.Failf("setup (%s): a well-formed trust root was refused: %v", c.Router, err)
	}
	gnum = m.genesis.h.Number.Uint64() // msc / bor round the trust-root height to their epoch grid
	push := func(p *node, root ecommon.Hash, weak bool) *node {
		h := fam.grow(m, p, root, weak)
		n := &node{h: h, hash: h.Hash(), parent: p, td: new(big.Int).Add(p.td, h.Difficulty)}
		fam.after(m, p, n)
		m.add(n)
		res := e.syncHeaders([][]byte{m.wire(h)})
		e.w.NextBlock()
		if !res.OK() || e.storedRaw(n.hash) == nil {
			// completeness of header sync is not judged here (C29 counts it); without the chain the case ends
			ctx.Label("setup-incomplete:valid-header-refused")
			return nil
		}
		m.markStored(n)
		return n
	}
	buildMain := func() bool {
		tip := m.genesis
		for i := 1; i <= c.Len; i++ {
			if tip = push(tip, rootAt(i), false); tip == nil {
				return false
			}
		}
		return true
	}
	var sideNodes []*node
	buildSide := func(from *node) bool {
		tip := from
		for i := 0; i < c.SideLen; i++ {
			if tip = push(tip, states["alt"].root, true); tip == nil {
				return false
			}
			sideNodes = append(sideNodes, tip)
		}
		return true
	}
	if c.SideLen > 0 && c.SideFrst && c.SideAt == 0 {
		if !buildSide(m.genesis) || !buildMain() {
			return
		}
	} else {
		if !buildMain() {
			return
		}
		if c.SideLen > 0 {
			// locate the canonical block with index SideAt on the main chain
			from := m.stored[0]
			for _, n := range m.stored {
				if n.h.Number.Uint64() == gnum+uint64(c.SideAt) && (len(sideNodes) == 0) {
					from = n
					break
				}
			}
			if !buildSide(from) {
				return
			}
		}
	}
	head, problem := m.checkForkChoice()
	if problem != "" {
		ctx.Failf("%s fork choice while building the tracked chain: %s", c.Router, problem)
	}
	canon := map[uint64]*node{}
	for q := head; q != nil; q = q.parent {
		canon[q.h.Number.Uint64()] = q
	}
	tipH := head.h.Number.Uint64()
	onSide := false
	for _, s := range sideNodes {
		if canon[s.h.Number.Uint64()] == s {
			onSide = true
		}
	}
	if onSide {
		ctx.Label("side-branch-became-canonical")
	}

	// ---- imports
	done := map[string]bool{}
	boundary, mutatedWellFormed := false, false
	nAcc, nRej := 0, 0
	for _, im := range c.Imports {
		// height
		var height int64
		switch im.Height {
		case "boundary": // exactly BlocksToWait confirmations
			height = int64(tipH) - int64(c.Btw) + 1
		case "short": // one confirmation too few
			height = int64(tipH) - int64(c.Btw) + 2 + int64(im.HOff%2)
		case "deep":
			height = int64(tipH) - int64(c.Btw) - int64(im.HOff)
		case "tip":
			height = int64(tipH)
		case "above":
			height = int64(tipH) + 1 + int64(im.HOff)
		case "below-root":
			height = int64(gnum) - 1 - int64(im.HOff)
		case "root":
			height = int64(gnum)
		case "side":
			height = int64(gnum) + int64(c.SideAt) + 1 + int64(im.HOff%3)
		case "pre":
			height = int64(gnum) + int64(c.DepAt) - 1 - int64(im.HOff%2)
		default:
			height = int64(tipH)
		}
		if height < 0 {
			height = 0
		}
		if height > 1<<31 {
			height = 1 << 31
		}
		blk := canon[uint64(height)]
		// state the proof is built against
		var ws *worldState
		switch im.State {
		case "dep", "pre", "alt":
			ws = states[im.State]
		default:
			if blk != nil {
				ws = byRoot[blk.h.Root]
			}
			if ws == nil {
				ws = states["dep"]
			}
		}
		mi := im.Msg % nmsg
		if ws.name == "alt" {
			mi = altMsg
		}
		msg := msgs[mi]
		extra := msg.encode()
		slot := slotKey("dep", mi)
		account := ccmc
		pj := honestProof(ws, account, slot)
		acctNodes := append([]string{}, pj.AccountProof...)
		storNodes := append([]string{}, pj.StorageProofs[0].Proof...)

		// --- mutation; the oracle terms are tracked explicitly
		addrOK, fieldsOK, acctNodesOK, storNodesOK, jsonOK, oneStorageProof := true, true, true, true, true, true
		unjudged, spliced := false, false
		var rawProof []byte
		label := "mut:" + im.Mut
		if im.Mut == "" {
			label = "honest"
		}
		switch im.Mut {
		case "":
		case "other-account": // a genuine proof for another contract that holds the same hash
			other := ws.accts[im.Arg%len(ws.accts)]
			account = other.addr
			pj = honestProof(ws, account, slot)
			acctNodes, storNodes = pj.AccountProof, pj.StorageProofs[0].Proof
			addrOK = account == ccmc
		case "ccmc-label-other-proof": // claims the CCMC address but carries another account's proof and fields
			other := ws.accts[im.Arg%len(ws.accts)]
			pj = honestProof(ws, other.addr, slot)
			pj.Address = hx(ccmc[:])
			if other.addr != ccmc {
				acctNodesOK = false // the CCMC leaf is not among another account's proof nodes
				account = other.addr
			}
		case "other-slot":
			keys := sortedSlots(ws.acct(ccmc))
			slot = keys[im.Arg%len(keys)]
			pj = honestProof(ws, ccmc, slot)
		case "absent-slot":
			slot = slotKey("absent", im.Arg)
			pj = honestProof(ws, ccmc, slot)
		case "splice-storage":
			// genuine account proof and genuine nonce / balance / code hash of the registered contract, but storageHash and a
			// self-consistent storage proof taken from ANOTHER storage trie in which keccak(message) sits at the slot
			if im.Arg%2 == 0 {
				msg = makeMessage(100+mi, c.ArgLen, false) // a message that was never deposited
				extra = msg.encode()
			}
			t2 := newSecure()
			for i := 0; i < 1+im.Arg%5; i++ {
				fk := slotKey("splice-filler", i)
				t2.Update(fk[:], storageValueRLP(crypto.Keccak256([]byte{byte(i)})))
			}
			t2.Update(slot[:], storageValueRLP(crypto.Keccak256(extra)))
			r2 := t2.Hash()
			pj.StorageHash = hx(r2[:])
			pj.StorageProofs = []spJSON{{Key: hx(slot[:]), Value: hx(crypto.Keccak256(extra)), Proof: hexList(proveNodes(t2, slot[:]))}}
			fieldsOK = false // the claimed storage root is not the one of the account proven under the block's state root
			spliced = true
		case "short-suffix": // genuine proof of a slot holding only the last n bytes of keccak(message)
			n := c23ShortLens[im.Arg%len(c23ShortLens)]
			slot = slotKey(fmt.Sprintf("short%d", n), mi)
			pj = honestProof(ws, ccmc, slot)
			label += fmt.Sprintf(":%d", n)
		case "long-suffix": // 33-byte value ending in the hash
			slot = slotKey("long", mi)
			pj = honestProof(ws, ccmc, slot)
		case "hash-prefix": // first half of the hash, zero tail
			slot = slotKey("prefix", mi)
			pj = honestProof(ws, ccmc, slot)
		case "empty-value":
			slot = slotKey("empty", mi)
			pj = honestProof(ws, ccmc, slot)
		case "zero-byte-then-hash": // numerically the hash, but 33 bytes: an encoding no chain produces; counted, not judged
			slot = slotKey("zero33", mi)
			pj = honestProof(ws, ccmc, slot)
			unjudged = true
		case "value-field": // the informational "value" member is not what is proven
			pj.StorageProofs[0].Value = "0x1234"
		case "drop-acct-node":
			if len(pj.AccountProof) > 0 {
				k := im.Arg % len(pj.AccountProof)
				pj.AccountProof = append(append([]string{}, pj.AccountProof[:k]...), pj.AccountProof[k+1:]...)
				acctNodesOK = false
			}
		case "drop-stor-node":
			sp := pj.StorageProofs[0].Proof
			if len(sp) > 0 {
				k := im.Arg % len(sp)
				pj.StorageProofs[0].Proof = append(append([]string{}, sp[:k]...), sp[k+1:]...)
				storNodesOK = false
			}
		case "reorder":
			pj.AccountProof = reverseStrings(pj.AccountProof)
			pj.StorageProofs[0].Proof = reverseStrings(pj.StorageProofs[0].Proof)
		case "extra-nodes":
			junk := hx(crypto.Keccak256([]byte("junk")))
			pj.AccountProof = append([]string{junk}, pj.AccountProof...)
			pj.StorageProofs[0].Proof = append(pj.StorageProofs[0].Proof, junk, hx([]byte{0xc0}))
		case "addr-case":
			pj.Address = "0x" + strings.ToUpper(hex.EncodeToString(ccmc[:]))
			if im.Arg%2 == 0 {
				pj.Address = "0X" + strings.ToUpper(hex.EncodeToString(ccmc[:]))
			}
		case "addr-noprefix":
			pj.Address = hex.EncodeToString(ccmc[:])
		case "addr-other":
			o := ccmc
			o[im.Arg%20] ^= 1 << uint(im.Arg%8)
			pj.Address = hx(o[:])
			addrOK = false
		case "nonce":
			pj.Nonce = fmt.Sprintf("0x%x", ws.acct(ccmc).nonce+1+uint64(im.Arg))
			fieldsOK = false
		case "balance":
			pj.Balance = fmt.Sprintf("0x%x", 1+im.Arg)
			fieldsOK = false
		case "codehash":
			pj.CodeHash = hx(crypto.Keccak256([]byte{byte(im.Arg)}))
			fieldsOK = false
		case "storagehash":
			pj.StorageHash = hx(crypto.Keccak256([]byte{byte(im.Arg), 1}))
			fieldsOK = false
		case "equiv-encoding": // same numbers, different spelling
			a := ws.acct(ccmc)
			pj.Nonce = fmt.Sprintf("000%X", a.nonce)
			pj.Balance = "0x00" + a.balance.Text(16)
			pj.CodeHash = strings.ToUpper(hex.EncodeToString(a.code[:]))
		case "message":
			extra = append([]byte{}, extra...)
			extra[im.Arg%len(extra)] ^= 0x01
		case "message-trunc":
			extra = extra[:len(extra)-1-im.Arg%3]
		case "two-storage-proofs":
			pj.StorageProofs = append(pj.StorageProofs, pj.StorageProofs[0])
			oneStorageProof = false
		case "no-storage-proof":
			pj.StorageProofs = nil
			oneStorageProof = false
		case "json-trunc", "json-garbage":
			jsonOK = false
		case "swap-proofs":
			pj.AccountProof, pj.StorageProofs[0].Proof = pj.StorageProofs[0].Proof, pj.AccountProof
			acctNodesOK, storNodesOK = false, false
		case "empty-acct-proof":
			pj.AccountProof = nil
			acctNodesOK = false
		default:
			panic("harness: unknown mutation " + im.Mut)
		}
		rawProof, _ = json.Marshal(pj)
		switch im.Mut {
		case "json-trunc":
			rawProof = rawProof[:len(rawProof)-1-im.Arg%(len(rawProof)/2)]
		case "json-garbage":
			rawProof = []byte(`{"address": 5, "storageProof": "x"}`)
		}
		_, _ = acctNodes, storNodes

		// --- oracle (harness's own trie and chain model)
		confirmed := blk != nil && tipH >= uint64(height) && tipH-uint64(height)+1 >= c.Btw
		rootMatch := blk != nil && blk.h.Root == ws.root
		var proven []byte
		if a := ws.acct(account); a != nil {
			proven = a.storage[slot]
		}
		valueOK := proven != nil && bytes.Equal(proven, crypto.Keccak256(extra))
		if spliced {
			valueOK = true // the value proven under the CLAIMED storage root is the message hash; the claim itself is what fails
		}
		parses := extraParses(extra)
		id := string(msg.CrossChainID)
		if im.Mut == "message" || im.Mut == "message-trunc" {
			id = "" // a changed message never reaches the done-check in an accepting run
		}
		want := confirmed && rootMatch && jsonOK && oneStorageProof && addrOK && fieldsOK && acctNodesOK && storNodesOK && valueOK && parses && !done[id]
		why := fmt.Sprintf("canonical-block=%v confirmed=%v(tip %d, height %d, BlocksToWait %d) root-match=%v json=%v one-storage-proof=%v address=%v account-fields=%v account-nodes=%v storage-nodes=%v value==keccak(message)=%v message-parses=%v already-done=%v",
			blk != nil, confirmed, tipH, height, c.Btw, rootMatch, jsonOK, oneStorageProof, addrOK, fieldsOK, acctNodesOK, storNodesOK, valueOK, parses, done[id])

		// --- run the real import
		ep := &ccom.EntranceParam{SourceChainID: e.chainID, Height: uint32(height), Proof: rawProof, RelayerAddress: world.Acct(41).Address[:], Extra: extra}
		sink := common.NewZeroCopySink(nil)
		ep.Serialization(sink)
		before := e.w.DumpHash()
		res := e.exec(e.w.MakeTx(utils.CrossChainManagerContractAddress, ccom.IMPORT_OUTER_TRANSFER_NAME, sink.Bytes(), []common.Address{world.Acct(41).Address}))
		e.w.NextBlock()
		cls := fmt.Sprintf("%s/%s/%s", im.Height, ws.name, label)
		if res.Panic != "" {
			if want {
				ctx.Failf("%s: import that must be accepted panicked: %s [%s]", c.Router, res.Panic, why)
			}
			if blk == nil && uint64(height) < gnum {
				if ctx.Known(keyF8, "%s: ImportOuterTransfer with height %d below the trust root %d (canonical tip %d, BlocksToWait %d) panics inside transaction execution: %s",
					c.Router, height, gnum, tipH, c.Btw, res.Panic) {
					ctx.Label("known:" + keyF8)
					if e.w.DumpHash() != before {
						ctx.Failf("%s: state changed by a panicking import", c.Router)
					}
					continue
				}
			}
			ctx.Failf("%s: import panicked (%s): %s [%s]", c.Router, cls, res.Panic, why)
		}
		got := res.Err == nil
		if unjudged {
			ctx.Label(fmt.Sprintf("unjudged:%s:accepted=%v", label, got))
			want = got
			if got {
				done[id] = true
			}
		}
		if got != want {
			ctx.Failf("%s: import %s accepted=%v, reference says %v [%s] err=%v", c.Router, cls, got, want, why, res.Err)
		}
		if got {
			nAcc++
			ctx.Label("accepted:" + im.Height + "/" + label)
			done[id] = true
			// the accepted message is exactly the submitted one
			key := append(append(append([]byte{}, utils.CrossChainManagerContractAddress[:]...), []byte(ccom.REQUEST)...), le64(msg.ToChain)...)
			key = append(key, res.TxHash[:]...)
			val := e.w.Get(key)
			wantVal := append(append(encVarBytes(res.TxHash[:]), le64(e.chainID)...), extra...)
			if !bytes.Equal(val, wantVal) {
				ctx.Failf("%s: accepted import stored request %x, want (tx hash, source chain, submitted message) %x", c.Router, val, wantVal)
			}
			if uint64(height) == tipH-c.Btw+1 {
				boundary = true
			}
		} else {
			nRej++
			ctx.Label("rejected:" + im.Height + "/" + label)
			if e.w.DumpHash() != before {
				ctx.Failf("%s: rejected import %s changed contract state", c.Router, cls)
			}
			if im.Mut != "" && jsonOK {
				mutatedWellFormed = true
			}
		}
	}
	if hook != nil {
		return
	}
	if boundary || mutatedWellFormed {
		ctx.NonTrivial()
	}
	c23Mu.Lock()
	c23Cases[c.Router]++
	c23Accepted[c.Router] += nAcc
	c23Rejected[c.Router] += nRej
	c23Mu.Unlock()
	c23Flush()
}

// extraParses: three var-bytes, a u64, three var-bytes (trailing bytes are tolerated by the decoder).
func extraParses(b []byte) bool {
	ok := true
	for i := 0; i < 3 && ok; i++ {
		_, b, ok = decVarBytes(b)
	}
	if !ok || len(b) < 8 {
		return false
	}
	b = b[8:]
	for i := 0; i < 3 && ok; i++ {
		_, b, ok = decVarBytes(b)
	}
	return ok
}

func sortedSlots(a *acctState) []ecommon.Hash {
	var ks []ecommon.Hash
	for k := range a.storage {
		ks = append(ks, k)
	}
	for i := 1; i < len(ks); i++ {
		for j := i; j > 0 && bytes.Compare(ks[j][:], ks[j-1][:]) < 0; j-- {
			ks[j], ks[j-1] = ks[j-1], ks[j]
		}
	}
	if len(ks) == 0 {
		ks = []ecommon.Hash{slotKey("none", 0)}
	}
	return ks
}

func reverseStrings(s []string) []string {
	out := make([]string, len(s))
	for i := range s {
		out[len(s)-1-i] = s[i]
	}
	return out
}

func TestC23(t *testing.T) {
	ev.Drive(t, "C23",
		"cases: a source-chain world (secure state trie of 1..16 (thorough 50) accounts incl. the registered CCMC, CCMC storage trie of 1..16 (50) slots, deposit slot = keccak(message)) in three variants "+
			"(before the deposit / with it / an alternative on a side branch), a tracked chain of 0..BlocksToWait+3 sealed headers (BlocksToWait 1..8 (20)) with an optional competing side branch, installed through "+
			"the real header sync of one router, and 1..8 ImportOuterTransfer calls: heights at the confirmation boundary, one short, deeper, tip, above tip, at / below the trust root, at side-branch heights, before the deposit; "+
			"proofs built with trie.Prove, honest or with one mutation (other account / slot, absent slot, a storage proof spliced in from another storage trie under a claimed storage root, genuine proofs of neighbour slots whose value is only related to keccak(message): its last 1..31 bytes, a 33-byte value ending in it, its first half, the empty string,  dropped, re-ordered, extra nodes, address spelling, altered nonce/balance/hashes, equivalent number spellings, altered message, "+
			"0 or 2 storage proofs, malformed JSON). non-trivial: an accepted proof at exactly BlocksToWait confirmations, or a rejected mutation whose JSON is well formed; distinct by JSON of the case",
		genC23, runC23)
}
