package pstore

import (
	"time"

	"verif/harness/ev"
)

// hangLimit bounds one case. Cases of this package take micro- to milliseconds; a case that is
// still running after this long is a livelock in the code under test (e.g. a corrupted skip
// list), which the driver would otherwise only report as an inconclusive timeout.
const hangLimit = 15 * time.Second

// guarded runs the body of a case in its own goroutine so that a livelock becomes an oracle
// failure. Oracle failures and panics raised inside f are re-raised on the driver goroutine.
func guarded(ctx *ev.Ctx, f func()) {
	type res struct {
		sentinel interface{}
		stray    string
	}
	done := make(chan res, 1)
	go func() {
		var r res
		defer func() {
			if x := recover(); x != nil {
				r.sentinel = x // ev.Catch only lets the Failf sentinel through
			}
			done <- r
		}()
		r.stray = ev.Catch(f)
	}()
	tm := time.NewTimer(hangLimit)
	defer tm.Stop()
	select {
	case r := <-done:
		if r.sentinel != nil {
			panic(r.sentinel)
		}
		if r.stray != "" {
			ctx.Failf("panic: %s", r.stray)
		}
	case <-tm.C:
		ctx.Failf("case did not finish within %s: livelock in the code under test", hangLimit)
	}
}

// smallArena is the goleveldb write-buffer size used for per-case in-memory stores (the
// production default of 4 MiB is allocated and zeroed on every Open).
const smallArena = 64 * 1024
