package pstore

import (
	"sync/atomic"
	"syscall"
	"time"

	"verif/harness/ev"
)

// spinLimit: a case of this package needs micro- to milliseconds of CPU. If the process burns
// this much USER cpu time while one case is running, the code under test is spinning (e.g. a
// corrupted skip list), which the driver would otherwise only report as an inconclusive timeout.
// The criterion is CPU time, not wall-clock time: on an overloaded machine a starved or
// page-faulting case can stall for a long time without consuming user CPU, and that must never be
// reported as a violation (a total stall ends in the driver's timeout = inconclusive).
const spinLimit = 20 * time.Second

// livelockSeen: once a spinning case has been detected its goroutine keeps burning CPU, so CPU
// accounting of later cases in this process is meaningless; they are skipped (rapid then keeps
// the detected case as the reported one; `./check <ID> replay` re-detects it in a fresh process).
var livelockSeen atomic.Bool

func userCPU() time.Duration {
	var ru syscall.Rusage
	if err := syscall.Getrusage(syscall.RUSAGE_SELF, &ru); err != nil {
		return 0
	}
	return time.Duration(ru.Utime.Sec)*time.Second + time.Duration(ru.Utime.Usec)*time.Microsecond
}

// guarded runs the body of a case in its own goroutine so that a livelock becomes an oracle
// failure. Oracle failures and panics raised inside f are re-raised on the driver goroutine.
func guarded(ctx *ev.Ctx, f func()) {
	if livelockSeen.Load() {
		ctx.Label("skipped-after-livelock")
		return
	}
	type res struct {
		sentinel interface{}
		stray    string
	}
	done := make(chan res, 1)
	go func() {
		var r res
		defer func() {
			if x := recover(); x != nil {
				r.sentinel = x // ev.Catch only lets the Failf sentinel through
			}
			done <- r
		}()
		r.stray = ev.Catch(f)
	}()
	tm := time.NewTimer(2 * time.Second)
	defer tm.Stop()
	var cpu0 time.Duration
	started := false
	for {
		select {
		case r := <-done:
			if r.sentinel != nil {
				panic(r.sentinel)
			}
			if r.stray != "" {
				ctx.Failf("panic: %s", r.stray)
			}
			return
		case <-tm.C:
			// slow path, only reached when a case takes longer than 2 s of wall-clock time
			if !started {
				started = true
				cpu0 = userCPU()
			} else if used := userCPU() - cpu0; used >= spinLimit {
				livelockSeen.Store(true)
				ctx.Failf("case is still running after consuming %s of user CPU time: livelock in the code under test", used.Round(time.Second))
			}
			tm.Reset(2 * time.Second)
		}
	}
}

// smallArena is the goleveldb write-buffer size used for per-case in-memory stores (the
// production default of 4 MiB is allocated and zeroed on every Open).
const smallArena = 64 * 1024
