package pstore

import (
	"bytes"
	"fmt"
	"sort"
	"testing"

	scom "github.com/polynetwork/poly/core/store/common"
	"github.com/polynetwork/poly/core/store/leveldbstore"
	"github.com/polynetwork/poly/core/store/overlaydb"
	"github.com/polynetwork/poly/native/storage"
	"pgregory.net/rapid"

	"verif/harness/ev"
)

// ---------------------------------------------------------------------------------------------
// C10 Layered state views (CacheDB over OverlayDB over LevelDBStore) agree with their backing store
//
// Oracle: three stacked Go maps (store / block layer / transaction layer). An empty value in an
// upper map is a tombstone. Reads resolve top-down; prefix scans are the byte-ordered live keys
// of the merged view; commit copies one map into the one below; reset clears a map.

const stPrefix = byte(scom.ST_STORAGE) // the byte CacheDB puts in front of every key

type c10KV struct {
	K ev.B `json:"k"`
	V ev.B `json:"v"`
}

type c10Op struct {
	// transaction layer (CacheDB; K is the key without the storage prefix):
	//   tput tdel tget titer tcommit treset
	// block layer (OverlayDB; K is the full key):
	//   bput bdel bget biter breset bcommit
	// persisted store (LevelDBStore; K is the full key): sget siter
	// scan scripts with interleaved operations: tscan bscan (see Steps)
	Op string `json:"op"`
	K  ev.B   `json:"k,omitempty"`
	V  ev.B   `json:"v,omitempty"`
	P  int    `json:"p,omitempty"` // put/del/get: when >0 the key is the ((P-1) mod n)-th of the n keys mentioned so far (K if none)
	M  int    `json:"m,omitempty"` // bcommit: bit0 = write-set path instead of CommitTo; M/2%3: 0 keep, 1 Reset, 2 fresh overlay+cache
	// tscan / bscan: a scan SCRIPT on the transaction / block layer. Iterator 0 is opened with
	// prefix K at the start; the steps then interleave other operations on the same CacheDB /
	// OverlayDB with the (lazy) First and the Next calls; everything still open is drained at the end.
	K2    ev.B        `json:"k2,omitempty"` // prefix of the optional second iterator (step "open1")
	Steps []c10ScanSt `json:"steps,omitempty"`
}

type c10ScanSt struct {
	A string `json:"a"`           // adv0 adv1 (First on first use, then Next) | open1 | get | put | del
	K ev.B   `json:"k,omitempty"` // get/put/del: key (tscan: without the storage prefix; bscan: full key)
	V ev.B   `json:"v,omitempty"` // put
}

type c10Case struct {
	// Real: build the layers with the production constructors (4 MiB arenas each, slow);
	// otherwise with the verif export shims that only differ in the advisory initial capacity.
	Real bool    `json:"real,omitempty"`
	Pre  []c10KV `json:"pre,omitempty"` // persisted contents (full keys, non-empty values)
	Ops  []c10Op `json:"ops"`
}

var c10Alphabet = []byte{'a', 'b', 0xff}

func genC10Suffix() *rapid.Generator[[]byte] {
	return rapid.OneOf(
		rapid.SliceOfN(rapid.SampledFrom(c10Alphabet), 0, 2),
		rapid.SliceOfN(rapid.SampledFrom(c10Alphabet), 1, 2),
		rapid.SliceOfN(rapid.SampledFrom(c10Alphabet), 0, 3),
	)
}

func genC10Full() *rapid.Generator[[]byte] {
	return rapid.Custom(func(t *rapid.T) []byte {
		p := rapid.SampledFrom([]byte{stPrefix, stPrefix, stPrefix, stPrefix, stPrefix, stPrefix, stPrefix - 1, stPrefix + 1}).Draw(t, "prefix")
		return append([]byte{p}, genC10Suffix().Draw(t, "suffix")...)
	})
}

func genC10Prefix() *rapid.Generator[[]byte] {
	return rapid.SliceOfN(rapid.SampledFrom(c10Alphabet), 0, 2)
}

func genC10Val() *rapid.Generator[[]byte] {
	return rapid.SliceOfN(rapid.Byte(), 1, 5)
}

var c10Kinds = []string{
	"tput", "tput", "tput", "tput", "tput", "tdel", "tdel", "tdel", "tget", "tget", "titer", "titer", "titer", "titer", "tcommit", "tcommit", "treset",
	"bput", "bput", "bput", "bdel", "bdel", "bget", "biter", "biter", "biter", "bcommit", "breset", "sget", "siter",
	"tscan", "tscan", "tscan", "bscan", "bscan",
}

// scan-script prefixes are mostly non-empty (an empty one cannot be told from a damaged one)
func genC10ScanPrefix() *rapid.Generator[[]byte] {
	return rapid.OneOf(rapid.SliceOfN(rapid.SampledFrom(c10Alphabet), 1, 2), rapid.SliceOfN(rapid.SampledFrom(c10Alphabet), 1, 1), genC10Prefix())
}

func genC10ScanSteps(tx bool) *rapid.Generator[[]c10ScanSt] {
	key := genC10Full()
	if tx {
		key = genC10Suffix()
	}
	return rapid.SliceOfN(rapid.Custom(func(t *rapid.T) c10ScanSt {
		st := c10ScanSt{A: rapid.SampledFrom([]string{"get", "get", "get", "get", "adv0", "adv0", "adv0", "adv1", "adv1", "open1", "open1", "put", "del"}).Draw(t, "a")}
		switch st.A {
		case "get", "del":
			st.K = key.Draw(t, "k")
		case "put":
			st.K = key.Draw(t, "k")
			st.V = genC10Val().Draw(t, "v")
		}
		return st
	}), 1, 10)
}

func genC10Op(t *rapid.T) c10Op {
	op := c10Op{Op: rapid.SampledFrom(c10Kinds).Draw(t, "op")}
	switch op.Op {
	case "tput":
		op.K = genC10Suffix().Draw(t, "k")
		if rapid.IntRange(0, 19).Draw(t, "empty") != 0 {
			op.V = genC10Val().Draw(t, "v")
		}
	case "tdel", "tget":
		op.K = genC10Suffix().Draw(t, "k")
	case "titer":
		op.K = genC10Prefix().Draw(t, "prefix")
	case "bput":
		op.K = genC10Full().Draw(t, "k")
		if rapid.IntRange(0, 19).Draw(t, "empty") != 0 {
			op.V = genC10Val().Draw(t, "v")
		}
	case "bdel", "bget", "sget":
		op.K = genC10Full().Draw(t, "k")
	case "biter", "siter":
		if rapid.IntRange(0, 5).Draw(t, "short") == 0 {
			op.K = []byte{rapid.SampledFrom([]byte{stPrefix - 1, stPrefix, stPrefix + 1, 0xff}).Draw(t, "p")}
		} else {
			op.K = append([]byte{stPrefix}, genC10Prefix().Draw(t, "prefix")...)
		}
	case "bcommit":
		op.M = rapid.IntRange(0, 5).Draw(t, "m")
	case "tscan":
		op.K = genC10ScanPrefix().Draw(t, "prefix")
		op.K2 = genC10ScanPrefix().Draw(t, "prefix2")
		op.Steps = genC10ScanSteps(true).Draw(t, "steps")
	case "bscan":
		op.K = append([]byte{stPrefix}, genC10ScanPrefix().Draw(t, "prefix")...)
		op.K2 = append([]byte{stPrefix}, genC10ScanPrefix().Draw(t, "prefix2")...)
		op.Steps = genC10ScanSteps(false).Draw(t, "steps")
	}
	switch op.Op {
	case "tput", "tdel", "tget", "bput", "bdel", "bget", "sget":
		if rapid.Bool().Draw(t, "pick") {
			op.P = rapid.IntRange(1, 64).Draw(t, "p")
		}
	}
	return op
}

func genC10(t *rapid.T) c10Case {
	kv := rapid.Custom(func(t *rapid.T) c10KV {
		return c10KV{K: genC10Full().Draw(t, "k"), V: genC10Val().Draw(t, "v")}
	})
	return c10Case{
		Real: (rapid.Uint64().Draw(t, "real")*0x9E3779B97F4A7C15)>>56 == 0x5a, // ~1/256 (rapid biases small ints, hence the hash)
		Pre:  rapid.OneOf(rapid.SliceOfN(kv, 0, 20), rapid.SliceOfN(kv, 6, 20)).Draw(t, "pre"),
		Ops:  rapid.OneOf(rapid.SliceOfN(rapid.Custom(genC10Op), 1, ev.Scale(40, 100)), rapid.SliceOfN(rapid.Custom(genC10Op), 12, ev.Scale(40, 100))).Draw(t, "ops"),
	}
}

// ---- model ------------------------------------------------------------------------------------

type c10Model struct {
	store, blk, tx map[string][]byte
}

// blockView resolves a full key through block layer and store.
func (m *c10Model) blockView(k string) []byte {
	if v, ok := m.blk[k]; ok {
		if len(v) == 0 {
			return nil
		}
		return v
	}
	return m.store[k]
}

// txView resolves a full key through all three layers.
func (m *c10Model) txView(k string) []byte {
	if v, ok := m.tx[k]; ok {
		if len(v) == 0 {
			return nil
		}
		return v
	}
	return m.blockView(k)
}

// scan lists the live keys with the given prefix in byte order as seen through view.
func (m *c10Model) scan(prefix []byte, view func(string) []byte, layers ...map[string][]byte) []kvPair {
	seen := map[string]bool{}
	var out []kvPair
	for _, l := range layers {
		for k := range l {
			if seen[k] || !bytes.HasPrefix([]byte(k), prefix) {
				continue
			}
			seen[k] = true
			if v := view(k); len(v) != 0 {
				out = append(out, kvPair{[]byte(k), v})
			}
		}
	}
	sort.Slice(out, func(i, j int) bool { return bytes.Compare(out[i].k, out[j].k) < 0 })
	return out
}

// hardJoin reports whether, under prefix, the upper layer and the view below it present the join
// iterator with a backend-only key, an overwritten key and a deleted key at the same time.
func hardJoin(prefix []byte, upper map[string][]byte, lowerKeys []map[string][]byte, lower func(string) []byte) bool {
	var backOnly, overwritten, deleted bool
	for _, l := range lowerKeys {
		for k := range l {
			if !bytes.HasPrefix([]byte(k), prefix) || len(lower(k)) == 0 {
				continue
			}
			uv, inUpper := upper[k]
			switch {
			case !inUpper:
				backOnly = true
			case len(uv) == 0:
				deleted = true
			default:
				overwritten = true
			}
		}
	}
	return backOnly && overwritten && deleted
}

// ---- execution --------------------------------------------------------------------------------

func collect(it scom.StoreIterator) (out []kvPair, err error) {
	for ok := it.First(); ok; ok = it.Next() {
		out = append(out, kvPair{append([]byte{}, it.Key()...), append([]byte{}, it.Value()...)})
		if len(out) > 100000 {
			return out, fmt.Errorf("iterator does not terminate")
		}
	}
	err = it.Error()
	it.Release()
	return out, err
}

func stripPrefix(p []kvPair) []kvPair {
	out := make([]kvPair, len(p))
	for i, e := range p {
		out[i] = kvPair{e.k[1:], e.v}
	}
	return out
}

func runC10(ctx0 *ev.Ctx, c c10Case) {
	guarded(ctx0, func() { runC10Body(ctx0, c) })
}

func runC10Body(ctx0 *ev.Ctx, c c10Case) {
	ctx := &onceCtx{Ctx: ctx0, seen: map[string]bool{}}
	newStore, newOverlay := leveldbstore.NewMemLevelDBStore, overlaydb.NewOverlayDB
	if !c.Real {
		newStore = func() (*leveldbstore.LevelDBStore, error) { return leveldbstore.VerifNewMemLevelDBStore(smallArena) }
		newOverlay = func(s scom.PersistStore) *overlaydb.OverlayDB { return overlaydb.VerifNewOverlayDB(s, 256, 4) }
	} else {
		ctx.Label("production-constructors")
	}
	store, err := newStore()
	if err != nil {
		panic("harness: " + err.Error())
	}
	defer store.Close()
	m := &c10Model{store: map[string][]byte{}, blk: map[string][]byte{}, tx: map[string][]byte{}}
	for _, kv := range c.Pre {
		if len(kv.K) == 0 || len(kv.V) == 0 {
			continue // outside the domain: storage items are never empty, keys always carry a prefix byte
		}
		if err := store.Put(kv.K, kv.V); err != nil {
			panic("harness: " + err.Error())
		}
		m.store[string(kv.K)] = append([]byte{}, kv.V...)
	}
	overlay := newOverlay(store)
	cache := storage.NewCacheDB(overlay)
	universe := map[string]bool{}
	for k := range m.store {
		universe[k] = true
	}

	checkGet := func(where string, k []byte, got []byte, gerr error, want []byte) {
		if gerr != nil {
			ctx.Failf("%s Get(%x): unexpected error %v", where, k, gerr)
		}
		if len(want) == 0 {
			if got != nil {
				ctx.Failf("%s Get(%x) of an absent/deleted key returned %x (nil=%v), want nil", where, k, got, got == nil)
			}
			return
		}
		if !bytes.Equal(got, want) {
			ctx.Failf("%s Get(%x) = %x, model (newest layer) has %x", where, k, got, want)
		}
	}
	tget := func(where string, suffix []byte) {
		v, e := cache.Get(suffix)
		checkGet(where+" tx-layer", suffix, v, e, m.txView(string(stPrefix)+string(suffix)))
	}
	bget := func(where string, k []byte) {
		v, e := overlay.Get(k)
		checkGet(where+" block-layer", k, v, e, m.blockView(string(k)))
	}
	sget := func(where string, k []byte) {
		v, e := store.Get(k)
		has, herr := store.Has(k)
		want, ok := m.store[string(k)]
		if !ok {
			if e != scom.ErrNotFound || has || herr != nil {
				ctx.Failf("%s store Get(%x) = (%x,%v) Has=(%v,%v), model: not stored", where, k, v, e, has, herr)
			}
			return
		}
		if e != nil || !bytes.Equal(v, want) || !has || herr != nil {
			ctx.Failf("%s store Get(%x) = (%x,%v) Has=(%v,%v), model: %x", where, k, v, e, has, herr, want)
		}
	}
	titer := func(where string, prefix []byte) {
		pk := append([]byte{stPrefix}, prefix...)
		got, e := collect(cache.NewIterator(prefix))
		if e != nil {
			ctx.Failf("%s tx-layer scan(%x): %v", where, prefix, e)
		}
		want := stripPrefix(m.scan(pk, m.txView, m.tx, m.blk, m.store))
		if d := diffPairs(got, want); d != "" {
			ctx.Failf("%s tx-layer scan(prefix %x) differs from the model's visible live keys: %s", where, prefix, d)
		}
		if hardJoin(pk, m.tx, []map[string][]byte{m.blk, m.store}, m.blockView) || hardJoin(pk, m.blk, []map[string][]byte{m.store}, func(k string) []byte { return m.store[k] }) {
			ctx.NonTrivial()
			ctx.Label("hard-join:tx-scan")
		}
	}
	biter := func(where string, prefix []byte) {
		got, e := collect(overlay.NewIterator(prefix))
		if e != nil {
			ctx.Failf("%s block-layer scan(%x): %v", where, prefix, e)
		}
		if d := diffPairs(got, m.scan(prefix, m.blockView, m.blk, m.store)); d != "" {
			ctx.Failf("%s block-layer scan(prefix %x) differs from the model's visible live keys: %s", where, prefix, d)
		}
		if hardJoin(prefix, m.blk, []map[string][]byte{m.store}, func(k string) []byte { return m.store[k] }) {
			ctx.NonTrivial()
			ctx.Label("hard-join:block-scan")
		}
	}
	siter := func(where string, prefix []byte) {
		got, e := collect(store.NewIterator(prefix))
		if e != nil {
			ctx.Failf("%s store scan(%x): %v", where, prefix, e)
		}
		if d := diffPairs(got, m.scan(prefix, func(k string) []byte { return m.store[k] }, m.store)); d != "" {
			ctx.Failf("%s store scan(prefix %x) differs from the model: %s", where, prefix, d)
		}
	}
	sweep := func(where string) {
		keys := make([]string, 0, len(universe))
		for k := range universe {
			keys = append(keys, k)
		}
		sort.Strings(keys)
		for _, k := range keys {
			if k[0] == stPrefix {
				tget(where, []byte(k[1:]))
			}
			bget(where, []byte(k))
			sget(where, []byte(k))
		}
		titer(where, nil)
		for _, p := range []byte{stPrefix - 1, stPrefix, stPrefix + 1} {
			biter(where, []byte{p})
			siter(where, []byte{p})
		}
		siter(where, nil)
	}

	// script runs a scan script on the transaction layer (tx) or the block layer: other operations
	// of the same CacheDB / OverlayDB are interleaved with iterator creation, First and Next.
	// Writes only go to keys outside both scanned prefixes, so the model's visible live keys under
	// each prefix are the same at creation time and at every later point of the script: each
	// iterator must yield exactly that list, whatever happened in between.
	script := func(where string, op c10Op, tx bool) {
		type cur struct {
			it       scom.StoreIterator
			pfx      []byte // full-key prefix
			want     []kvPair
			got      []kvPair
			started  bool
			done     bool
			between  bool // something else ran between creation and First
			betweenN bool // something else ran between two advances
		}
		full := func(k []byte) []byte {
			if tx {
				return append([]byte{stPrefix}, k...)
			}
			return append([]byte{}, k...)
		}
		pfxs := [][]byte{full(op.K), full(op.K2)}
		if !tx && (len(op.K) == 0 || len(op.K2) == 0) {
			return
		}
		expect := func(pfx []byte) []kvPair {
			if tx {
				return stripPrefix(m.scan(pfx, m.txView, m.tx, m.blk, m.store))
			}
			return m.scan(pfx, m.blockView, m.blk, m.store)
		}
		var curs [2]*cur
		open := func(j int) {
			arg := append([]byte{}, pfxs[j]...) // never touched again: OverlayDB documents that the iterator references it
			c := &cur{pfx: pfxs[j], want: expect(pfxs[j])}
			if tx {
				c.it = cache.NewIterator(arg[1:])
				if hardJoin(c.pfx, m.tx, []map[string][]byte{m.blk, m.store}, m.blockView) {
					ctx.NonTrivial()
					ctx.Label("hard-join:tx-scan")
				}
			} else {
				c.it = overlay.NewIterator(arg)
				if hardJoin(c.pfx, m.blk, []map[string][]byte{m.store}, func(k string) []byte { return m.store[k] }) {
					ctx.NonTrivial()
					ctx.Label("hard-join:block-scan")
				}
			}
			for _, o := range curs {
				if o != nil && !o.done {
					if o.started {
						o.betweenN = true
					} else {
						o.between = true
					}
				}
			}
			curs[j] = c
		}
		other := func(except int) { // an operation other than advancing iterator `except` happened
			for j, o := range curs {
				if o != nil && !o.done && j != except {
					if o.started {
						o.betweenN = true
					} else {
						o.between = true
					}
				}
			}
		}
		adv := func(j int) {
			c := curs[j]
			if c == nil || c.done {
				return
			}
			var ok bool
			if !c.started {
				c.started = true
				ok = c.it.First()
			} else {
				ok = c.it.Next()
			}
			other(j)
			if !ok {
				c.done = true
				return
			}
			c.got = append(c.got, kvPair{append([]byte{}, c.it.Key()...), append([]byte{}, c.it.Value()...)})
			if len(c.got) > 100000 {
				ctx.Failf("%s scan script: iterator over prefix %x does not terminate", where, c.pfx)
			}
		}
		outside := func(fk []byte) bool {
			return !bytes.HasPrefix(fk, pfxs[0]) && !bytes.HasPrefix(fk, pfxs[1])
		}
		read := func(k []byte) {
			fk := full(k)
			if len(fk) == 0 {
				return
			}
			universe[string(fk)] = true
			if tx {
				tget(where+" scan script", k)
			} else {
				bget(where+" scan script", k)
				if fk[0] == stPrefix {
					tget(where+" scan script", fk[1:]) // a read through the layer above ends in OverlayDB.Get as well
				}
			}
			other(-1)
		}
		wrote := false
		open(0)
		for _, st := range op.Steps {
			switch st.A {
			case "adv0":
				adv(0)
			case "adv1":
				adv(1)
			case "open1":
				if curs[1] == nil {
					open(1)
					ctx.Label("scan-script:two-iterators")
				}
			case "get":
				read(st.K)
			case "put", "del":
				fk := full(st.K)
				if len(fk) == 0 || !outside(fk) {
					read(st.K) // a write under a scanned prefix would make the expectation ambiguous
					continue
				}
				v := []byte(st.V)
				if st.A == "del" {
					v = nil
				}
				universe[string(fk)] = true
				switch {
				case tx && len(v) == 0:
					cache.Delete(st.K)
				case tx:
					cache.Put(st.K, v)
				case len(v) == 0:
					overlay.Delete(fk)
				default:
					overlay.Put(fk, v)
				}
				if tx {
					m.tx[string(fk)] = append([]byte{}, v...)
				} else {
					m.blk[string(fk)] = append([]byte{}, v...)
				}
				wrote = true
				other(-1)
			default:
				ctx.Failf("harness: unknown scan step %q", st.A)
			}
		}
		layer := "block-layer"
		if tx {
			layer = "tx-layer"
		}
		for j, c := range curs {
			if c == nil {
				continue
			}
			for !c.done {
				adv(j)
			}
			if err := c.it.Error(); err != nil {
				ctx.Failf("%s %s scan script: iterator error %v", where, layer, err)
			}
			c.it.Release()
			if d := diffPairs(expect(c.pfx), c.want); d != "" {
				panic("harness: a scan script changed the keys under its own prefix: " + d)
			}
			got := c.got
			shown := c.pfx
			if tx {
				shown = c.pfx[1:]
			}
			if d := diffPairs(got, c.want); d != "" {
				ctx.Failf("%s %s scan script (iterator %d, prefix %x, other operations between creation and First: %v, between advances: %v, writes outside the prefixes: %v) differs from the model's visible live keys under that prefix: %s",
					where, layer, j, shown, c.between, c.betweenN, wrote, d)
			}
			if c.between {
				ctx.Label("scan-script:ops-before-first")
			}
			if c.betweenN {
				ctx.Label("scan-script:ops-between-next")
			}
		}
		if wrote {
			ctx.Label("scan-script:outside-writes")
		}
	}
	// pick resolves an index into the keys mentioned so far (so that writes hit existing keys)
	pick := func(p int, txOnly bool) []byte {
		var cand []string
		for k := range universe {
			if !txOnly || k[0] == stPrefix {
				cand = append(cand, k)
			}
		}
		if len(cand) == 0 {
			return nil
		}
		sort.Strings(cand)
		return []byte(cand[(p-1)%len(cand)])
	}
	for i, op := range c.Ops {
		where := fmt.Sprintf("op %d (%s):", i, op.Op)
		if op.P > 0 {
			txOnly := op.Op[0] == 't'
			if k := pick(op.P, txOnly); k != nil {
				if txOnly {
					k = k[1:]
				}
				op.K = k
			}
		}
		full := string(op.K)
		switch op.Op {
		case "tput":
			if len(op.V) == 0 {
				ctx.Label("put-empty")
			}
			cache.Put(op.K, op.V)
			m.tx[string(stPrefix)+full] = append([]byte{}, op.V...)
			universe[string(stPrefix)+full] = true
		case "tdel":
			cache.Delete(op.K)
			m.tx[string(stPrefix)+full] = []byte{}
			universe[string(stPrefix)+full] = true
		case "tget":
			universe[string(stPrefix)+full] = true
			tget(where, op.K)
		case "titer":
			titer(where, op.K)
		case "tcommit":
			cache.Commit()
			for k, v := range m.tx {
				m.blk[k] = v
			}
			ctx.Label("tx-commit")
		case "treset":
			cache.Reset()
			m.tx = map[string][]byte{}
			ctx.Label("tx-reset")
		case "bput":
			if len(op.K) == 0 {
				continue
			}
			if len(op.V) == 0 {
				ctx.Label("put-empty")
			}
			overlay.Put(op.K, op.V)
			m.blk[full] = append([]byte{}, op.V...)
			universe[full] = true
		case "bdel":
			if len(op.K) == 0 {
				continue
			}
			overlay.Delete(op.K)
			m.blk[full] = []byte{}
			universe[full] = true
		case "bget":
			if len(op.K) == 0 {
				continue
			}
			universe[full] = true
			bget(where, op.K)
		case "biter":
			if len(op.K) == 0 {
				continue
			}
			biter(where, op.K)
		case "breset":
			overlay.Reset()
			m.blk = map[string][]byte{}
			ctx.Label("block-reset")
		case "bcommit":
			store.NewBatch()
			if op.M&1 == 0 {
				overlay.CommitTo()
				ctx.Label("block-commit:CommitTo")
			} else {
				// the path of saveBlockToStateStore: replay the write set into the batch
				overlay.GetWriteSet().ForEach(func(k, v []byte) {
					if len(v) == 0 {
						store.BatchDelete(k)
					} else {
						store.BatchPut(k, v)
					}
				})
				ctx.Label("block-commit:write-set")
			}
			// nothing is visible in the store before the batch is committed
			for k := range m.blk {
				sget(where+" before BatchCommit", []byte(k))
			}
			if err := store.BatchCommit(); err != nil {
				ctx.Failf("%s BatchCommit: %v", where, err)
			}
			for k, v := range m.blk {
				if len(v) == 0 {
					delete(m.store, k)
				} else {
					m.store[k] = v
				}
			}
			for k := range m.blk {
				sget(where+" after BatchCommit", []byte(k))
			}
			switch op.M / 2 % 3 {
			case 1:
				overlay.Reset()
				m.blk = map[string][]byte{}
			case 2:
				overlay = newOverlay(store)
				cache = storage.NewCacheDB(overlay)
				m.blk = map[string][]byte{}
				m.tx = map[string][]byte{}
			}
			sweep(where)
		case "sget":
			if len(op.K) == 0 {
				continue
			}
			universe[full] = true
			sget(where, op.K)
		case "siter":
			siter(where, op.K)
		case "tscan":
			script(where, op, true)
		case "bscan":
			script(where, op, false)
		default:
			ctx.Failf("harness: unknown op %q", op.Op)
		}
		if overlay.Error() != nil {
			ctx.Failf("%s overlay reports error %v", where, overlay.Error())
		}
	}
	sweep("final sweep:")
}

func TestC10(t *testing.T) {
	ev.Drive(t, "C10",
		"cases: an in-memory LevelDB store pre-filled with 0..20 non-empty items, one OverlayDB (block layer) and one CacheDB (transaction layer, adds the ST_STORAGE prefix byte); histories of 1..40 (thorough 100) operations put/delete/get/prefix-scan/commit/reset at both layers plus block commits to the store through OverlayDB.CommitTo or through the write set, keys over a 3-letter alphabet (incl. 0xff) of length 0..3 under prefix bytes 0x04/0x05/0x06; scan scripts interleave reads, a second iterator with another prefix and writes outside the scanned prefixes between iterator creation, First and the Next calls; every block commit and the end of the history is followed by a full comparison of all three views. "+
			"non-trivial: a prefix scan is executed while, under that prefix, the scanned join sees a backend-only key, an overwritten key and a deleted key simultaneously; distinct by JSON encoding of the case",
		genC10, runC10)
}
