package pstore

import (
	"bytes"
	"crypto/sha256"
	"fmt"
	"os"
	"path/filepath"
	"sort"
	"testing"

	"github.com/polynetwork/poly/common"
	scom "github.com/polynetwork/poly/core/store/common"
	"github.com/polynetwork/poly/core/store/ledgerstore"
	"github.com/polynetwork/poly/core/store/leveldbstore"
	"github.com/polynetwork/poly/core/store/overlaydb"
	"github.com/polynetwork/poly/native/storage"
	"pgregory.net/rapid"

	"verif/harness/ev"
)

// ---------------------------------------------------------------------------------------------
// C11 Block state-change digest depends only on the net write set
//
// A case is a short chain of blocks. Every block has a generated NET EFFECT (set of touched keys
// with a final value or a tombstone) and two generated REALISATIONS of it: arbitrary noise
// (writes and deletes at the transaction and block layers, commits, resets of failed attempts,
// reads, scans) followed by the missing final writes in a generated order. Both realisations are
// executed on their own state store (exactly the calls of executeBlock/saveBlockToStateStore).
//
// Oracle: digest == sha256(concat of key||final value over the byte-sorted net effect) for both
// realisations and for a re-execution; write set == the sorted net effect; the state root stored
// for height h == RFC 6962 tree hash over the digests of the blocks so far (own implementation).

type c11Net struct {
	K ev.B `json:"k"`           // full key (prefix byte + suffix)
	V ev.B `json:"v,omitempty"` // final value; empty = the key ends deleted (tombstone in the write set)
}

type c11Step struct {
	Op string `json:"op"`           // w commit reset get scan
	I  int    `json:"i,omitempty"`  // w/get: key index into net keys ++ outside keys (modulo)
	V  ev.B   `json:"v,omitempty"`  // w: value, empty = delete
	Tx bool   `json:"tx,omitempty"` // w/get: through the transaction layer; commit: followed by Reset
}

type c11Real struct {
	Noise []c11Step `json:"noise,omitempty"`
	Order []int     `json:"order,omitempty"` // sort keys of the fix-up writes (cyclic)
	Via   []int     `json:"via,omitempty"`   // per fix-up write (cyclic): 0 block layer, 1 tx + commit at end, 2 tx + commit now
}

type c11Block struct {
	Net []c11Net `json:"net,omitempty"`
	A   c11Real  `json:"a"`
	B   c11Real  `json:"b"`
}

type c11Case struct {
	Mode   string     `json:"mode"`           // shim | mem | file
	Base   uint32     `json:"base,omitempty"` // height of the first block (file mode: 0)
	H0     uint32     `json:"h0,omitempty"`   // state-hash start height of the store (shim/mem modes)
	Reopen int        `json:"reopen,omitempty"`
	PreA   []c10KV    `json:"prea,omitempty"`  // persisted contents under chain A
	PreB   []c10KV    `json:"preb,omitempty"`  // persisted contents under chain B
	SameA  []int      `json:"samea,omitempty"` // chain A additionally pre-stores these net entries of block 0 (index modulo) with their final value
	SameB  []int      `json:"sameb,omitempty"` // the same for chain B
	Blocks []c11Block `json:"blocks"`
}

// keys outside every net effect (no 'z' in the generated alphabet): only failed transactions touch them
var c11Outside = [][]byte{{stPrefix, 'z'}, {stPrefix, 'z', 'a'}, {stPrefix, 'a', 'z'}, {stPrefix}}

func genC11Step(t *rapid.T) c11Step {
	s := c11Step{Op: rapid.SampledFrom([]string{"w", "w", "w", "w", "w", "w", "commit", "commit", "reset", "get", "scan"}).Draw(t, "op")}
	switch s.Op {
	case "w":
		s.I = rapid.IntRange(0, 40).Draw(t, "i")
		if rapid.IntRange(0, 3).Draw(t, "del") != 0 {
			s.V = genC10Val().Draw(t, "v")
		}
		s.Tx = rapid.IntRange(0, 2).Draw(t, "tx") != 0
	case "get":
		s.I = rapid.IntRange(0, 40).Draw(t, "i")
		s.Tx = rapid.Bool().Draw(t, "tx")
	case "commit":
		s.Tx = rapid.IntRange(0, 3).Draw(t, "reset") != 0
	}
	return s
}

func genC11Real(t *rapid.T) c11Real {
	return c11Real{
		Noise: rapid.SliceOfN(rapid.Custom(genC11Step), 0, ev.Scale(16, 40)).Draw(t, "noise"),
		Order: rapid.SliceOfN(rapid.IntRange(0, 1000), 1, 8).Draw(t, "order"),
		Via:   rapid.SliceOfN(rapid.IntRange(0, 2), 1, 6).Draw(t, "via"),
	}
}

func genC11Block(t *rapid.T) c11Block {
	net := rapid.Custom(func(t *rapid.T) c11Net {
		n := c11Net{K: genC10Full().Draw(t, "k")}
		if rapid.IntRange(0, 3).Draw(t, "tomb") != 0 {
			n.V = genC10Val().Draw(t, "v")
		}
		return n
	})
	return c11Block{
		Net: rapid.SliceOfN(net, 0, 8).Draw(t, "net"),
		A:   genC11Real(t),
		B:   genC11Real(t),
	}
}

func genC11(t *rapid.T) c11Case {
	kv := rapid.Custom(func(t *rapid.T) c10KV {
		return c10KV{K: genC10Full().Draw(t, "k"), V: genC10Val().Draw(t, "v")}
	})
	c := c11Case{Mode: "shim"}
	switch (rapid.Uint64().Draw(t, "mode") * 0x9E3779B97F4A7C15) >> 56 { // 0..255, hashed because rapid prefers small ints
	case 0x2a:
		c.Mode = "mem" // production constructors (4 MiB arenas)
	case 0x55:
		c.Mode = "file" // real NewStateStore on a temp dir, with reopening
	}
	if c.Mode == "file" {
		c.Reopen = rapid.IntRange(0, 7).Draw(t, "reopen")
	} else {
		c.Base = uint32(rapid.IntRange(0, 3).Draw(t, "base"))
		c.H0 = uint32(rapid.IntRange(0, 4).Draw(t, "h0"))
	}
	c.PreA = rapid.SliceOfN(kv, 0, 8).Draw(t, "prea")
	c.PreB = rapid.SliceOfN(kv, 0, 8).Draw(t, "preb")
	c.SameA = rapid.SliceOfN(rapid.IntRange(0, 7), 0, 4).Draw(t, "samea")
	c.SameB = rapid.SliceOfN(rapid.IntRange(0, 7), 0, 4).Draw(t, "sameb")
	c.Blocks = rapid.SliceOfN(rapid.Custom(genC11Block), 1, ev.Scale(3, 6)).Draw(t, "blocks")
	return c
}

// ---- references -------------------------------------------------------------------------------

// refDigest: sha256 over key||value of the byte-sorted net effect (tombstones contribute the key only).
func refDigest(net []kvPair) common.Uint256 {
	h := sha256.New()
	for _, e := range net {
		h.Write(e.k)
		h.Write(e.v)
	}
	var out common.Uint256
	copy(out[:], h.Sum(nil))
	return out
}

// refMTH: RFC 6962 Merkle tree hash over the leaf inputs d.
func refMTH(d [][]byte) [32]byte {
	switch len(d) {
	case 0:
		return sha256.Sum256(nil)
	case 1:
		return sha256.Sum256(append([]byte{0}, d[0]...))
	}
	k := 1
	for k*2 < len(d) {
		k *= 2
	}
	l, r := refMTH(d[:k]), refMTH(d[k:])
	return sha256.Sum256(append(append([]byte{1}, l[:]...), r[:]...))
}

// normNet dedupes the generated net effect (last entry per key wins) and sorts it.
func normNet(in []c11Net) []kvPair {
	m := map[string][]byte{}
	for _, n := range in {
		if len(n.K) == 0 {
			continue
		}
		m[string(n.K)] = append([]byte{}, n.V...)
	}
	return sortedModel(m)
}

// ---- one chain --------------------------------------------------------------------------------

type c11Chain struct {
	name    string
	mode    string
	dir     string
	ss      *ledgerstore.StateStore
	persist scom.PersistStore
}

func (ch *c11Chain) newOverlay() *overlaydb.OverlayDB {
	if ch.mode != "mem" {
		return overlaydb.VerifNewOverlayDB(ch.persist, 256, 4)
	}
	return ch.ss.NewOverlayDB() // what executeBlock does
}

func c11TempBase() string {
	if st, err := os.Stat("/dev/shm"); err == nil && st.IsDir() {
		return "/dev/shm"
	}
	return ""
}

func openChain(ctx *onceCtx, name string, c c11Case) *c11Chain {
	ch := &c11Chain{name: name, mode: c.Mode}
	switch c.Mode {
	case "shim":
		st, err := leveldbstore.VerifNewMemLevelDBStore(smallArena)
		if err != nil {
			panic("harness: " + err.Error())
		}
		ch.ss = ledgerstore.VerifNewMemStateStoreOver(st, c.H0)
		ch.persist = st
	case "mem":
		ch.ss = ledgerstore.NewMemStateStore(c.H0)
		ch.persist = ch.ss.VerifPersistStore()
	case "file":
		dir, err := os.MkdirTemp(c11TempBase(), "pstore-c11-")
		if err != nil {
			panic("harness: " + err.Error())
		}
		ch.dir = dir
		ch.reopen(ctx, false)
	default:
		panic("harness: unknown mode " + c.Mode)
	}
	return ch
}

func (ch *c11Chain) reopen(ctx *onceCtx, closeFirst bool) {
	if closeFirst {
		if err := ch.ss.Close(); err != nil {
			ctx.Failf("chain %s: closing the state store: %v", ch.name, err)
		}
	}
	ss, err := ledgerstore.NewStateStore(filepath.Join(ch.dir, "states"), filepath.Join(ch.dir, "merkle_tree.db"))
	if err != nil {
		ctx.Failf("chain %s: NewStateStore on the data it wrote itself: %v", ch.name, err)
	}
	ch.ss = ss
	ch.persist = ss.VerifPersistStore()
}

func (ch *c11Chain) close() {
	if ch.mode == "file" {
		ch.ss.Close()
		os.RemoveAll(ch.dir)
		return
	}
	ch.persist.Close()
}

type c11Trace struct {
	writes []string // keys in the order they reached the transaction or block layer
	multi  bool     // some key was written at least twice
}

// realise executes one realisation of net on a fresh overlay+cache pair and returns the overlay.
// persisted are the keys currently stored under the chain (read-only noise also targets them).
func realise(ctx *onceCtx, ch *c11Chain, net []kvPair, r c11Real, persisted map[string][]byte) (*overlaydb.OverlayDB, *c11Trace) {
	overlay := ch.newOverlay()
	cache := storage.NewCacheDB(overlay)
	netIdx := map[string]int{}
	pool := make([][]byte, 0, len(net)+len(c11Outside))
	for i, e := range net {
		netIdx[string(e.k)] = i
		pool = append(pool, e.k)
	}
	for _, k := range c11Outside {
		if _, in := netIdx[string(k)]; !in {
			pool = append(pool, k)
		}
	}
	readPool := append([][]byte{}, pool...)
	for _, e := range sortedModel(persisted) {
		if _, in := netIdx[string(e.k)]; !in {
			readPool = append(readPool, e.k)
		}
	}
	blk, tx := map[string][]byte{}, map[string][]byte{}
	tr := &c11Trace{}
	count := map[string]int{}
	note := func(k []byte) {
		tr.writes = append(tr.writes, string(k))
		count[string(k)]++
		if count[string(k)] >= 2 {
			tr.multi = true
		}
	}
	write := func(k, v []byte, viaTx bool) {
		_, inNet := netIdx[string(k)]
		switch {
		case viaTx && k[0] == stPrefix:
			if len(v) == 0 {
				cache.Delete(k[1:])
			} else {
				cache.Put(k[1:], v)
			}
			tx[string(k)] = v
			note(k)
		case inNet:
			if len(v) == 0 {
				overlay.Delete(k)
			} else {
				overlay.Put(k, v)
			}
			blk[string(k)] = v
			note(k)
		}
		// a direct block-layer write outside the net effect would change it: not executed
	}
	commit := func(thenReset bool) {
		for k := range tx {
			if _, inNet := netIdx[k]; !inNet {
				// the transaction touched a key outside the block's net effect: it is a failed one
				cache.Reset()
				tx = map[string][]byte{}
				ctx.Label("failed-tx-discarded")
				return
			}
		}
		cache.Commit()
		for k, v := range tx {
			blk[k] = v
		}
		if thenReset {
			cache.Reset()
			tx = map[string][]byte{}
		}
	}
	for _, s := range r.Noise {
		switch s.Op {
		case "w":
			write(pool[s.I%len(pool)], s.V, s.Tx)
		case "commit":
			commit(s.Tx)
		case "reset":
			cache.Reset()
			tx = map[string][]byte{}
		case "get":
			k := readPool[s.I%len(readPool)]
			if s.Tx && k[0] == stPrefix {
				cache.Get(k[1:])
			} else {
				overlay.Get(k)
			}
		case "scan":
			if _, err := collect(cache.NewIterator(nil)); err != nil {
				ctx.Failf("chain %s: scan during a block: %v", ch.name, err)
			}
		default:
			ctx.Failf("harness: unknown step %q", s.Op)
		}
	}
	// whatever is still pending in the transaction layer belongs to an attempt that never committed
	cache.Reset()
	tx = map[string][]byte{}
	// fix-up: write the final value of every key that does not have it yet, in the generated order
	type fix struct {
		k, v []byte
		ord  int
		pos  int
	}
	var fixes []fix
	for i, e := range net {
		if cur, ok := blk[string(e.k)]; ok && bytes.Equal(cur, e.v) {
			continue
		}
		fixes = append(fixes, fix{e.k, e.v, r.Order[i%len(r.Order)], i})
	}
	sort.SliceStable(fixes, func(i, j int) bool { return fixes[i].ord < fixes[j].ord })
	for i, f := range fixes {
		via := r.Via[i%len(r.Via)]
		write(f.k, f.v, via != 0)
		if via == 2 {
			commit(true)
		}
	}
	commit(true)
	// harness self-check: the model of the block layer is exactly the net effect
	if len(blk) != len(net) {
		panic(fmt.Sprintf("harness: realisation touched %d keys, net effect has %d", len(blk), len(net)))
	}
	for _, e := range net {
		if cur, ok := blk[string(e.k)]; !ok || !bytes.Equal(cur, e.v) {
			panic(fmt.Sprintf("harness: realisation leaves %x=%x, net effect wants %x", e.k, cur, e.v))
		}
	}
	return overlay, tr
}

func writeSetOf(overlay *overlaydb.OverlayDB) []kvPair {
	var got []kvPair
	overlay.GetWriteSet().ForEach(func(k, v []byte) {
		got = append(got, kvPair{append([]byte{}, k...), append([]byte{}, v...)})
	})
	return got
}

func runC11(ctx0 *ev.Ctx, c c11Case) {
	guarded(ctx0, func() { runC11Body(ctx0, c) })
}

func runC11Body(ctx0 *ev.Ctx, c c11Case) {
	ctx := &onceCtx{Ctx: ctx0, seen: map[string]bool{}}
	ctx.Label("mode:" + c.Mode)
	if c.Mode == "file" {
		c.Base, c.H0 = 0, 0
	}
	chains := []*c11Chain{openChain(ctx, "A", c), openChain(ctx, "B", c)}
	defer func() {
		for _, ch := range chains {
			ch.close()
		}
	}()
	pres := [][]c10KV{c.PreA, c.PreB}
	sames := [][]int{c.SameA, c.SameB}
	stored := []map[string][]byte{{}, {}} // model of each chain's persisted contract state
	for ci, ch := range chains {
		ch.ss.NewBatch()
		pre := append([]c10KV{}, pres[ci]...)
		if net0 := normNet(c.Blocks[0].Net); len(net0) > 0 {
			for _, i := range sames[ci] {
				pre = append(pre, c10KV{K: net0[i%len(net0)].k, V: net0[i%len(net0)].v})
			}
		}
		for _, kv := range pre {
			if len(kv.K) == 0 || len(kv.V) == 0 {
				continue
			}
			ch.ss.BatchPutRawKeyVal(kv.K, kv.V)
			stored[ci][string(kv.K)] = append([]byte{}, kv.V...)
		}
		if err := ch.ss.CommitTo(); err != nil {
			panic("harness: " + err.Error())
		}
	}
	var leaves [][]byte // digests of the blocks at heights >= H0
	for bi, b := range c.Blocks {
		height := c.Base + uint32(bi)
		net := normNet(b.Net)
		want := refDigest(net)
		reals := []c11Real{b.A, b.B}
		var traces []*c11Trace
		var roots []common.Uint256
		for ci, ch := range chains {
			where := fmt.Sprintf("block %d (height %d) chain %s:", bi, height, ch.name)
			overlay, tr := realise(ctx, ch, net, reals[ci], stored[ci])
			traces = append(traces, tr)
			got := overlay.ChangeHash()
			if got != want {
				ctx.Failf("%s ChangeHash = %x, reference sha256 over the sorted net effect %s = %x; write set %s",
					where, got[:], fmtPairs(net), want[:], fmtPairs(writeSetOf(overlay)))
			}
			if d := diffPairs(writeSetOf(overlay), net); d != "" {
				ctx.Failf("%s write set differs from the net effect: %s", where, d)
			}
			if again := overlay.ChangeHash(); again != got {
				ctx.Failf("%s ChangeHash is not stable: %x then %x", where, got[:], again[:])
			}
			if ci == 0 {
				// the same sequence on another fresh overlay
				o2, _ := realise(ctx, ch, net, reals[ci], stored[ci])
				if h2 := o2.ChangeHash(); h2 != got {
					ctx.Failf("%s re-executing the same write sequence gives digest %x, first run %x", where, h2[:], got[:])
				}
			}
			// persist the block like saveBlockToStateStore
			predicted := ch.ss.GetStateMerkleRootWithNewHash(got)
			ch.ss.NewBatch()
			if err := ch.ss.AddStateMerkleTreeRoot(height, got); err != nil {
				ctx.Failf("%s AddStateMerkleTreeRoot: %v", where, err)
			}
			if c.Mode == "file" {
				if err := ch.ss.SaveCurrentBlock(height, got); err != nil {
					ctx.Failf("%s SaveCurrentBlock: %v", where, err)
				}
			}
			overlay.GetWriteSet().ForEach(func(k, v []byte) {
				if len(v) == 0 {
					ch.ss.BatchDeleteRawKey(k)
				} else {
					ch.ss.BatchPutRawKeyVal(k, v)
				}
			})
			if err := ch.ss.CommitTo(); err != nil {
				ctx.Failf("%s CommitTo: %v", where, err)
			}
			for _, e := range net {
				if len(e.v) == 0 {
					delete(stored[ci], string(e.k))
				} else {
					stored[ci][string(e.k)] = e.v
				}
			}
			if c.Mode == "file" && (c.Reopen>>uint(bi%3))&1 == 1 {
				ch.reopen(ctx, true)
				ctx.Label("file:reopened")
			}
			// stored state root
			root, err := ch.ss.GetStateMerkleRoot(height)
			if height < c.H0 {
				if err != nil || root != common.UINT256_EMPTY {
					ctx.Failf("%s below the state-hash start height %d GetStateMerkleRoot = (%x, %v), want (zero, nil)", where, c.H0, root[:], err)
				}
				ctx.Label("below-h0")
			} else {
				if ci == 0 {
					leaves = append(leaves, append([]byte{}, want[:]...))
				}
				ref := common.Uint256(refMTH(leaves))
				if err != nil || root != ref {
					ctx.Failf("%s stored state root = (%x, %v), reference tree hash over the %d digests so far = %x", where, root[:], err, len(leaves), ref[:])
				}
				if predicted != ref {
					ctx.Failf("%s GetStateMerkleRootWithNewHash predicted %x, reference %x", where, predicted[:], ref[:])
				}
				size, _, terr := ch.ss.GetStateMerkleTree()
				if terr != nil || int(size) != len(leaves) {
					ctx.Failf("%s persisted state tree size = (%d, %v), want %d", where, size, terr, len(leaves))
				}
			}
			roots = append(roots, root)
			// the persisted contract state is the prefill with the net effects applied
			for _, e := range net {
				v, gerr := ch.persist.Get(e.k)
				wv, ok := stored[ci][string(e.k)]
				if ok && (gerr != nil || !bytes.Equal(v, wv)) || !ok && gerr != scom.ErrNotFound {
					ctx.Failf("%s after commit store.Get(%x) = (%x, %v), model (%x, present=%v)", where, e.k, v, gerr, wv, ok)
				}
			}
		}
		if roots[0] != roots[1] {
			ctx.Failf("block %d: the two realisations of the same net effects lead to state roots %x and %x", bi, roots[0][:], roots[1][:])
		}
		differ := len(traces[0].writes) != len(traces[1].writes)
		for i := 0; !differ && i < len(traces[0].writes); i++ {
			differ = traces[0].writes[i] != traces[1].writes[i]
		}
		if differ && (traces[0].multi || traces[1].multi) {
			ctx.NonTrivial()
			ctx.Label("order-differs+rewrite")
		}
		if len(net) == 0 {
			ctx.Label("empty-net-block")
		}
	}
	if len(c.Blocks) >= 2 {
		ctx.Label("multi-block")
	}
}

func TestC11(t *testing.T) {
	ev.Drive(t, "C11",
		"cases: chains of 1..3 (thorough 6) blocks; per block a generated net effect (0..8 touched keys with final value or tombstone) and two independently generated realisations (0..16 noise steps: writes/deletes through CacheDB or OverlayDB, commits, resets, failed transactions touching foreign keys, reads, scans; then the missing final writes in a generated order and layer), each executed on its own state store with different persisted contents, persisted like saveBlockToStateStore; modes: small-arena shims, production in-memory constructors, real NewStateStore on a temp dir with reopening. "+
			"non-trivial: in some block the two realisations write keys in a different order and at least one key is written twice or more; distinct by JSON encoding of the case",
		genC11, runC11)
}
