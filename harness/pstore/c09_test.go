package pstore

import (
	"bytes"
	"fmt"
	"sort"
	"testing"

	"github.com/polynetwork/poly/core/store/overlaydb"
	"github.com/syndtr/goleveldb/leveldb/util"
	"pgregory.net/rapid"

	"verif/harness/ev"
)

func TestMain(m *testing.M) { ev.Main(m) }

// ---------------------------------------------------------------------------------------------
// C09 In-memory write buffer (overlaydb.MemDB) behaves as an ordered map with tombstones
//
// Oracle: a Go map key -> value (an empty value is a tombstone) that is sorted on demand with
// bytes.Compare; iterator walks are checked against a cursor over the sorted in-range entries
// (positions: before-first, an index, after-last).

type c09Step struct {
	A string `json:"a"`           // first last next prev seek
	K ev.B   `json:"k,omitempty"` // seek target
}

type c09Op struct {
	Op    string    `json:"op"`             // put del get find foreach reset scan bulk
	K     ev.B      `json:"k,omitempty"`    // key
	V     ev.B      `json:"v,omitempty"`    // value of put (may be empty = tombstone)
	NilV  bool      `json:"nilv,omitempty"` // put(k, nil)
	Rng   bool      `json:"rng,omitempty"`  // scan: a non-nil *util.Range is passed
	HasS  bool      `json:"hass,omitempty"` // scan: Range.Start != nil
	HasL  bool      `json:"hasl,omitempty"` // scan: Range.Limit != nil
	S     ev.B      `json:"s,omitempty"`
	L     ev.B      `json:"l,omitempty"`
	Steps []c09Step `json:"steps,omitempty"`
	N     int       `json:"n,omitempty"`    // bulk: number of keys
	Seed  int       `json:"seed,omitempty"` // bulk: key derivation
}

type c09Case struct {
	Pre []c09Op `json:"pre,omitempty"` // initial puts/deletes (same semantics as Ops, run first)
	Ops []c09Op `json:"ops"`
}

var c09Alphabet = []byte{'a', 'b', 'c'}

func genC09Key() *rapid.Generator[[]byte] {
	return rapid.OneOf(
		rapid.SliceOfN(rapid.SampledFrom(c09Alphabet), 0, 2),
		rapid.SliceOfN(rapid.SampledFrom(c09Alphabet), 0, 4),
		rapid.SliceOfN(rapid.SampledFrom([]byte{0x00, 'a', 'b', 'c', 0xff}), 0, ev.Scale(4, 6)),
	)
}

func genC09Val() *rapid.Generator[[]byte] {
	return rapid.OneOf(
		rapid.SliceOfN(rapid.Byte(), 1, 6),
		rapid.SliceOfN(rapid.Byte(), 0, 3),
		rapid.SliceOfN(rapid.Byte(), 0, 40),
	)
}

func genC09Steps(t *rapid.T) []c09Step {
	shape := rapid.IntRange(0, 4).Draw(t, "shape")
	var steps []c09Step
	n := rapid.IntRange(0, 12).Draw(t, "walk")
	switch shape {
	case 0: // full forward
		steps = append(steps, c09Step{A: "first"})
		for i := 0; i < n+4; i++ {
			steps = append(steps, c09Step{A: "next"})
		}
	case 1: // full backward
		steps = append(steps, c09Step{A: "last"})
		for i := 0; i < n+4; i++ {
			steps = append(steps, c09Step{A: "prev"})
		}
	case 2: // seek + forward
		steps = append(steps, c09Step{A: "seek", K: genC09Key().Draw(t, "seek")})
		for i := 0; i < n; i++ {
			steps = append(steps, c09Step{A: "next"})
		}
	default: // mixed
		g := rapid.Custom(func(t *rapid.T) c09Step {
			a := rapid.SampledFrom([]string{"next", "next", "next", "prev", "prev", "first", "last", "seek"}).Draw(t, "a")
			s := c09Step{A: a}
			if a == "seek" {
				s.K = genC09Key().Draw(t, "k")
			}
			return s
		})
		steps = rapid.SliceOfN(g, 1, 16).Draw(t, "steps")
	}
	return steps
}

func genC09Op(t *rapid.T) c09Op {
	kind := rapid.SampledFrom([]string{"put", "put", "put", "put", "del", "del", "get", "get", "find", "foreach", "scan", "scan", "scan", "reset", "bulk"}).Draw(t, "op")
	op := c09Op{Op: kind}
	switch kind {
	case "put":
		op.K = genC09Key().Draw(t, "k")
		if rapid.IntRange(0, 9).Draw(t, "nil") == 0 {
			op.NilV = true
		} else {
			op.V = genC09Val().Draw(t, "v")
		}
	case "del", "get", "find":
		op.K = genC09Key().Draw(t, "k")
	case "scan":
		op.Rng = rapid.IntRange(0, 5).Draw(t, "rng") != 0
		if op.Rng {
			op.HasS = rapid.Bool().Draw(t, "hass")
			op.HasL = rapid.Bool().Draw(t, "hasl")
			if op.HasS {
				op.S = genC09Bound().Draw(t, "s")
			}
			if op.HasL {
				op.L = genC09Bound().Draw(t, "l")
			}
		}
		op.Steps = genC09Steps(t)
	case "reset":
		// keep resets rare so that state accumulates
		if rapid.IntRange(0, 2).Draw(t, "really") != 0 {
			op.Op = "get"
			op.K = genC09Key().Draw(t, "k")
		}
	case "bulk":
		op.N = rapid.IntRange(1, ev.Scale(120, 1500)).Draw(t, "n")
		op.Seed = rapid.IntRange(0, 1<<16).Draw(t, "seed")
	}
	return op
}

func genC09Bound() *rapid.Generator[[]byte] {
	return rapid.OneOf(rapid.SliceOfN(rapid.SampledFrom(c09Alphabet), 0, 2), genC09Key())
}

func genC09Pre(t *rapid.T) c09Op {
	op := c09Op{Op: "put", K: genC09Key().Draw(t, "k")}
	switch rapid.IntRange(0, 5).Draw(t, "kind") {
	case 0:
		op.Op = "del"
	case 1:
		op.NilV = true
	default:
		op.V = genC09Val().Draw(t, "v")
	}
	return op
}

func genC09(t *rapid.T) c09Case {
	return c09Case{
		Pre: rapid.SliceOfN(rapid.Custom(genC09Pre), 0, 12).Draw(t, "pre"),
		Ops: rapid.SliceOfN(rapid.Custom(genC09Op), 1, ev.Scale(40, 120)).Draw(t, "ops"),
	}
}

// bulkKey derives the i-th key of a bulk insert: 'b' followed by two pseudo-random bytes (so the
// keys interleave with the small alphabet and collide among themselves).
func bulkKey(seed, i int) []byte {
	x := uint32(seed)*2654435761 + uint32(i)*40503
	x ^= x >> 13
	return []byte{'b', byte(x >> 8), byte(x)}
}

type kvPair struct{ k, v []byte }

// sortedModel returns the model's entries (tombstones included) in byte order.
func sortedModel(m map[string][]byte) []kvPair {
	out := make([]kvPair, 0, len(m))
	for k, v := range m {
		out = append(out, kvPair{[]byte(k), v})
	}
	sort.Slice(out, func(i, j int) bool { return bytes.Compare(out[i].k, out[j].k) < 0 })
	return out
}

func runC09(ctx0 *ev.Ctx, c c09Case) {
	guarded(ctx0, func() { runC09Body(ctx0, c) })
}

func runC09Body(ctx0 *ev.Ctx, c c09Case) {
	ctx := &onceCtx{Ctx: ctx0, seen: map[string]bool{}}
	db := overlaydb.NewMemDB(64, 4) // small capacities: force buffer growth
	model := map[string][]byte{}
	wasTomb := map[string]bool{} // keys that are currently tombstones (for the non-trivial rule)
	modelSize := 0               // sum of key+value lengths of the model's entries, maintained incrementally
	set := func(k, v []byte) {
		if old, ok := model[string(k)]; ok {
			modelSize -= len(k) + len(old)
		}
		model[string(k)] = append([]byte{}, v...)
		modelSize += len(k) + len(v)
	}
	sumSize := func() int { return modelSize }
	put := func(i int, k, v []byte) {
		if p := ev.Catch(func() { db.Put(k, v) }); p != "" {
			ctx.Failf("op %d: Put(%x,%x) panicked: %s", i, k, v, p)
		}
		if len(v) > 0 && wasTomb[string(k)] {
			ctx.NonTrivial()
			ctx.Label("overwrite-after-delete")
		}
		wasTomb[string(k)] = len(v) == 0
		set(k, v)
	}
	for i, op := range append(append([]c09Op{}, c.Pre...), c.Ops...) {
		switch op.Op {
		case "put":
			var v []byte
			if !op.NilV {
				v = []byte(op.V)
			}
			if len(v) == 0 {
				ctx.Label("put-empty")
			}
			put(i, op.K, v)
		case "bulk":
			for j := 0; j < op.N; j++ {
				k := bulkKey(op.Seed, j)
				put(i, k, []byte{byte(j), byte(j >> 8), 1})
			}
		case "del":
			if p := ev.Catch(func() { db.Delete(op.K) }); p != "" {
				ctx.Failf("op %d: Delete(%x) panicked: %s", i, []byte(op.K), p)
			}
			wasTomb[string(op.K)] = true
			set(op.K, nil)
		case "get":
			var v []byte
			var unknown bool
			if p := ev.Catch(func() { v, unknown = db.Get(op.K) }); p != "" {
				ctx.Failf("op %d: Get(%x) panicked: %s", i, []byte(op.K), p)
			}
			mv, ok := model[string(op.K)]
			switch {
			case !ok:
				if !unknown || v != nil {
					ctx.Failf("op %d: Get(%x) of a never-written key returned (%x, unknown=%v), want (nil, true)", i, []byte(op.K), v, unknown)
				}
			case len(mv) == 0:
				if unknown || v != nil {
					ctx.Failf("op %d: Get(%x) of a deleted key returned (%x nil=%v, unknown=%v), want (nil, false)", i, []byte(op.K), v, v == nil, unknown)
				}
			default:
				if unknown || !bytes.Equal(v, mv) {
					ctx.Failf("op %d: Get(%x) returned (%x, unknown=%v), want (%x, false)", i, []byte(op.K), v, unknown, mv)
				}
			}
		case "find":
			var rk, rv []byte
			var err error
			if p := ev.Catch(func() { rk, rv, err = db.Find(op.K) }); p != "" {
				ctx.Failf("op %d: Find(%x) panicked: %s", i, []byte(op.K), p)
			}
			es := sortedModel(model)
			j := sort.Search(len(es), func(j int) bool { return bytes.Compare(es[j].k, op.K) >= 0 })
			if j == len(es) {
				if err != overlaydb.ErrNotFound {
					ctx.Failf("op %d: Find(%x) with no key >= it returned (%x,%x,%v), want ErrNotFound", i, []byte(op.K), rk, rv, err)
				}
			} else if err != nil || !bytes.Equal(rk, es[j].k) || !bytes.Equal(rv, es[j].v) {
				ctx.Failf("op %d: Find(%x) returned (%x,%x,%v), want (%x,%x)", i, []byte(op.K), rk, rv, err, es[j].k, es[j].v)
			}
		case "foreach":
			var got []kvPair
			if p := ev.Catch(func() {
				db.ForEach(func(k, v []byte) {
					got = append(got, kvPair{append([]byte{}, k...), append([]byte{}, v...)})
				})
			}); p != "" {
				ctx.Failf("op %d: ForEach panicked: %s", i, p)
			}
			if d := diffPairs(got, sortedModel(model)); d != "" {
				ctx.Failf("op %d: ForEach differs from the sorted model: %s", i, d)
			}
		case "reset":
			db.Reset()
			model = map[string][]byte{}
			modelSize = 0
			wasTomb = map[string]bool{}
			ctx.Label("reset")
		case "scan":
			runC09Scan(ctx, i, db, model, op)
		default:
			ctx.Failf("harness: unknown op %q", op.Op)
		}
		if db.Len() != len(model) {
			ctx.Failf("after op %d (%s): Len() = %d, model has %d entries (tombstones included)", i, op.Op, db.Len(), len(model))
		}
		if db.Size() != sumSize() {
			ctx.Failf("after op %d (%s): Size() = %d, model sum of key+value lengths = %d", i, op.Op, db.Size(), sumSize())
		}
	}
	// closing sweep: every key ever mentioned reads as in the model, full order is right
	var got []kvPair
	db.ForEach(func(k, v []byte) { got = append(got, kvPair{append([]byte{}, k...), append([]byte{}, v...)}) })
	if d := diffPairs(got, sortedModel(model)); d != "" {
		ctx.Failf("final ForEach differs from the sorted model: %s", d)
	}
	for k, mv := range model {
		v, unknown := db.Get([]byte(k))
		if unknown || !bytes.Equal(v, mv) || (len(mv) == 0 && v != nil) {
			ctx.Failf("final Get(%x) = (%x, unknown=%v), model %x", k, v, unknown, mv)
		}
	}
}

// onceCtx records each label at most once per case.
type onceCtx struct {
	*ev.Ctx
	seen map[string]bool
}

func (c *onceCtx) Label(l string) {
	if !c.seen[l] {
		c.seen[l] = true
		c.Ctx.Label(l)
	}
}

func diffPairs(got, want []kvPair) string {
	if len(got) != len(want) {
		return fmt.Sprintf("%d entries, want %d (got %s want %s)", len(got), len(want), fmtPairs(got), fmtPairs(want))
	}
	for i := range got {
		if !bytes.Equal(got[i].k, want[i].k) || !bytes.Equal(got[i].v, want[i].v) {
			return fmt.Sprintf("entry %d is (%x,%x), want (%x,%x)", i, got[i].k, got[i].v, want[i].k, want[i].v)
		}
	}
	return ""
}

func fmtPairs(p []kvPair) string {
	s := "["
	for i, e := range p {
		if i == 12 {
			s += " ..."
			break
		}
		s += fmt.Sprintf(" %x=%x", e.k, e.v)
	}
	return s + " ]"
}

func runC09Scan(ctx *onceCtx, i int, db *overlaydb.MemDB, model map[string][]byte, op c09Op) {
	var rng *util.Range
	var start, limit []byte
	if op.Rng {
		rng = &util.Range{}
		if op.HasS {
			start = append([]byte{}, op.S...)
			rng.Start = start
		}
		if op.HasL {
			limit = append([]byte{}, op.L...)
			rng.Limit = limit
		}
	}
	// model: in-range entries in byte order
	var in []kvPair
	for _, e := range sortedModel(model) {
		if start != nil && bytes.Compare(e.k, start) < 0 {
			continue
		}
		if limit != nil && bytes.Compare(e.k, limit) >= 0 {
			continue
		}
		in = append(in, e)
	}
	if len(in) >= 3 && (start != nil || limit != nil) {
		ctx.NonTrivial()
		ctx.Label("bounded-scan>=3")
	}
	it := db.NewIterator(rng)
	pos := -1 // before-first; len(in) = after-last
	desc := fmt.Sprintf("scan(range=%v start=%x(%v) limit=%x(%v))", op.Rng, start, start != nil, limit, limit != nil)
	visited := 0
	for si, st := range op.Steps {
		var ok bool
		p := ev.Catch(func() {
			switch st.A {
			case "first":
				ok = it.First()
			case "last":
				ok = it.Last()
			case "next":
				ok = it.Next()
			case "prev":
				ok = it.Prev()
			case "seek":
				ok = it.Seek(st.K)
			default:
				panic("harness: unknown step " + st.A)
			}
		})
		if p != "" {
			ctx.Failf("op %d %s step %d (%s %x) panicked: %s", i, desc, si, st.A, []byte(st.K), p)
		}
		switch st.A {
		case "first":
			pos = 0
		case "last":
			pos = len(in) - 1
		case "next":
			if pos < len(in) {
				pos++
			}
		case "prev":
			if pos > -1 {
				pos--
			}
		case "seek":
			pos = sort.Search(len(in), func(j int) bool { return bytes.Compare(in[j].k, st.K) >= 0 })
		}
		want := pos >= 0 && pos < len(in)
		if ok != want || it.Valid() != want {
			ctx.Failf("op %d %s step %d (%s %x): returned %v, Valid()=%v, model position %d of %d in-range entries %s",
				i, desc, si, st.A, []byte(st.K), ok, it.Valid(), pos, len(in), fmtPairs(in))
		}
		if want {
			visited++
			if !bytes.Equal(it.Key(), in[pos].k) || !bytes.Equal(it.Value(), in[pos].v) {
				ctx.Failf("op %d %s step %d (%s %x): at (%x,%x), model entry %d is (%x,%x); in-range %s",
					i, desc, si, st.A, []byte(st.K), it.Key(), it.Value(), pos, in[pos].k, in[pos].v, fmtPairs(in))
			}
		} else if len(it.Key()) != 0 || len(it.Value()) != 0 {
			ctx.Failf("op %d %s step %d (%s): exhausted iterator still exposes (%x,%x)", i, desc, si, st.A, it.Key(), it.Value())
		}
		if it.Error() != nil {
			ctx.Failf("op %d %s step %d: iterator error %v", i, desc, si, it.Error())
		}
	}
	it.Release()
	if it.Valid() || it.Next() || it.First() {
		ctx.Failf("op %d %s: released iterator still moves", i, desc)
	}
	if visited > 0 {
		ctx.Label("scan:visited")
	} else {
		ctx.Label("scan:empty")
	}
}

func TestC09(t *testing.T) {
	ev.Drive(t, "C09",
		"cases: histories of 1..40 (thorough 120) operations put/put-nil/delete/get/find/forEach/reset/bulk-insert/iterator-walk on one overlaydb.MemDB; keys of length 0..4 over a 3-letter alphabet (plus 0x00/0xff) so that keys collide and are prefixes of each other; "+
			"iterator walks use nil/Start/Limit range combinations and first/last/seek/next/prev scripts. "+
			"non-trivial: the history writes a live value over a deleted key, or walks an iterator with a Start or Limit bound over >=3 in-range entries; distinct by JSON encoding of the case",
		genC09, runC09)
}
