package pcosmos

import (
	"fmt"

	"github.com/cosmos/cosmos-sdk/store/rootmulti"
	sdk "github.com/cosmos/cosmos-sdk/types"
	abci "github.com/tendermint/tendermint/abci/types"
	"github.com/tendermint/tendermint/crypto/merkle"
	dbm "github.com/tendermint/tm-db"
)

// storeFix is an in-memory cosmos-sdk multistore with two IAVL stores, committed once; `model`
// is the harness's own record of what the committed state contains.
type storeFix struct {
	ms    *rootmulti.Store
	name  string
	root  []byte
	model map[string][]byte
}

func newStoreFix(name string, kvs [][2][]byte) *storeFix {
	db := dbm.NewMemDB()
	ms := rootmulti.NewStore(db)
	key := sdk.NewKVStoreKey(name)
	other := sdk.NewKVStoreKey("zz-other")
	ms.MountStoreWithDB(key, sdk.StoreTypeIAVL, nil)
	ms.MountStoreWithDB(other, sdk.StoreTypeIAVL, nil)
	if err := ms.LoadLatestVersion(); err != nil {
		panic(err)
	}
	f := &storeFix{ms: ms, name: name, model: map[string][]byte{}}
	st := ms.GetKVStore(key)
	for _, kv := range kvs {
		st.Set(kv[0], kv[1])
		f.model[string(kv[0])] = kv[1]
	}
	ms.GetKVStore(other).Set([]byte("filler"), []byte("x"))
	f.root = ms.Commit().Hash
	return f
}

// prove queries key with Prove:true; the result is an existence proof if the key is present and
// an absence proof otherwise (each followed by the multistore op).
func (f *storeFix) prove(key []byte) (*merkle.Proof, []byte) {
	res := f.ms.Query(abci.RequestQuery{Path: "/" + f.name + "/key", Data: key, Prove: true})
	if res.Code != 0 || res.Proof == nil {
		panic(fmt.Sprintf("harness: store query failed: %v", res.Log))
	}
	_, present := f.model[string(key)]
	if present != (len(res.Value) != 0) {
		panic("harness: store and model disagree")
	}
	want := "iavl:a"
	if present {
		want = "iavl:v"
	}
	if len(res.Proof.Ops) != 2 || res.Proof.Ops[0].Type != want || res.Proof.Ops[1].Type != "multistore" {
		panic(fmt.Sprintf("harness: unexpected proof shape %v", res.Proof.Ops))
	}
	return res.Proof, res.Value
}

func (f *storeFix) keyPath(key []byte) string {
	kp := merkle.KeyPath{}
	kp = kp.AppendKey([]byte(f.name), merkle.KeyEncodingURL)
	kp = kp.AppendKey(key, merkle.KeyEncodingHex)
	return kp.String()
}
