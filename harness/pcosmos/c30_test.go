package pcosmos

import (
	"bytes"
	"crypto/sha256"
	"encoding/hex"
	"fmt"
	"math/big"
	"os"
	"sync"
	"testing"

	ethcrypto "github.com/ethereum/go-ethereum/crypto"
	"github.com/polynetwork/poly/common"
	scom "github.com/polynetwork/poly/native/service/cross_chain_manager/common"
	hcosmos "github.com/polynetwork/poly/native/service/header_sync/cosmos"
	"github.com/tendermint/tendermint/crypto/merkle"
	"github.com/tendermint/tendermint/types"
	"pgregory.net/rapid"

	"verif/harness/ev"
	"verif/harness/world"
)

func TestMain(m *testing.M) { ev.Main(m) }

// ---------------------------------------------------------------------------------------------
// C30 Tendermint-family light clients need a two-thirds power quorum; deposits must be proven to exist

type kvSpec struct {
	Key   ev.B `json:"key"`
	Cross ev.B `json:"cross"`
	Args  ev.B `json:"args,omitempty"`
}

type depositSpec struct {
	Entry     int    `json:"entry"`
	Proof     string `json:"proof"`             // exist | wrongvalue | otherkey | absent | f12
	KpEmpty   bool   `json:"kpempty,omitempty"` // submit an empty key path
	HeightOff int    `json:"hoff,omitempty"`    // param height = header height + HeightOff
}

type opSpec struct {
	Kind    string       `json:"kind"` // sync | deposit
	Headers []headerSpec `json:"hdrs"`
	Dep     *depositSpec `json:"dep,omitempty"`
}

type c30Case struct {
	Router    string      `json:"router"`
	Sets      [][]valSpec `json:"sets"`
	GenHeight int         `json:"genheight"`
	GenVer    int         `json:"genver,omitempty"`
	GenBy     string      `json:"genby,omitempty"` // "" operator | outsider
	Store     []kvSpec    `json:"store,omitempty"`
	Ops       []opSpec    `json:"ops"`
}

const maxTotalPower = int64(1<<60 - 1) // tendermint MaxTotalVotingPower = MaxInt64/8

const (
	keyF12     = "cosmos-empty-keypath-absence-proof-accepted"
	keyHeimDup = "heimdall-validator-index-double-count"
)

// ---------------------------------------------------------------------------------------------
// generators

func genPower() *rapid.Generator[int64] {
	return rapid.OneOf(
		rapid.SampledFrom([]int64{1, 1, 1, 2, 2, 3}),
		rapid.Int64Range(1, 10),
		rapid.Int64Range(1, 1000),
		rapid.Int64Range(1, 1<<55),
		rapid.SampledFrom([]int64{1 << 56, (1<<60 - 1) / 10}),
	)
}

func genSet(t *rapid.T) []valSpec {
	maxN := ev.Scale(7, 10)
	n := rapid.OneOf(rapid.IntRange(1, 4), rapid.IntRange(1, maxN)).Draw(t, "n")
	base := rapid.IntRange(0, 12).Draw(t, "keybase")
	style := rapid.IntRange(0, 3).Draw(t, "style")
	out := make([]valSpec, n)
	for i := range out {
		out[i].Key = base + i
		switch style {
		case 0: // equal powers: exact 1/3 and 2/3 splits are reachable
			out[i].Power = 1
		case 1: // one dominant validator
			if i == 0 {
				out[i].Power = rapid.Int64Range(1, 1<<40).Draw(t, "dominant")
			} else {
				out[i].Power = rapid.Int64Range(1, 3).Draw(t, "small")
			}
		default:
			out[i].Power = genPower().Draw(t, "power")
		}
		// tendermint refuses (panics on) sets whose total power exceeds MaxInt64/8
		if lim := maxTotalPower / int64(n); out[i].Power > lim {
			out[i].Power = lim
		}
	}
	return out
}

func genVote(mutate bool) *rapid.Generator[voteSpec] {
	return rapid.Custom(func(t *rapid.T) voteSpec {
		v := voteSpec{Flag: rapid.SampledFrom([]string{"commit", "commit", "commit", "commit", "commit", "commit", "absent", "absent", "nil"}).Draw(t, "flag")}
		if !mutate {
			return v
		}
		switch rapid.IntRange(0, 11).Draw(t, "mut") {
		case 0:
			v.Sig = rapid.SampledFrom([]string{"forged", "otherblock", "otherchain", "badtime", "prevote"}).Draw(t, "sig")
		case 1:
			v.Signer = rapid.SampledFrom([]int{-1, 1, 2}).Draw(t, "signer")
		case 2, 3, 4:
			v.CopyOf = rapid.IntRange(1, 10).Draw(t, "copyof")
		case 5:
			v.Index = rapid.IntRange(1, 3).Draw(t, "index")
		}
		return v
	})
}

func genHeader(router string, caseVer int, deposit bool) *rapid.Generator[headerSpec] {
	return rapid.Custom(func(t *rapid.T) headerSpec {
		h := headerSpec{}
		if deposit {
			h.Rel = rapid.SampledFrom([]int{0, 0, 1, 1, 2, 7, -1}).Draw(t, "rel")
		} else {
			h.Rel = rapid.SampledFrom([]int{1, 1, 1, 1, 2, 3, 10, 0, -1, -5}).Draw(t, "rel")
		}
		h.Set = rapid.SampledFrom([]int{-1, -1, -1, -1, -1, -1, -1, 0, 1, 2, 3}).Draw(t, "set")
		h.Next = rapid.SampledFrom([]int{0, 1, 2, 3, 0, 1, 2, 3, 0, 1, 2, 3, -2}).Draw(t, "next")
		if router == "cosmos" {
			h.Ver = caseVer
			if rapid.IntRange(0, 5).Draw(t, "verflip") == 0 {
				h.Ver = 21 - caseVer
			}
		}
		mutate := rapid.IntRange(0, 3).Draw(t, "mutate") == 0
		h.Votes = rapid.SliceOfN(genVote(mutate), 1, 10).Draw(t, "votes")
		if rapid.IntRange(0, 7).Draw(t, "hdrmut") == 0 {
			switch rapid.IntRange(0, 7).Draw(t, "which") {
			case 0:
				h.VH = rapid.SampledFrom([]string{"other", "fmt"}).Draw(t, "vh")
			case 1:
				h.Chain = "other"
			case 2:
				h.CHash = "other"
			case 3:
				h.CHeight = rapid.SampledFrom([]int{-1, 1}).Draw(t, "cheight")
			case 4:
				h.SigDelta = rapid.SampledFrom([]int{-1, 1}).Draw(t, "sigdelta")
			case 5:
				h.BadSet = rapid.SampledFrom([]string{"dup", "zero"}).Draw(t, "badset")
			case 6:
				h.AppOther = true
			case 7:
				h.Shuffle = rapid.IntRange(1, 5).Draw(t, "shuffle")
			}
		}
		if router == "cosmos" && h.Ver >= 11 && h.Shuffle == 0 && rapid.IntRange(0, 3).Draw(t, "shuf11") == 0 {
			h.Shuffle = rapid.IntRange(1, 5).Draw(t, "shuffle11")
		}
		return h
	})
}

func genKV(t *rapid.T) kvSpec {
	return kvSpec{
		Key:   rapid.SliceOfN(rapid.Byte(), 1, 20).Draw(t, "key"),
		Cross: rapid.SliceOfN(rapid.Byte(), 1, 8).Draw(t, "cross"),
		Args:  rapid.SliceOfN(rapid.Byte(), 0, 40).Draw(t, "args"),
	}
}

func genC30(t *rapid.T) c30Case {
	c := c30Case{Router: rapid.SampledFrom([]string{"cosmos", "cosmos", "okex", "heimdall"}).Draw(t, "router")}
	c.Sets = rapid.SliceOfN(rapid.Custom(genSet), 2, 4).Draw(t, "sets")
	c.GenHeight = rapid.SampledFrom([]int{1, 5, 100, 100000, 1 << 31}).Draw(t, "genheight")
	if c.Router == "cosmos" {
		c.GenVer = rapid.SampledFrom([]int{10, 10, 11}).Draw(t, "genver")
	}
	if rapid.IntRange(0, 199).Draw(t, "genby") == 137 {
		c.GenBy = "outsider"
	}
	withDeposits := c.Router != "heimdall" && rapid.IntRange(0, 2).Draw(t, "deposits") != 0
	if withDeposits {
		c.Store = rapid.SliceOfN(rapid.Custom(genKV), 1, 4).Draw(t, "store")
	}
	ver := c.GenVer
	genOp := rapid.Custom(func(t *rapid.T) opSpec {
		if withDeposits && rapid.IntRange(0, 2).Draw(t, "kind") == 0 {
			d := &depositSpec{
				Entry: rapid.IntRange(0, 3).Draw(t, "entry"),
				Proof: rapid.SampledFrom([]string{"exist", "exist", "exist", "wrongvalue", "otherkey", "absent", "f12", "f12"}).Draw(t, "proof"),
			}
			if rapid.IntRange(0, 9).Draw(t, "kpempty") == 0 {
				d.KpEmpty = true
			}
			if rapid.IntRange(0, 11).Draw(t, "hoff") == 0 {
				d.HeightOff = rapid.SampledFrom([]int{-1, 1}).Draw(t, "hoffv")
			}
			hdr := genHeader(c.Router, ver, true).Draw(t, "hdr")
			if rapid.IntRange(0, 3).Draw(t, "forgedepoch") == 0 {
				// forged header at (or next to) the tracked epoch height: unsigned / under-signed / signed by foreign keys,
				// its commit naming the stored epoch block hash, its own hash or a random one; proof against ITS app hash
				hdr = headerSpec{Ver: hdr.Ver, Next: hdr.Next,
					Rel:   rapid.SampledFrom([]int{0, 0, 0, 0, 1, -1}).Draw(t, "frel"),
					Set:   rapid.SampledFrom([]int{-1, -1, 0, 1, 2}).Draw(t, "fset"),
					CHash: rapid.SampledFrom([]string{"epoch", "epoch", "epoch", "", "other"}).Draw(t, "fchash")}
				switch rapid.IntRange(0, 2).Draw(t, "fsigs") {
				case 0:
					hdr.Votes = []voteSpec{{Flag: "absent"}}
				case 1:
					hdr.Votes = []voteSpec{{Flag: "commit"}, {Flag: "absent"}, {Flag: "absent"}, {Flag: "absent"}, {Flag: "absent"}, {Flag: "absent"}, {Flag: "absent"}, {Flag: "absent"}, {Flag: "absent"}, {Flag: "absent"}}
				case 2:
					hdr.Votes = []voteSpec{{Flag: "commit", Signer: -1}}
				}
				d.Proof, d.KpEmpty, d.HeightOff = "exist", false, 0
			}
			return opSpec{Kind: "deposit", Headers: []headerSpec{hdr}, Dep: d}
		}
		return opSpec{Kind: "sync", Headers: rapid.SliceOfN(genHeader(c.Router, ver, false), 1, 3).Draw(t, "hdrs")}
	})
	c.Ops = rapid.SliceOfN(genOp, 1, ev.Scale(5, 8)).Draw(t, "ops")
	return c
}

// ---------------------------------------------------------------------------------------------
// building headers from specs

type runner struct {
	ctx   *ev.Ctx
	c     c30Case
	e     *env
	rt    router
	known map[string]string // hex(set hash, any format) -> canonical content
	store *storeFix
	msgs  [][]byte // message of store entry i
	keys  [][]byte // store key of entry i
	// evidence
	advanced  int
	nearSeen  bool
	absSeen   bool
	accDepos  int
	done      map[int]bool // store entries already imported (replay protection refuses them)
	knownHits int
}

func (r *runner) setAt(i int) []valSpec {
	n := len(r.c.Sets)
	return r.c.Sets[((i%n)+n)%n]
}

// learnSets fills the reverse map hash -> set content from the harness-computed hashes. Two different
// contents under one hash are reported, and so is a disagreement between the harness's reference hash
// and the hash the code under test computes for the same set (a hash that does not commit to both the
// keys and the powers would let a re-weighted set pass as the trusted one).
func (r *runner) learnSets() {
	add := func(h []byte, s []valSpec) {
		k := hex.EncodeToString(h)
		if prev, ok := r.known[k]; ok && prev != setContent(s) {
			r.ctx.Failf("router %s: validator sets %q and %q have the same hash %s", r.c.Router, prev, setContent(s), k)
		}
		r.known[k] = setContent(s)
	}
	for _, s := range r.c.Sets {
		ref := r.rt.setHash(s, 10)
		add(ref, s)
		switch r.c.Router {
		case "heimdall":
			if impl := implHeimdallSetHash(s); !bytes.Equal(impl, ref) {
				r.ctx.Failf("heimdall: ValidatorSet.Hash() of {%s} is %x, but the hash defined by the format (merkle over amino{pubkey, voting power} in address order) is %x: the light client's validator-set hash does not commit to exactly the keys AND powers",
					setContent(s), impl, ref)
			}
		case "cosmos":
			ref11 := r.rt.setHash(s, 11)
			add(ref11, s)
			legacy := types.NewValidatorSet(tm33Vals(s))
			if impl := hcosmos.HashCosmosValSet(legacy, 11); !bytes.Equal(impl, ref11) {
				r.ctx.Failf("cosmos: HashCosmosValSet(v11) of {%s} is %x, the tendermint 0.34 library gives %x", setContent(s), impl, ref11)
			}
			if impl := hcosmos.HashCosmosValSet(legacy, 10); !bytes.Equal(impl, ref) {
				r.ctx.Failf("cosmos: HashCosmosValSet(v10) of {%s} is %x, the tendermint 0.33 library gives %x", setContent(s), impl, ref)
			}
		}
	}
}

// trustedIndex finds a set of the case whose hash (in any format) is nvh; -1 if none.
func (r *runner) trustedIndex(nvh []byte) int {
	content, ok := r.known[hex.EncodeToString(nvh)]
	if !ok {
		return -1
	}
	for i, s := range r.c.Sets {
		if setContent(s) == content {
			return i
		}
	}
	return -1
}

func (r *runner) build(h headerSpec, st tracked) *built {
	ver := h.Ver
	if ver == 0 {
		ver = 10
	}
	if r.c.Router != "cosmos" && h.VH == "fmt" {
		h.VH = "" // only cosmos has two hash formats
	}
	var set []valSpec
	if h.Set < 0 {
		if ti := r.trustedIndex(st.NVH); ti >= 0 {
			set = r.setAt(ti)
		} else {
			set = r.setAt(0)
		}
	} else {
		set = r.setAt(h.Set)
	}
	b := &built{ver: ver, content: setContent(set), height: st.Height + int64(h.Rel)}
	p := &plan{ver: ver, height: b.height, cheight: b.height + int64(h.CHeight), chashOther: h.CHash == "other"}
	if h.CHash == "epoch" {
		// the commit merely NAMES the block hash stored in the epoch record
		p.chashRaw = append([]byte{}, st.Block...)
		if len(p.chashRaw) == 0 {
			p.chashRaw = h32("no stored epoch hash")
		}
	}
	p.chainID = st.ChainID
	if h.Chain == "other" {
		p.chainID = "chain-other"
		b.foreign = true
	}
	if r.c.Router == "cosmos" {
		p.signChain = p.chainID
	} else {
		p.signChain = st.ChainID
	}
	// hashes
	switch h.VH {
	case "other":
		p.vh = r.rt.setHash(r.setAt(h.Next+1), ver)
		if bytes.Equal(p.vh, r.rt.setHash(set, ver)) {
			p.vh = h32("unknown validators hash")
		}
	case "fmt":
		p.vh = r.rt.setHash(set, 21-ver)
	default:
		p.vh = r.rt.setHash(set, ver)
	}
	if h.Next == -2 {
		p.nvh = h32(fmt.Sprintf("unknown next validators %d", b.height))
	} else {
		p.nvh = r.rt.setHash(r.setAt(h.Next), ver)
	}
	if h.nvhSet {
		p.nvh = h.nvhRaw
	}
	if h.vhEmpty {
		p.vh = nil
	}
	if h.chainRaw != nil {
		p.chainID = *h.chainRaw
	}
	b.nvh = p.nvh
	b.sameVals = bytes.Equal(p.vh, p.nvh)
	p.appHash = h.appHash
	if p.appHash == nil || h.AppOther {
		p.appHash = h32(fmt.Sprintf("some app hash %d", b.height))
	}
	b.appHash = p.appHash
	// validator list as presented and position order
	p.pos = r.rt.order(set, ver)
	p.presented = append([]valSpec(nil), set...)
	if r.c.Router == "cosmos" && ver >= 11 {
		// the implementation maps commit position i to the i-th validator AS LISTED
		k := h.Shuffle % len(set)
		p.presented = append(append([]valSpec(nil), p.pos[k:]...), p.pos[:k]...)
		p.pos = p.presented
	} else if h.Shuffle != 0 {
		k := h.Shuffle % len(set)
		p.presented = append(append([]valSpec(nil), set[k:]...), set[:k]...)
	}
	switch h.BadSet {
	case "dup":
		p.presented = append(p.presented, p.presented[0])
		b.content = ""
	case "zero":
		p.presented = append(p.presented, valSpec{Key: 800, Power: 0})
		b.content = ""
	}
	// commit entries
	n := len(p.pos)
	ne := n + h.SigDelta
	if ne < 1 {
		ne = 1
	}
	p.votes = make([]voteSpec, ne)
	for i := range p.votes {
		if len(h.Votes) == 0 {
			p.votes[i] = voteSpec{Flag: "commit"}
		} else {
			p.votes[i] = h.Votes[i%len(h.Votes)]
		}
		if i >= n {
			p.votes[i] = voteSpec{Flag: "absent"}
		}
		if r.c.Router != "heimdall" {
			p.votes[i].Index = 0
			if p.votes[i].Sig == "prevote" {
				p.votes[i].Sig = "forged"
			}
		}
		if p.votes[i].CopyOf > 0 && (p.votes[i].CopyOf-1)%ne == i {
			p.votes[i].CopyOf = 0
		}
		if p.votes[i].Signer > 0 && p.votes[i].Signer%n == 0 {
			p.votes[i].Signer = 0 // resolves to the validator of this position
		}
		if p.votes[i].Index%n == 0 {
			p.votes[i].Index = 0
		}
	}
	// copies of copies and copies of absent entries are normalised away
	snap := append([]voteSpec(nil), p.votes...)
	for i := range p.votes {
		if snap[i].CopyOf == 0 {
			continue
		}
		src := snap[(snap[i].CopyOf-1)%ne]
		switch {
		case src.CopyOf > 0:
			p.votes[i].CopyOf = 0
		case src.Flag == "absent":
			p.votes[i] = voteSpec{Flag: "absent"}
		}
	}
	b.nentries = ne
	b.raw = r.rt.encode(p)
	b.hdrHash = p.hdrHash
	// ---- construction facts for the oracle: who REALLY signed a precommit for this block
	signed := map[int]bool{}
	b.clean = h.VH == "" && h.CHash == "" && h.CHeight == 0 && ne == n && h.BadSet == ""
	// the votes are precommits for THIS block only if the commit they belong to names this header's hash
	commitForThisBlock := (h.CHash == "" || (p.chashRaw != nil && bytes.Equal(p.chashRaw, p.hdrHash))) && h.CHeight == 0
	anyEntry := false
	for i, v := range p.votes {
		if v.CopyOf > 0 {
			b.copies = true
			b.clean = false
			continue // a copy adds no new signer
		}
		if v.Flag == "absent" {
			continue
		}
		anyEntry = true
		if v.Sig != "" || v.Signer != 0 || v.Index != 0 {
			b.clean = false
		}
		if v.Flag == "commit" && v.Sig == "" && commitForThisBlock {
			signed[signerKey(p, i, v)] = true
		}
	}
	if !anyEntry {
		b.clean = false // the heimdall commit has no height then; tally is zero anyway
	}
	b.total = new(big.Int)
	b.tally = new(big.Int)
	counted := map[int]bool{}
	for _, v := range set {
		b.total.Add(b.total, big.NewInt(v.Power))
		if signed[v.Key] && !counted[v.Key] {
			counted[v.Key] = true
			b.tally.Add(b.tally, big.NewInt(v.Power))
		}
	}
	// near: toggling one validator's vote flips the decision
	q := b.quorum()
	for _, v := range set {
		t2 := new(big.Int).Set(b.tally)
		if counted[v.Key] {
			t2.Sub(t2, big.NewInt(v.Power))
		} else {
			t2.Add(t2, big.NewInt(v.Power))
		}
		alt := &built{tally: t2, total: b.total}
		if alt.quorum() != q {
			b.near = true
		}
	}
	return b
}

// setOK: the presented validator set IS the set whose hash is trusted (content comparison).
func (r *runner) setOK(b *built, st tracked) bool {
	if b.content == "" {
		return false
	}
	c, ok := r.known[hex.EncodeToString(st.NVH)]
	return ok && c == b.content
}

// validAdvance is the property's predicate for moving the tracked state to b.
func (r *runner) validAdvance(b *built, st tracked) bool {
	return b.height > st.Height && r.setOK(b, st) && b.quorum()
}

// reachable: can `after` be reached from st by accepting, in order, a subsequence of hs each of
// which satisfies validAdvance relative to the state it is applied to?
func (r *runner) reachable(st tracked, hs []*built, after tracked) bool {
	for i, b := range hs {
		if !r.validAdvance(b, st) {
			continue
		}
		next := tracked{Present: true, Height: b.height, NVH: b.nvh}
		if next.Height == after.Height && bytes.Equal(next.NVH, after.NVH) {
			return true
		}
		if r.reachable(next, hs[i+1:], after) {
			return true
		}
	}
	return false
}

// ---------------------------------------------------------------------------------------------
// evidence: per-router coverage

var (
	covMu sync.Mutex
	cov   = map[string]int{}
)

func (r *runner) count(what string) {
	covMu.Lock()
	cov[r.c.Router+":"+what]++
	covMu.Unlock()
}

var c30Publish = true // TestC16ACosmos re-uses runC30 as a transaction source and switches the C30 evidence off

func publishCoverage() {
	if !c30Publish {
		return
	}
	covMu.Lock()
	m := make(map[string]int, len(cov))
	for k, v := range cov {
		m[k] = v
	}
	covMu.Unlock()
	ev.Get("C30").Extra("router_coverage", m)
}

// ---------------------------------------------------------------------------------------------
// run

func (r *runner) message(kv kvSpec, i int) []byte {
	p := &scom.MakeTxParam{
		TxHash:              h32(fmt.Sprintf("src-tx-%d-%x", i, []byte(kv.Key))),
		CrossChainID:        append([]byte{byte(i)}, kv.Cross...),
		FromContractAddress: ccmcAddr,
		ToChainID:           dstChain,
		ToContractAddress:   bytes.Repeat([]byte{0xdd}, 20),
		Method:              "unlock",
		Args:                kv.Args,
	}
	s := common.NewZeroCopySink(nil)
	p.Serialization(s)
	return s.Bytes()
}

// absenceShaped builds a well-formed MakeTxParam whose serialisation, read as a string, is a
// syntactically valid key path "/<store>/<key>" of a key that is absent from the store:
// the first byte (var-uint length of TxHash) is 0x2f = '/', so TxHash has 47 bytes and starts
// with "<store>/"; no other byte is '/' or '%'.
func absenceShaped(store string, kv kvSpec, i int) (msg []byte, iavlKey []byte) {
	clean := func(b []byte) []byte {
		o := append([]byte(nil), b...)
		for j := range o {
			if o[j] == '/' || o[j] == '%' {
				o[j] = 'A'
			}
		}
		return o
	}
	pad := sha256.Sum256(append([]byte("absent-shaped"), kv.Key...))
	tx := append([]byte(store+"/"), clean(append(pad[:], pad[:]...))...)[:47]
	p := &scom.MakeTxParam{
		TxHash:              tx,
		CrossChainID:        clean(append([]byte{0xA0 + byte(i)}, kv.Cross...)),
		FromContractAddress: clean(ccmcAddr),
		ToChainID:           dstChain,
		ToContractAddress:   bytes.Repeat([]byte{0xdd}, 20),
		Method:              "unlock",
		Args:                clean(kv.Args),
	}
	if l := len(p.Args); l == '/' || l == '%' {
		p.Args = append(p.Args, 'A')
	}
	s := common.NewZeroCopySink(nil)
	p.Serialization(s)
	msg = s.Bytes()
	if msg[0] != '/' || bytes.Count(msg, []byte("/")) != 2 || bytes.Contains(msg, []byte("%")) {
		panic("harness: absence-shaped message malformed")
	}
	return msg, msg[1+len(store)+1:]
}

func (r *runner) ensureStore() {
	if r.store != nil {
		return
	}
	name := "ccm"
	if r.c.Router == "okex" {
		name = "evm"
	}
	var kvs [][2][]byte
	seen := map[string]bool{}
	for i, kv := range r.c.Store {
		msg := r.message(kv, i)
		var key, val []byte
		if r.c.Router == "okex" {
			hk := sha256.Sum256(kv.Key)
			key = append(append([]byte{0x05}, ccmcAddr...), hk[:]...)
			val = ethcrypto.Keccak256(msg)
		} else {
			key = append([]byte("req-"), kv.Key...)
			val = msg
		}
		r.msgs = append(r.msgs, msg)
		r.keys = append(r.keys, key)
		if !seen[string(key)] {
			seen[string(key)] = true
			kvs = append(kvs, [2][]byte{key, val})
		}
	}
	r.store = newStoreFix(name, kvs)
}

// panicClass shortens a recovered panic message to a stable class name (digits removed).
func panicClass(p string) string {
	var o []byte
	for i := 0; i < len(p) && len(o) < 44; i++ {
		if p[i] >= '0' && p[i] <= '9' {
			continue
		}
		o = append(o, p[i])
	}
	return string(o)
}

type proofValue struct {
	Kp    string
	Value []byte
}

func runC30(ctx *ev.Ctx, c c30Case) {
	defer publishCoverage()
	if routerID[c.Router] == 0 || len(c.Sets) == 0 {
		ctx.Label("malformed-case")
		return
	}
	for _, s := range c.Sets {
		sum, seen := int64(0), map[int]bool{}
		for _, v := range s {
			if v.Power <= 0 || v.Power > maxTotalPower || seen[v.Key] || v.Key < 0 || v.Key >= 800 {
				ctx.Label("malformed-case")
				return
			}
			seen[v.Key] = true
			sum += v.Power
		}
		if len(s) == 0 || len(s) > 64 || sum > maxTotalPower {
			ctx.Label("malformed-case")
			return
		}
	}
	r := &runner{ctx: ctx, c: c, rt: routerOf(c.Router), known: map[string]string{}}
	ctx.Label("router:" + c.Router)
	r.count("cases")
	r.e = newEnv(c.Router)
	r.learnSets()
	// ---- trust root: genesis header, next validators = set 0
	gver := c.GenVer
	if gver == 0 {
		gver = 10
	}
	g := r.build(headerSpec{Rel: 0, Set: 1, Next: 0, Ver: gver}, tracked{Height: int64(c.GenHeight), ChainID: "chain-A"})
	if c.GenBy == "outsider" {
		res := r.e.syncGenesis(g.raw, []common.Address{world.Acct(12).Address})
		if res.OK() || r.e.tracked().Present {
			ctx.Failf("%s: syncGenesisHeader witnessed by a non-operator installed a trust root", c.Router)
		}
		ctx.Label("genesis:outsider-rejected")
		return
	}
	if res := r.e.syncGenesis(g.raw, []common.Address{r.e.w.Operator()}); !res.OK() {
		ctx.Failf("harness: syncGenesisHeader by the operator failed: %v", res.Err)
	}
	st := r.e.tracked()
	if !st.Present || st.Height != int64(c.GenHeight) || !bytes.Equal(st.NVH, g.nvh) {
		ctx.Failf("harness: genesis state %v, expected height %d nvh %x", st, c.GenHeight, g.nvh)
	}

	for oi, op := range c.Ops {
		if len(op.Headers) == 0 {
			continue
		}
		before := r.e.tracked()
		switch op.Kind {
		case "sync":
			r.runSync(oi, op, before)
		case "deposit":
			if c.Router == "heimdall" || op.Dep == nil || len(c.Store) == 0 {
				ctx.Label("malformed-case")
				continue
			}
			r.runDeposit(oi, op, before)
		}
	}
	if r.advanced > 0 && (r.nearSeen || r.absSeen) {
		ctx.NonTrivial()
	}
}

// judgeState applies the state part of the oracle to one executed operation.
func (r *runner) judgeState(oi int, what string, before, after tracked, hs []*built) {
	ctx := r.ctx
	if !after.Present {
		ctx.Failf("op %d (%s): tracked state disappeared", oi, what)
	}
	if after.Height < before.Height {
		ctx.Failf("op %d (%s): tracked height decreased %d -> %d", oi, what, before.Height, after.Height)
	}
	if after.sameAs(before) {
		return
	}
	if after.Height == before.Height && bytes.Equal(after.NVH, before.NVH) {
		// only chain id / block hash bookkeeping changed: not covered by the statement
		ctx.Label("bookkeeping-only-change")
		return
	}
	if r.reachable(before, hs, after) {
		r.advanced++
		r.count("state_advances")
		return
	}
	// the tracked (height, next-validators hash) moved without a header that justifies it
	var why []string
	dup := false
	for i, b := range hs {
		why = append(why, fmt.Sprintf("hdr%d{h=%d setOK=%v tally=%s/%s quorum=%v copies=%v}", i, b.height, r.setOK(b, before), b.tally, b.total, b.quorum(), b.copies))
		if b.copies {
			dup = true
		}
	}
	msg := fmt.Sprintf("op %d (%s, router %s): tracked state moved %v -> %v but no submitted header satisfies (height > tracked, validator set == trusted set, signed power > 2/3): %v",
		oi, what, r.c.Router, before, after, why)
	if r.c.Router == "heimdall" && dup {
		r.knownHits++
		r.count("known:" + keyHeimDup)
		ctx.Known(keyHeimDup, "%s", msg)
		return
	}
	ctx.Failf("%s", msg)
}

func (r *runner) noteHeader(b *built, st tracked) {
	r.count("headers")
	if b.near && b.clean && r.setOK(b, st) && b.height > st.Height {
		r.nearSeen = true
		r.count("headers_near_two_thirds_decisive")
		r.ctx.Label("tally:near-line")
	}
	if b.foreign {
		r.ctx.Label("hdr:foreign-chain-id")
	}
	if b.total.Sign() > 0 && new(big.Int).Mul(b.tally, big.NewInt(3)).Cmp(new(big.Int).Mul(b.total, big.NewInt(2))) == 0 {
		r.ctx.Label("tally:exactly-two-thirds")
		r.count("headers_exactly_two_thirds")
	}
}

// implSetOK mirrors which trusted-hash formats the implementation is observed to accept (used for
// the unjudged prediction only).
func (r *runner) implSetOK(b *built, st tracked, set string) bool {
	if !r.setOK(b, st) {
		return false
	}
	if r.c.Router != "cosmos" {
		return true
	}
	// trusted hash must be in the header's format or the legacy format
	for i, s := range r.c.Sets {
		if setContent(s) == set {
			return bytes.Equal(st.NVH, r.rt.setHash(r.c.Sets[i], b.ver)) || bytes.Equal(st.NVH, r.rt.setHash(r.c.Sets[i], 10))
		}
	}
	return false
}

func (r *runner) runSync(oi int, op opSpec, before tracked) {
	ctx := r.ctx
	var hs []*built
	var raws [][]byte
	assumed := before
	// unjudged prediction of the implementation's result
	predOK, predCnt := true, 0
	for _, h := range op.Headers {
		b := r.build(h, assumed)
		hs = append(hs, b)
		raws = append(raws, b.raw)
		r.noteHeader(b, assumed)
		if b.sameVals || b.height <= assumed.Height {
			continue
		}
		if predOK {
			if b.clean && r.implSetOK(b, assumed, b.content) && b.quorum() {
				predCnt++
			} else {
				predOK = false
			}
		}
		assumed = tracked{Present: true, Height: b.height, NVH: b.nvh, ChainID: before.ChainID}
	}
	res := r.e.syncHeaders(raws)
	after := r.e.tracked()
	if res.Panic != "" {
		ctx.Label("sync:impl-panic:" + panicClass(res.Panic))
		r.count("sync_panics")
	}
	if res.OK() {
		r.count("sync_accepted")
		ctx.Label("sync:accepted")
	} else {
		r.count("sync_rejected")
		ctx.Label("sync:rejected")
		if !after.sameAs(before) {
			ctx.Failf("op %d: syncBlockHeader failed (%v) but the tracked state changed %v -> %v", oi, res.Err, before, after)
		}
	}
	if (predOK && predCnt > 0) != res.OK() {
		ctx.Label(fmt.Sprintf("sync:prediction-mismatch(pred=%v,got=%v)", predOK && predCnt > 0, res.OK()))
		r.count("prediction_mismatch")
		anyCopies := false
		for _, b := range hs {
			anyCopies = anyCopies || b.copies
		}
		if os.Getenv("PCOSMOS_STRICT") != "" && !(r.c.Router == "heimdall" && anyCopies) {
			ctx.Failf("strict: sync prediction mismatch pred=%v got=%v err=%v", predOK && predCnt > 0, res.OK(), res.Err)
		}
	}
	r.judgeState(oi, "syncBlockHeader", before, after, hs)
}

func (r *runner) runDeposit(oi int, op opSpec, before tracked) {
	ctx := r.ctx
	r.ensureStore()
	d := op.Dep
	ei := ((d.Entry % len(r.msgs)) + len(r.msgs)) % len(r.msgs)
	h := op.Headers[0]
	h.appHash = r.store.root
	b := r.build(h, before)
	r.noteHeader(b, before)
	r.count("deposits")

	var pv proofValue
	var proof *merkle.Proof
	kind := d.Proof
	switch kind {
	case "wrongvalue":
		proof, _ = r.store.prove(r.keys[ei])
		pv.Kp = r.store.keyPath(r.keys[ei])
		kv := r.c.Store[ei]
		kv.Args = append(append(ev.B{}, kv.Args...), 0x01)
		pv.Value = r.message(kv, ei)
	case "otherkey":
		o := (ei + 1) % len(r.msgs)
		if bytes.Equal(r.keys[o], r.keys[ei]) || bytes.Equal(r.msgs[o], r.msgs[ei]) {
			kind = "exist"
			proof, _ = r.store.prove(r.keys[ei])
			pv.Kp = r.store.keyPath(r.keys[ei])
			pv.Value = r.msgs[ei]
			break
		}
		proof, _ = r.store.prove(r.keys[o])
		pv.Kp = r.store.keyPath(r.keys[o])
		pv.Value = r.msgs[ei]
	case "absent":
		k := append(append([]byte{}, r.keys[ei]...), []byte("-not-there")...)
		if r.c.Router == "okex" {
			hk := sha256.Sum256(k)
			k = append(append([]byte{0x05}, ccmcAddr...), hk[:]...)
		}
		proof, _ = r.store.prove(k)
		pv.Kp = r.store.keyPath(k)
		pv.Value = r.msgs[ei]
		r.absSeen = true
	case "f12":
		if r.c.Router == "cosmos" {
			msg, k := absenceShaped(r.store.name, r.c.Store[ei], ei)
			proof, _ = r.store.prove(k)
			pv.Kp = ""
			pv.Value = msg
		} else {
			hk := sha256.Sum256(append([]byte("absent"), r.keys[ei]...))
			k := append(append([]byte{0x05}, ccmcAddr...), hk[:]...)
			proof, _ = r.store.prove(k)
			pv.Kp = ""
			pv.Value = r.msgs[ei]
		}
		r.absSeen = true
	default:
		kind = "exist"
		proof, _ = r.store.prove(r.keys[ei])
		pv.Kp = r.store.keyPath(r.keys[ei])
		pv.Value = r.msgs[ei]
	}
	if d.KpEmpty {
		pv.Kp = ""
	}
	ctx.Label("deposit:" + kind)
	r.count("deposits_" + kind)
	extra, err := hcosmos.Cdc.MarshalBinaryBare(pv)
	if err != nil {
		panic(err)
	}
	pbz, err := hcosmos.Cdc.MarshalBinaryBare(*proof)
	if err != nil {
		panic(err)
	}
	ph := b.height + int64(d.HeightOff)
	if ph < 0 || ph > 1<<32-1 {
		ctx.Label("deposit:height-out-of-uint32")
		return
	}
	res := r.e.importDeposit(uint32(ph), pbz, extra, b.raw)
	after := r.e.tracked()
	if res.Panic != "" {
		ctx.Label("deposit:impl-panic:" + panicClass(res.Panic))
		r.count("deposit_panics")
	}
	accepted := res.OK()
	if !accepted && !after.sameAs(before) {
		ctx.Failf("op %d: importOuterTransfer failed (%v) but state changed", oi, res.Err)
	}
	r.judgeState(oi, "importOuterTransfer", before, after, []*built{b})
	if !accepted {
		r.count("deposits_rejected")
		ctx.Label("deposit:rejected")
		if kind == "exist" && !r.done[ei] && !d.KpEmpty && !h.AppOther && d.HeightOff == 0 && b.clean && r.implSetOK(b, before, b.content) && b.quorum() && b.height >= before.Height {
			ctx.Label("deposit:prediction-mismatch(clean existence deposit refused)")
			r.count("prediction_mismatch")
			if os.Getenv("PCOSMOS_STRICT") != "" {
				ctx.Failf("strict: clean deposit refused: %v", res.Err)
			}
		}
		return
	}
	r.count("deposits_accepted")
	r.accDepos++
	if kind == "exist" {
		if r.done == nil {
			r.done = map[int]bool{}
		}
		r.done[ei] = true
	}
	ctx.Label("deposit:accepted")
	if len(res.CrossHashes) != 1 {
		ctx.Failf("op %d: accepted deposit did not emit exactly one cross-chain request (got %d)", oi, len(res.CrossHashes))
	}
	// ---- oracle: accepted => header verified the same way AND message proven to EXIST
	hdrOK := r.setOK(b, before) && b.quorum()
	if !hdrOK {
		msg := fmt.Sprintf("op %d (router %s): deposit accepted against a header that is not backed by the trusted validator set with > 2/3 power (setOK=%v tally=%s/%s)",
			oi, r.c.Router, r.setOK(b, before), b.tally, b.total)
		if r.c.Router == "heimdall" && b.copies {
			ctx.Known(keyHeimDup, "%s", msg)
		} else {
			ctx.Failf("%s", msg)
		}
	}
	if b.height < before.Height {
		ctx.Label("deposit:accepted-below-tracked-height")
	}
	proven := kind == "exist" && !d.KpEmpty && !h.AppOther
	if proven {
		// model cross-check: the committed state really holds (key -> message)
		want := pv.Value
		if r.c.Router == "okex" {
			want = ethcrypto.Keccak256(pv.Value)
		}
		if !bytes.Equal(r.store.model[string(r.keys[ei])], want) {
			proven = false
		}
	}
	if proven {
		return
	}
	msg := fmt.Sprintf("op %d (router %s): deposit accepted although the message is not proven to exist in the committed state: proof kind %q, empty key path %v, foreign app hash %v; message %x",
		oi, r.c.Router, kind, d.KpEmpty || kind == "f12", h.AppOther, pv.Value)
	if r.c.Router == "cosmos" && kind == "f12" && !h.AppOther {
		r.knownHits++
		r.count("known:" + keyF12)
		ctx.Known(keyF12, "%s", msg)
		return
	}
	ctx.Failf("%s", msg)
}

func TestC30(t *testing.T) {
	ev.Drive(t, "C30",
		"cases: one router (cosmos legacy/protobuf block versions, okex, polygon-heimdall) in an L1 native world with the side chain registered through side_chain_manager and the trust root installed by syncGenesisHeader; "+
			"2..4 synthetic validator sets (1..10 validators, equal / dominant / arbitrary powers up to 2^56), then 1..8 operations: syncBlockHeader with 1..3 headers or importOuterTransfer with a header and a rootmulti+IAVL proof; "+
			"headers vary height (below/at/above tracked), presented set (trusted or other), next set, per-position votes (commit/nil/absent, forged / other-block / other-chain / wrong-time signatures, foreign signer, copied entries, heimdall validator-index shifts), commit hash (own / random / the stored epoch block hash) and height, entry count, malformed sets; forged unsigned / under-signed / foreign-signed deposit headers at the tracked epoch height ±1; "+
			"deposits vary proof kind (existence, wrong value, other key, absence, absence-shaped message with empty key path), app hash and param height. "+
			"non-trivial: the history contains at least one accepted state advance AND (a header that reaches the tally stage with the signed power within one validator of the 2/3 line, OR a deposit submitted with an absence proof); distinct by JSON encoding of the case",
		genC30, runC30)
}
