package pcosmos

import (
	"testing"

	"verif/harness/ev"
)

func TestSmoke(t *testing.T) {
	for _, r := range []string{"cosmos", "okex", "heimdall"} {
		e := newEnv(r)
		t.Logf("%s: env ok, tracked=%v", r, e.tracked())
	}
}

// directed probe: three equal heimdall validators, one signs, its precommit is listed three times
func TestHeimdallDupProbe(t *testing.T) {
	c := c30Case{Router: "heimdall", GenHeight: 5,
		Sets: [][]valSpec{{{Key: 0, Power: 1}, {Key: 1, Power: 1}, {Key: 2, Power: 1}}, {{Key: 5, Power: 1}}},
		Ops: []opSpec{{Kind: "sync", Headers: []headerSpec{{Rel: 1, Set: -1, Next: 1,
			Votes: []voteSpec{{Flag: "commit"}, {Flag: "commit", CopyOf: 1}, {Flag: "commit", CopyOf: 1}}}}}}}
	defer func() { t.Logf("recovered: %v", recover()) }()
	ctx := &ev.Ctx{ID: "C30"}
	runC30(ctx, c)
	t.Logf("no violation; nontrivial=%v", ctx.IsNonTrivial())
}
