package pcosmos

import "testing"

// TestSmoke: the three routers can be registered through side_chain_manager in the shared world.
func TestSmoke(t *testing.T) {
	for _, r := range []string{"cosmos", "okex", "heimdall"} {
		e := newEnv(r)
		if e.tracked().Present {
			t.Fatalf("%s: fresh chain already has a trust root", r)
		}
	}
}
