package pcosmos

import (
	"bytes"
	"crypto/sha256"
	"encoding/binary"
	"fmt"
	"os"
	"sync"
	"testing"

	ethcrypto "github.com/ethereum/go-ethereum/crypto"
	"github.com/polynetwork/poly/common"
	"github.com/polynetwork/poly/native"
	ccm "github.com/polynetwork/poly/native/service/cross_chain_manager"
	scom "github.com/polynetwork/poly/native/service/cross_chain_manager/common"
	hcosmos "github.com/polynetwork/poly/native/service/header_sync/cosmos"
	"github.com/polynetwork/poly/native/service/utils"
	"pgregory.net/rapid"

	"verif/harness/ev"
	"verif/harness/world"
)

// ---------------------------------------------------------------------------------------------
// C20 (unit for the cosmos and okex routers): a cross-chain message (source chain, cross-chain id)
// is accepted at most once on main net

type c20Msg struct {
	Cross ev.B `json:"cross"`
	Args  ev.B `json:"args,omitempty"`
}

type c20Op struct {
	Kind   string   `json:"kind"`             // import | sync
	Src    int      `json:"src,omitempty"`    // 0: source chain of the case's router; 1: a second registered source chain
	Msg    int      `json:"msg,omitempty"`    // message (cross-chain id) index
	Var    int      `json:"var,omitempty"`    // 0: payload A under key 0; 1: payload A' (other source tx hash) under another key; 2: other args under a third key
	Root   int      `json:"root,omitempty"`   // which committed state (app hash) the proof is made against
	Rel    int      `json:"rel,omitempty"`    // header height = tracked height + Rel
	Set    int      `json:"set,omitempty"`    // 0: the trusted validator set; k>0: set k-1 of the case
	Next   int      `json:"next,omitempty"`   // next validator set of the header
	Flags  []string `json:"flags,omitempty"`  // per position commit|absent|nil (cyclic; empty = all commit)
	Forged bool     `json:"forged,omitempty"` // first present vote carries a forged signature
	Bad    string   `json:"bad,omitempty"`    // "" valid proof | wrongvalue | absent | kpempty
	Later  bool     `json:"later,omitempty"`  // advance to a new block before this operation (else same block as the previous one)
}

type c20Case struct {
	Router string      `json:"router"`
	Other  string      `json:"other"`
	Sets   [][]valSpec `json:"sets"`
	Msgs   []c20Msg    `json:"msgs"`
	Ops    []c20Op     `json:"ops"`
}

func c20ID() string {
	if v := os.Getenv("VERIF_PROP_ID"); v != "" { // development only (helper entry _C20cosmos)
		return v
	}
	return "C20"
}

func genC20(t *rapid.T) c20Case {
	rs := []string{"cosmos", "okex"}
	c := c20Case{Router: rapid.SampledFrom(rs).Draw(t, "router"), Other: rapid.SampledFrom(rs).Draw(t, "other")}
	c.Sets = rapid.SliceOfN(rapid.Custom(genSet), 2, 3).Draw(t, "sets")
	c.Msgs = rapid.SliceOfN(rapid.Custom(func(t *rapid.T) c20Msg {
		return c20Msg{Cross: rapid.SliceOfN(rapid.Byte(), 1, 8).Draw(t, "cross"), Args: rapid.SliceOfN(rapid.Byte(), 0, 24).Draw(t, "args")}
	}), 1, 3).Draw(t, "msgs")
	genOp := rapid.Custom(func(t *rapid.T) c20Op {
		op := c20Op{Kind: "import", Later: rapid.Bool().Draw(t, "later")}
		op.Src = rapid.SampledFrom([]int{0, 0, 0, 1}).Draw(t, "src")
		op.Rel = rapid.SampledFrom([]int{0, 0, 1, 1, 2, 5, -1}).Draw(t, "rel")
		op.Next = rapid.IntRange(0, 2).Draw(t, "next")
		if rapid.IntRange(0, 7).Draw(t, "kind") == 0 {
			op.Kind = "sync"
			if op.Rel <= 0 {
				op.Rel = 1
			}
			return op
		}
		op.Msg = rapid.IntRange(0, 2).Draw(t, "msg")
		op.Var = rapid.SampledFrom([]int{0, 0, 1, 2}).Draw(t, "var")
		op.Root = rapid.IntRange(0, 1).Draw(t, "root")
		if rapid.IntRange(0, 5).Draw(t, "hdrclass") == 0 {
			switch rapid.IntRange(0, 2).Draw(t, "hdrbad") {
			case 0:
				op.Set = rapid.IntRange(1, 3).Draw(t, "set")
			case 1:
				op.Flags = rapid.SliceOfN(rapid.SampledFrom([]string{"commit", "absent", "absent", "nil"}), 1, 6).Draw(t, "flags")
			case 2:
				op.Forged = true
			}
		} else if rapid.IntRange(0, 3).Draw(t, "partial") == 0 {
			op.Flags = rapid.SliceOfN(rapid.SampledFrom([]string{"commit", "commit", "commit", "commit", "absent", "nil"}), 1, 8).Draw(t, "flags")
		}
		if rapid.IntRange(0, 6).Draw(t, "badproof") == 0 {
			op.Bad = rapid.SampledFrom([]string{"wrongvalue", "absent", "kpempty"}).Draw(t, "bad")
		}
		return op
	})
	c.Ops = rapid.SliceOfN(genOp, 2, 10).Draw(t, "ops")
	return c
}

// ---------------------------------------------------------------------------------------------

type c20Slot struct {
	r      *runner
	router string
	stores [2]*storeFix
	keys   [][3][]byte // [msg][variant] store key
	vals   [][3][]byte // [msg][variant] message bytes
	cross  [][]byte    // [msg] cross-chain id
}

func c20Message(m c20Msg, j, v int) (msg, cross []byte) {
	cross = append([]byte{0xC0 + byte(j)}, m.Cross...)
	args := append([]byte(nil), m.Args...)
	if v == 2 {
		args = append(args, 0x01)
	}
	p := &scom.MakeTxParam{
		TxHash:              h32(fmt.Sprintf("source-tx-%d-%d", j, v)),
		CrossChainID:        cross,
		FromContractAddress: ccmcAddr,
		ToChainID:           dstChain,
		ToContractAddress:   bytes.Repeat([]byte{0xdd}, 20),
		Method:              "unlock",
		Args:                args,
	}
	s := common.NewZeroCopySink(nil)
	p.Serialization(s)
	return s.Bytes(), cross
}

func newC20Slot(ctx *ev.Ctx, router string, c c20Case) *c20Slot {
	s := &c20Slot{router: router}
	r := &runner{ctx: ctx, c: c30Case{Router: router, Sets: c.Sets}, rt: routerOf(router), known: map[string]string{}}
	r.e = newEnv(router)
	r.learnSets()
	s.r = r
	name := "ccm"
	if router == "okex" {
		name = "evm"
	}
	var kvs [][2][]byte
	for j, m := range c.Msgs {
		var ks, vs [3][]byte
		for v := 0; v < 3; v++ {
			msg, cross := c20Message(m, j, v)
			var key, val []byte
			if router == "okex" {
				hk := sha256.Sum256([]byte(fmt.Sprintf("slot-%d-%d", j, v)))
				key = append(append([]byte{0x05}, ccmcAddr...), hk[:]...)
				val = ethcrypto.Keccak256(msg)
			} else {
				key = []byte(fmt.Sprintf("req-%d-%d", j, v))
				val = msg
			}
			ks[v], vs[v] = key, msg
			kvs = append(kvs, [2][]byte{key, val})
			if v == 0 {
				s.cross = append(s.cross, cross)
			}
		}
		s.keys = append(s.keys, ks)
		s.vals = append(s.vals, vs)
	}
	s.stores[0] = newStoreFix(name, kvs)
	filler := [2][]byte{[]byte("zzzz-filler"), []byte("x")}
	if router == "okex" {
		filler[0] = append(append([]byte{0x06}, ccmcAddr...), h32("filler")...)
	}
	s.stores[1] = newStoreFix(name, append(append([][2][]byte{}, kvs...), filler))
	if bytes.Equal(s.stores[0].root, s.stores[1].root) {
		panic("harness: the two committed states have the same app hash")
	}
	return s
}

var (
	c20Mu    sync.Mutex
	c20Table = map[string]int{}
)

func c20Count(router, what string) {
	c20Mu.Lock()
	c20Table[router+":"+what]++
	c20Mu.Unlock()
}

func countPrefix(dump [][2][]byte, prefix []byte) int {
	n := 0
	for _, kv := range dump {
		if len(kv[0]) > 1 && bytes.HasPrefix(kv[0][1:], prefix) {
			n++
		}
	}
	return n
}

func le8(v uint64) []byte { var b [8]byte; binary.LittleEndian.PutUint64(b[:], v); return b[:] }

func runC20(ctx *ev.Ctx, c c20Case) {
	ok := func(r string) bool { return r == "cosmos" || r == "okex" }
	if !ok(c.Router) || !ok(c.Other) || len(c.Sets) < 2 || len(c.Msgs) == 0 || len(c.Msgs) > 8 {
		ctx.Label("malformed-case")
		return
	}
	for _, s := range c.Sets {
		sum, seen := int64(0), map[int]bool{}
		for _, v := range s {
			if v.Power <= 0 || v.Power > maxTotalPower || seen[v.Key] || v.Key < 0 || v.Key >= 800 {
				ctx.Label("malformed-case")
				return
			}
			seen[v.Key] = true
			sum += v.Power
		}
		if len(s) == 0 || len(s) > 64 || sum > maxTotalPower {
			ctx.Label("malformed-case")
			return
		}
	}
	ctx.Label("router:" + c.Router)
	reserveWorld(2)
	slots := []*c20Slot{newC20Slot(ctx, c.Router, c), newC20Slot(ctx, c.Other, c)}
	w := slots[0].r.e.w
	// trust roots
	for _, s := range slots {
		g := s.r.build(headerSpec{Rel: 0, Set: 1, Next: 0, Ver: 10}, tracked{Height: 5, ChainID: "chain-A"})
		if res := s.r.e.syncGenesis(g.raw, []common.Address{w.Operator()}); !res.OK() {
			ctx.Failf("harness: syncGenesisHeader failed: %v", res.Err)
		}
	}
	type id struct{ slot, msg int }
	done := map[id]bool{}
	accepted := map[id][3]int{} // how the accepted import looked: var, root, header height (+1 so that zero = none)
	reqPrefix := append(append(append([]byte{}, utils.CrossChainManagerContractAddress[:]...), []byte("request")...), le8(dstChain)...)
	donePrefix := func(s *c20Slot) []byte {
		return append(append(append([]byte{}, utils.CrossChainManagerContractAddress[:]...), []byte("doneTx")...), le8(s.r.e.chain)...)
	}
	// CheckDoneTx (exported by cross_chain_manager/common) must agree with the model for every id
	agree := func(oi int, svc *native.NativeService, where string) {
		for si, s := range slots {
			for j := range c.Msgs {
				marked := scom.CheckDoneTx(svc, s.cross[j], s.r.e.chain) != nil
				if marked != done[id{si, j}] {
					ctx.Failf("op %d (%s): CheckDoneTx(chain %d, cross id %x) says done=%v, model says %v", oi, where, s.r.e.chain, s.cross[j], marked, done[id{si, j}])
				}
			}
		}
	}
	nontrivial := false
	for oi, op := range c.Ops {
		if op.Src < 0 || op.Src > 1 {
			ctx.Label("malformed-case")
			continue
		}
		s := slots[op.Src]
		if op.Later {
			w.NextBlock()
		}
		before := s.r.e.tracked()
		h := headerSpec{Rel: op.Rel, Set: op.Set - 1, Next: op.Next, Ver: 10}
		for _, f := range op.Flags {
			if f != "commit" && f != "absent" && f != "nil" {
				f = "commit"
			}
			h.Votes = append(h.Votes, voteSpec{Flag: f})
		}
		if op.Forged {
			if len(h.Votes) == 0 {
				h.Votes = []voteSpec{{Flag: "commit"}}
			}
			h.Votes[0] = voteSpec{Flag: "commit", Sig: "forged"}
		}
		if op.Kind == "sync" {
			b := s.r.build(h, before)
			dumpBefore := w.Dump()
			res := s.r.e.syncHeaders([][]byte{b.raw}) // advances the block
			dumpAfter := w.Dump()
			if countPrefix(dumpAfter, reqPrefix) != countPrefix(dumpBefore, reqPrefix) {
				ctx.Failf("op %d: a header sync added a cross-chain request", oi)
			}
			agree(oi, w.Service(), "after header sync")
			if res.OK() {
				c20Count(s.router, "header_syncs_accepted")
			}
			continue
		}
		if op.Kind != "import" || op.Msg < 0 || op.Var < 0 || op.Var > 2 || op.Root < 0 || op.Root > 1 {
			ctx.Label("malformed-case")
			continue
		}
		j := op.Msg % len(c.Msgs)
		me := id{op.Src, j}
		st := s.stores[op.Root]
		h.appHash = st.root
		b := s.r.build(h, before)
		var pv proofValue
		key := s.keys[j][op.Var]
		proof, _ := st.prove(key)
		pv.Kp, pv.Value = st.keyPath(key), s.vals[j][op.Var]
		switch op.Bad {
		case "wrongvalue":
			pv.Value = s.vals[j][(op.Var+2)%3]
			if op.Var == 0 { // variants 0 and 1 differ, 2 differs from both
				pv.Value = s.vals[j][2]
			}
		case "absent":
			k := append(append([]byte{}, key...), []byte("-nope")...)
			if s.router == "okex" {
				k = append(append([]byte{0x05}, ccmcAddr...), h32(string(key)+"-nope")...)
			}
			proof, _ = st.prove(k)
			pv.Kp = st.keyPath(k)
		case "kpempty":
			pv.Kp = ""
		case "":
		default:
			ctx.Label("malformed-case")
			continue
		}
		if b.height < 0 || b.height > 1<<32-1 {
			ctx.Label("malformed-case")
			continue
		}
		extra, err := hcosmos.Cdc.MarshalBinaryBare(pv)
		if err != nil {
			panic(err)
		}
		pbz, err := hcosmos.Cdc.MarshalBinaryBare(*proof)
		if err != nil {
			panic(err)
		}
		relayer := world.Acct(11)
		sink := common.NewZeroCopySink(nil)
		(&scom.EntranceParam{SourceChainID: s.r.e.chain, Height: uint32(b.height), Proof: pbz, RelayerAddress: relayer.Address[:], Extra: extra,
			HeaderOrCrossChainMsg: b.raw}).Serialization(sink)
		args := sink.Bytes()

		// ---- model
		valid := op.Bad == "" && b.clean && s.r.implSetOK(b, before, b.content) && b.quorum() && b.height >= before.Height
		expect := valid && !done[me]
		replay := done[me]
		if replay && valid {
			prev := accepted[me]
			if prev != [3]int{op.Var, op.Root, int(b.height) + 1} {
				nontrivial = true
				ctx.Label("replay:different-valid-proof")
				c20Count(s.router, "replays_with_different_valid_proof")
			} else {
				ctx.Label("replay:exact")
				c20Count(s.router, "replays_exact")
			}
			if slots[1-op.Src] != nil && done[id{1 - op.Src, j}] {
				ctx.Label("replay:id-also-done-on-other-chain")
			}
		}
		if !replay && done[id{1 - op.Src, j}] {
			ctx.Label("same-cross-id-from-other-source-chain")
			c20Count(s.router, "imports_of_id_done_on_other_chain")
		}
		if !op.Later && oi > 0 {
			ctx.Label("same-block-as-previous-op")
		}

		dumpBefore := w.Dump()
		res := w.Invoke(utils.CrossChainManagerContractAddress, scom.IMPORT_OUTER_TRANSFER_NAME, args, []common.Address{relayer.Address})
		dumpAfter := w.Dump()
		got := res.OK()
		c20Count(s.router, "imports")
		switch {
		case got && replay:
			ctx.Failf("op %d (%s): message (source chain %d, cross id %x) was accepted a second time (var %d root %d height %d; first accepted as %v)",
				oi, s.router, s.r.e.chain, s.cross[j], op.Var, op.Root, b.height, accepted[me])
		case got && !valid:
			ctx.Failf("op %d (%s): an import the model classifies as invalid was accepted (bad=%q clean=%v setOK=%v quorum=%v height %d tracked %d)",
				oi, s.router, op.Bad, b.clean, s.r.implSetOK(b, before, b.content), b.quorum(), b.height, before.Height)
		case !got && expect:
			ctx.Failf("op %d (%s): a valid, not yet executed message (source chain %d, cross id %x) was refused: %v", oi, s.router, s.r.e.chain, s.cross[j], res.Err)
		}
		if got {
			done[me] = true
			accepted[me] = [3]int{op.Var, op.Root, int(b.height) + 1}
			c20Count(s.router, "imports_accepted")
			ctx.Label("import:accepted")
			if n := countPrefix(dumpAfter, reqPrefix) - countPrefix(dumpBefore, reqPrefix); n != 1 || len(res.CrossHashes) != 1 {
				ctx.Failf("op %d (%s): accepted import added %d request records and %d cross hashes (want exactly one)", oi, s.router, n, len(res.CrossHashes))
			}
			if n := countPrefix(dumpAfter, donePrefix(s)) - countPrefix(dumpBefore, donePrefix(s)); n != 1 {
				ctx.Failf("op %d (%s): accepted import added %d done markers for chain %d (want exactly one)", oi, s.router, n, s.r.e.chain)
			}
			other := slots[1-op.Src]
			if countPrefix(dumpAfter, donePrefix(other)) != countPrefix(dumpBefore, donePrefix(other)) {
				ctx.Failf("op %d (%s): import from chain %d changed the done markers of chain %d", oi, s.router, s.r.e.chain, other.r.e.chain)
			}
		} else {
			if replay {
				c20Count(s.router, "replays_rejected")
				ctx.Label("import:replay-rejected")
			} else {
				c20Count(s.router, "invalid_rejected")
				ctx.Label("import:invalid-rejected")
			}
			if d := world.DiffDump(dumpBefore, dumpAfter); d != "" {
				ctx.Failf("op %d (%s): rejected import changed state: %s", oi, s.router, d)
			}
			// failure-path probe: run the router's handler directly on the transaction layer and look
			// at the done marker BEFORE the rollback that normally hides what a failed call wrote
			if handler, herr := ccm.GetChainHandler(routerID[s.router]); herr == nil {
				w.Cache.Reset()
				tx := w.MakeTx(utils.CrossChainManagerContractAddress, scom.IMPORT_OUTER_TRANSFER_NAME, args, []common.Address{relayer.Address})
				svc, nerr := native.NewNativeService(w.Cache, tx, w.Time, w.Height, w.BlockHash, w.ChainID, args, false)
				if nerr != nil {
					panic(nerr)
				}
				var perr error
				if p := ev.Catch(func() { _, perr = handler.MakeDepositProposal(svc) }); p == "" && perr != nil {
					agree(oi, svc, "inside the failed handler call, before rollback")
					c20Count(s.router, "failure_path_probes")
				}
				w.Cache.Reset()
			}
		}
		agree(oi, w.Service(), "after import")
	}
	if nontrivial {
		ctx.NonTrivial()
	}
}

func TestC20Cosmos(t *testing.T) {
	id := c20ID()
	oldNet, oldPer := envNetID, casesPerWorld
	envNetID, casesPerWorld = 1, 100 // MAIN NET world; smaller worlds keep the full-state dumps cheap
	defer func() {
		envNetID, casesPerWorld = oldNet, oldPer
		c20Mu.Lock()
		defer c20Mu.Unlock()
		tab := map[string]int{}
		for k, v := range c20Table {
			tab[k] = v
		}
		ev.Get(id).Extra("routers", tab)
	}()
	ev.Drive(t, id,
		"unit for the cosmos and okex routers on a MAIN-NET L1 world: two registered source chains (routers drawn from cosmos/okex) with installed trust roots, 1..3 messages (cross-chain ids) each committed in 3 variants (two keys / source tx hashes, other args) in two rootmulti+IAVL states (two app hashes); "+
			"2..10 operations through the real importOuterTransfer entrance (header + existence proof; variant, state, header height, presented/next validator set, vote flags vary; some imports invalid: wrong set, no quorum, forged signature, wrong value, absence proof, empty key path), in the same or a later block, interleaved with syncBlockHeader. "+
			"oracle: model done ⊆ (source chain, cross id): accepted iff valid and not done; after acceptance exactly one request record and exactly one done marker were added and CheckDoneTx agrees with the model for every id of both chains; a rejected import leaves the full dump byte-identical and its handler wrote no done marker even before rollback. "+
			"non-trivial: an accepted import followed later by a replay of the same (source chain, cross id) with a DIFFERENT valid proof (other key/payload, other app hash or other header height); distinct by JSON encoding of the case",
		genC20, runC20)
}
