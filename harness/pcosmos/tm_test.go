package pcosmos

import (
	"bytes"
	"crypto/sha256"
	"crypto/sha512"
	"fmt"
	"math/big"
	"sort"
	"sync"
	"time"

	hcosmos "github.com/polynetwork/poly/native/service/header_sync/cosmos"
	hokex "github.com/polynetwork/poly/native/service/header_sync/okex"
	hpoly "github.com/polynetwork/poly/native/service/header_sync/polygon"
	ptypes "github.com/polynetwork/poly/native/service/header_sync/polygon/types"
	psecp "github.com/polynetwork/poly/native/service/header_sync/polygon/types/secp256k1"

	tm34crypto "github.com/switcheo/tendermint/crypto"
	tm34ed "github.com/switcheo/tendermint/crypto/ed25519"
	tm34secp "github.com/switcheo/tendermint/crypto/secp256k1"
	tm34bytes "github.com/switcheo/tendermint/libs/bytes"
	tm34proto "github.com/switcheo/tendermint/proto/tendermint/types"
	tm34version "github.com/switcheo/tendermint/proto/tendermint/version"
	tm34types "github.com/switcheo/tendermint/types"
	"github.com/tendermint/tendermint/crypto"
	"github.com/tendermint/tendermint/crypto/ed25519"
	"github.com/tendermint/tendermint/crypto/secp256k1"
	"github.com/tendermint/tendermint/types"
	"github.com/tendermint/tendermint/version"
)

// ---------------------------------------------------------------------------------------------
// deterministic validator keys

var (
	keyMu   sync.Mutex
	tmKeys  = map[int]crypto.PrivKey{}
	heiKeys = map[int]psecp.PrivKeySecp256k1{}
)

// tmKey: key pool for cosmos/okex validators: ed25519, every fourth key secp256k1.
func tmKey(i int) crypto.PrivKey {
	keyMu.Lock()
	defer keyMu.Unlock()
	if k, ok := tmKeys[i]; ok {
		return k
	}
	var k crypto.PrivKey
	secret := []byte(fmt.Sprintf("verif-tm-validator-%d", i))
	if i%4 == 3 {
		k = secp256k1.GenPrivKeySecp256k1(secret)
	} else {
		k = ed25519.GenPrivKeyFromSecret(secret)
	}
	tmKeys[i] = k
	return k
}

func heiKey(i int) psecp.PrivKeySecp256k1 {
	keyMu.Lock()
	defer keyMu.Unlock()
	if k, ok := heiKeys[i]; ok {
		return k
	}
	k := psecp.GenPrivKeySecp256k1([]byte(fmt.Sprintf("verif-heimdall-validator-%d", i)))
	heiKeys[i] = k
	return k
}

// ---------------------------------------------------------------------------------------------
// case-level data

type valSpec struct {
	Key   int   `json:"k"`
	Power int64 `json:"p"`
}

type voteSpec struct {
	Flag   string `json:"f"`            // commit | nil | absent
	Sig    string `json:"s,omitempty"`  // "" (honest) | forged | otherblock | otherchain | badtime | prevote (heimdall)
	Signer int    `json:"by,omitempty"` // 0: the validator of this position; k>0: validator of position+k; -1: a key outside the set
	CopyOf int    `json:"cp,omitempty"` // k>0: entry is a verbatim copy of entry (k-1) mod n
	Index  int    `json:"ix,omitempty"` // heimdall: ValidatorIndex = position + Index (mod n)
}

type headerSpec struct {
	Rel      int        `json:"rel"`               // height = tracked height + Rel
	Set      int        `json:"set"`               // -1: the set whose hash is currently trusted; else index (mod number of sets)
	Next     int        `json:"next"`              // index of the next validator set; -2: an unknown hash
	Ver      int        `json:"ver,omitempty"`     // cosmos: block version (10 legacy amino, 11 protobuf); 0 = 10
	VH       string     `json:"vh,omitempty"`      // header.ValidatorsHash: "" hash of presented set | other | fmt (other version's format)
	Chain    string     `json:"chain,omitempty"`   // header chain id: "" tracked | other
	Votes    []voteSpec `json:"votes,omitempty"`   // per position (cyclic); empty = everybody commits honestly
	CHash    string     `json:"chash,omitempty"`   // commit block hash: "" header hash | other | epoch (the stored epoch block hash)
	CHeight  int        `json:"cheight,omitempty"` // commit height = header height + CHeight
	SigDelta int        `json:"sigd,omitempty"`    // -1 drop the last entry, +1 append an absent entry
	Shuffle  int        `json:"shuf,omitempty"`    // rotate the presented validator list
	BadSet   string     `json:"bad,omitempty"`     // "" | dup (first validator listed twice) | zero (extra zero-power validator)
	AppOther bool       `json:"appother,omitempty"`
	appHash  []byte     // set by deposit ops
	// genesis payload overrides (TestC19): stored fields that are malformed but accepted by the install path
	nvhRaw   []byte
	nvhSet   bool
	vhEmpty  bool
	chainRaw *string
}

// setContent is the canonical content of a validator set: sorted (key,power) pairs.
func setContent(vs []valSpec) string {
	c := append([]valSpec(nil), vs...)
	sort.Slice(c, func(i, j int) bool { return c[i].Key < c[j].Key })
	var b bytes.Buffer
	for _, v := range c {
		fmt.Fprintf(&b, "%d:%d,", v.Key, v.Power)
	}
	return b.String()
}

// ---------------------------------------------------------------------------------------------
// built header + the construction facts the oracle uses

type built struct {
	raw      []byte
	height   int64
	nvh      []byte
	sameVals bool     // ValidatorsHash == NextValidatorsHash (sync skips such headers)
	content  string   // canonical content of the presented set ("" if malformed)
	total    *big.Int // total power of the presented set
	tally    *big.Int // power of the distinct validators of the presented set that really signed a precommit for this block
	near     bool     // one validator's vote flips the 2/3 decision
	clean    bool     // nothing but (set, height, tally) can make the implementation refuse it
	copies   bool     // contains copied entries
	foreign  bool     // header chain id differs from the tracked one
	appHash  []byte
	hdrHash  []byte
	ver      int
	nentries int
}

func (b *built) quorum() bool {
	l := new(big.Int).Mul(b.tally, big.NewInt(3))
	r := new(big.Int).Mul(b.total, big.NewInt(2))
	return l.Cmp(r) > 0
}

func fixedTime(h int64, i int) time.Time {
	return time.Unix(1600000000+h*10+int64(i), 0).UTC()
}

func h32(s string) []byte { x := sha256.Sum256([]byte(s)); return x[:] }

func forgedSig(s string) []byte { x := sha512.Sum512([]byte(s)); return x[:] }

type router interface {
	// hash of a validator set in the format of block version ver
	setHash(vs []valSpec, ver int) []byte
	// position order: which validator the implementation associates with commit position i
	order(vs []valSpec, ver int) []valSpec
	// build and encode
	encode(p *plan) []byte
}

// plan is the router independent description of one header+commit+validator list.
type plan struct {
	ver        int
	chainID    string // header chain id
	signChain  string // the chain id honest validators of this light client sign with
	height     int64
	vh, nvh    []byte
	appHash    []byte
	presented  []valSpec
	pos        []valSpec // position -> validator
	cheight    int64
	chashOther bool
	chashRaw   []byte     // commit names this block hash (e.g. the stored epoch block hash) instead of the header's
	votes      []voteSpec // resolved per position (len = number of entries)
	hdrHash    []byte     // out
}

func genesisHeight(g int) int64 { return int64(g) }

// ---------------------------------------------------------------------------------------------
// tendermint 0.33 (cosmos legacy, okex) and 0.34 (cosmos block version >= 11)

type tmRouter struct{ okex bool }

func tm33Vals(vs []valSpec) []*types.Validator {
	out := make([]*types.Validator, len(vs))
	for i, v := range vs {
		pk := tmKey(v.Key).PubKey()
		out[i] = &types.Validator{Address: pk.Address(), PubKey: pk, VotingPower: v.Power}
	}
	return out
}

func tm34Pub(k int) tm34crypto.PubKey {
	switch pk := tmKey(k).PubKey().(type) {
	case ed25519.PubKeyEd25519:
		return tm34ed.PubKey(append([]byte(nil), pk[:]...))
	case secp256k1.PubKeySecp256k1:
		return tm34secp.PubKey(append([]byte(nil), pk[:]...))
	}
	panic("key type")
}

func (r tmRouter) setHash(vs []valSpec, ver int) []byte {
	if ver >= 11 {
		vals := make([]*tm34types.Validator, len(vs))
		for i, v := range vs {
			vals[i] = tm34types.NewValidator(tm34Pub(v.Key), v.Power)
		}
		return tm34types.NewValidatorSet(vals).Hash()
	}
	return types.NewValidatorSet(tm33Vals(vs)).Hash()
}

func (r tmRouter) order(vs []valSpec, ver int) []valSpec {
	c := append([]valSpec(nil), vs...)
	addr := func(v valSpec) []byte { return tmKey(v.Key).PubKey().Address() }
	if ver >= 11 {
		// tendermint 0.34 order: voting power descending, then address ascending
		sort.SliceStable(c, func(i, j int) bool {
			if c[i].Power != c[j].Power {
				return c[i].Power > c[j].Power
			}
			return bytes.Compare(addr(c[i]), addr(c[j])) < 0
		})
		return c
	}
	sort.SliceStable(c, func(i, j int) bool { return bytes.Compare(addr(c[i]), addr(c[j])) < 0 })
	return c
}

func (r tmRouter) encode(p *plan) []byte {
	hdr := types.Header{
		Version: version.Consensus{Block: version.Protocol(p.ver), App: 1},
		ChainID: p.chainID, Height: p.height, Time: fixedTime(p.height, 0),
		LastBlockID:    types.BlockID{Hash: h32("last"), PartsHeader: types.PartSetHeader{Total: 1, Hash: h32("lastparts")}},
		LastCommitHash: h32("lc"), DataHash: h32("data"), ValidatorsHash: p.vh, NextValidatorsHash: p.nvh,
		ConsensusHash: h32("cons"), AppHash: p.appHash, LastResultsHash: h32("res"), EvidenceHash: h32("evi"),
		ProposerAddress: tmKey(p.pos[0].Key).PubKey().Address(),
	}
	if p.ver >= 11 {
		h34 := tm34types.Header{
			Version: tm34version.Consensus{Block: uint64(p.ver), App: 1},
			ChainID: hdr.ChainID, Height: hdr.Height, Time: hdr.Time,
			LastBlockID: tm34types.BlockID{Hash: tm34bytes.HexBytes(hdr.LastBlockID.Hash),
				PartSetHeader: tm34types.PartSetHeader{Total: 1, Hash: tm34bytes.HexBytes(hdr.LastBlockID.PartsHeader.Hash)}},
			LastCommitHash: tm34bytes.HexBytes(hdr.LastCommitHash), DataHash: tm34bytes.HexBytes(hdr.DataHash),
			ValidatorsHash: tm34bytes.HexBytes(hdr.ValidatorsHash), NextValidatorsHash: tm34bytes.HexBytes(hdr.NextValidatorsHash),
			ConsensusHash: tm34bytes.HexBytes(hdr.ConsensusHash), AppHash: tm34bytes.HexBytes(hdr.AppHash),
			LastResultsHash: tm34bytes.HexBytes(hdr.LastResultsHash), EvidenceHash: tm34bytes.HexBytes(hdr.EvidenceHash),
			ProposerAddress: tm34bytes.HexBytes(hdr.ProposerAddress),
		}
		p.hdrHash = h34.Hash()
	} else {
		p.hdrHash = hdr.Hash()
	}
	chash := p.hdrHash
	if p.chashOther {
		chash = h32(fmt.Sprintf("otherblock-%d", p.height))
	}
	if p.chashRaw != nil {
		chash = p.chashRaw
	}
	bid := types.BlockID{Hash: chash, PartsHeader: types.PartSetHeader{Total: 1, Hash: h32("parts")}}
	signBytes := func(chain string, b types.BlockID, ts time.Time) []byte {
		if p.ver >= 11 {
			v := &tm34proto.Vote{Type: tm34proto.PrecommitType, Height: p.cheight, Round: 1, Timestamp: ts}
			if len(b.Hash) != 0 {
				v.BlockID = tm34proto.BlockID{Hash: b.Hash, PartSetHeader: tm34proto.PartSetHeader{Total: uint32(b.PartsHeader.Total), Hash: b.PartsHeader.Hash}}
			}
			return tm34types.VoteSignBytes(chain, v)
		}
		v := &types.Vote{Type: types.PrecommitType, Height: p.cheight, Round: 1, BlockID: b, Timestamp: ts}
		return v.SignBytes(chain)
	}
	sigs := make([]types.CommitSig, len(p.votes))
	for i, vs := range p.votes {
		if vs.Flag == "absent" {
			sigs[i] = types.CommitSig{BlockIDFlag: types.BlockIDFlagAbsent}
			continue
		}
		ts := fixedTime(p.height, i+1)
		cs := types.CommitSig{BlockIDFlag: types.BlockIDFlagCommit, Timestamp: ts}
		b := bid
		if vs.Flag == "nil" {
			cs.BlockIDFlag = types.BlockIDFlagNil
			b = types.BlockID{}
		}
		if i < len(p.pos) {
			cs.ValidatorAddress = tmKey(p.pos[i].Key).PubKey().Address()
		} else {
			cs.ValidatorAddress = tmKey(signerKey(p, i, vs)).PubKey().Address()
		}
		key := tmKey(signerKey(p, i, vs))
		chain := p.signChain
		switch vs.Sig {
		case "otherblock":
			b = types.BlockID{Hash: h32("some other block"), PartsHeader: bid.PartsHeader}
		case "otherchain":
			chain = "chain-X"
		case "badtime":
			ts = ts.Add(time.Second)
		}
		if vs.Sig == "forged" {
			cs.Signature = forgedSig(fmt.Sprintf("forged-%d-%d", p.height, i))
		} else {
			s, err := key.Sign(signBytes(chain, b, ts))
			if err != nil {
				panic(err)
			}
			cs.Signature = s
		}
		sigs[i] = cs
	}
	for i, vs := range p.votes {
		if vs.CopyOf > 0 {
			sigs[i] = sigs[(vs.CopyOf-1)%len(sigs)]
		}
	}
	commit := types.NewCommit(p.cheight, 1, bid, sigs)
	vals := tm33Vals(p.presented)
	if r.okex {
		bz, err := hokex.NewCDC().MarshalBinaryBare(hokex.CosmosHeader{Header: hdr, Commit: commit, Valsets: vals})
		if err != nil {
			panic(err)
		}
		return bz
	}
	bz, err := hcosmos.Cdc.MarshalBinaryBare(hcosmos.CosmosHeader{Header: hdr, Commit: commit, Valsets: vals})
	if err != nil {
		panic(err)
	}
	return bz
}

// signerKey resolves which key signs entry i.
func signerKey(p *plan, i int, vs voteSpec) int {
	n := len(p.pos)
	switch {
	case vs.Signer < 0:
		return 900 + i
	case vs.Signer > 0:
		return p.pos[(i+vs.Signer)%n].Key
	}
	return p.pos[i%n].Key
}

// ---------------------------------------------------------------------------------------------
// heimdall (peppermint: tendermint 0.32 layout, secp256k1 validators)

type heiRouter struct{}

func heiVals(vs []valSpec) []*ptypes.Validator {
	out := make([]*ptypes.Validator, len(vs))
	for i, v := range vs {
		out[i] = ptypes.NewValidator(heiKey(v.Key).PubKey(), v.Power)
	}
	return out
}

// setHash is the harness's OWN computation of the heimdall (peppermint) validator-set hash, written from
// the format definition and sharing no code with /repo: validators in ascending address order, leaf =
// amino-bare{1: PubKey (registered interface: 4 prefix bytes of "tendermint/PubKeySecp256k1", then the
// 65-byte key as length-prefixed bytes), 2: VotingPower (uvarint, omitted when zero)}, RFC-6962 style
// SHA-256 merkle tree (leaf prefix 0x00, inner prefix 0x01, split at the largest power of two < n).
func (heiRouter) setHash(vs []valSpec, ver int) []byte {
	ordered := heiRouter{}.order(vs, ver)
	leaves := make([][]byte, len(ordered))
	for i, v := range ordered {
		pk := heiKey(v.Key).PubKey().(psecp.PubKeySecp256k1)
		leaves[i] = refHeimdallValidatorBytes(pk[:], v.Power)
	}
	return refMerkle(leaves)
}

func refUvarint(v uint64) []byte {
	var o []byte
	for v >= 0x80 {
		o = append(o, byte(v)|0x80)
		v >>= 7
	}
	return append(o, byte(v))
}

// refAminoPrefix: sha256(name), drop leading zero bytes, skip 3 disambiguation bytes, drop leading zero
// bytes, take 4 prefix bytes.
func refAminoPrefix(name string) []byte {
	h := sha256.Sum256([]byte(name))
	bz := h[:]
	for bz[0] == 0 {
		bz = bz[1:]
	}
	bz = bz[3:]
	for bz[0] == 0 {
		bz = bz[1:]
	}
	return bz[:4]
}

var refSecpPrefix = refAminoPrefix("tendermint/PubKeySecp256k1")

func refHeimdallValidatorBytes(pub []byte, power int64) []byte {
	inner := append(append(append([]byte{}, refSecpPrefix...), refUvarint(uint64(len(pub)))...), pub...)
	out := append([]byte{0x0A}, refUvarint(uint64(len(inner)))...)
	out = append(out, inner...)
	if power != 0 {
		out = append(append(out, 0x10), refUvarint(uint64(power))...)
	}
	return out
}

func refMerkle(items [][]byte) []byte {
	switch len(items) {
	case 0:
		return nil
	case 1:
		h := sha256.Sum256(append([]byte{0x00}, items[0]...))
		return h[:]
	}
	k := 1
	for k*2 < len(items) {
		k *= 2
	}
	l, r := refMerkle(items[:k]), refMerkle(items[k:])
	h := sha256.Sum256(append(append([]byte{0x01}, l...), r...))
	return h[:]
}

// implSetHash is what the code under test computes for the same set (used ONLY for the differential
// cross-check in learnSets, never as an expected value).
func implHeimdallSetHash(vs []valSpec) []byte {
	return ptypes.NewValidatorSet(heiVals(vs)).Hash()
}

func (heiRouter) order(vs []valSpec, ver int) []valSpec {
	c := append([]valSpec(nil), vs...)
	addr := func(v valSpec) []byte { return heiKey(v.Key).PubKey().Address() }
	sort.SliceStable(c, func(i, j int) bool { return bytes.Compare(addr(c[i]), addr(c[j])) < 0 })
	return c
}

func (heiRouter) encode(p *plan) []byte {
	hdr := ptypes.Header{
		Version: version.Consensus{Block: 10, App: 1}, ChainID: p.chainID, Height: p.height, Time: fixedTime(p.height, 0),
		NumTxs: 1, TotalTxs: p.height,
		LastBlockID:    ptypes.BlockID{Hash: h32("last"), PartsHeader: ptypes.PartSetHeader{Total: 1, Hash: h32("lastparts")}},
		LastCommitHash: h32("lc"), DataHash: h32("data"), ValidatorsHash: p.vh, NextValidatorsHash: p.nvh,
		ConsensusHash: h32("cons"), AppHash: p.appHash, LastResultsHash: h32("res"), EvidenceHash: h32("evi"),
		ProposerAddress: heiKey(p.pos[0].Key).PubKey().Address(),
	}
	p.hdrHash = hdr.Hash()
	chash := p.hdrHash
	if p.chashOther {
		chash = h32(fmt.Sprintf("otherblock-%d", p.height))
	}
	if p.chashRaw != nil {
		chash = p.chashRaw
	}
	bid := ptypes.BlockID{Hash: chash, PartsHeader: ptypes.PartSetHeader{Total: 1, Hash: h32("parts")}}
	n := len(p.pos)
	pre := make([]*ptypes.CommitSig, len(p.votes))
	for i, vs := range p.votes {
		if vs.Flag == "absent" {
			continue
		}
		ts := fixedTime(p.height, i+1)
		e := &ptypes.CommitSig{Type: ptypes.PrecommitType, Height: p.cheight, Round: 1, BlockID: bid, Timestamp: ts,
			ValidatorIndex: (i + vs.Index) % n}
		if vs.Flag == "nil" {
			e.BlockID = ptypes.BlockID{}
		}
		key := heiKey(signerKey(p, i, vs))
		e.ValidatorAddress = key.PubKey().Address()
		signed := ptypes.Vote(*e)
		chain := p.signChain
		switch vs.Sig {
		case "otherblock":
			signed.BlockID = ptypes.BlockID{Hash: h32("some other block"), PartsHeader: bid.PartsHeader}
		case "otherchain":
			chain = "chain-X"
		case "badtime":
			signed.Timestamp = ts.Add(time.Second)
		case "prevote":
			e.Type = ptypes.PrevoteType
			signed.Type = ptypes.PrevoteType
		}
		if vs.Sig == "forged" {
			e.Signature = append(forgedSig(fmt.Sprintf("forged-%d-%d", p.height, i)), 0)
		} else {
			s, err := key.Sign(signed.SignBytes(chain))
			if err != nil {
				panic(err)
			}
			e.Signature = s
		}
		pre[i] = e
	}
	for i, vs := range p.votes {
		if vs.CopyOf > 0 {
			if src := pre[(vs.CopyOf-1)%len(pre)]; src != nil {
				c := *src
				pre[i] = &c
			} else {
				pre[i] = nil
			}
		}
	}
	commit := &ptypes.Commit{BlockID: bid, Precommits: pre}
	bz, err := ptypes.NewCDC().MarshalBinaryBare(hpoly.CosmosHeader{Header: hdr, Commit: commit, Valsets: heiVals(p.presented)})
	if err != nil {
		panic(err)
	}
	return bz
}

func routerOf(name string) router {
	switch name {
	case "cosmos":
		return tmRouter{}
	case "okex":
		return tmRouter{okex: true}
	case "heimdall":
		return heiRouter{}
	}
	panic("router " + name)
}
