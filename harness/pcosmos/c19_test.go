package pcosmos

import (
	"bytes"
	"os"
	"sync"
	"testing"

	"github.com/polynetwork/poly/common"
	"github.com/polynetwork/poly/common/verifclock"
	"pgregory.net/rapid"

	"verif/harness/ev"
	"verif/harness/world"
)

// ---------------------------------------------------------------------------------------------
// C19 (unit for the Tendermint-family routers): a side chain's trust root is installed at most once

type c19Op struct {
	Kind string      `json:"kind"`          // install | sync
	Slot int         `json:"slot"`          // 0,1: two chain ids of the case's router; 2: a chain id of another router of the family
	G    int         `json:"g,omitempty"`   // install: genesis variant (height / next validator set / chain-id string / block version)
	By   string      `json:"by,omitempty"`  // install: "" operator | validator (one consensus validator) | outsider | nobody
	Mal  string      `json:"mal,omitempty"` // install: stored field malformed but accepted by the install path: nvh-empty | nvh-20 | nvh-33 | vh-empty (empty stored block hash) | chain-empty | chain-long
	Hdr  *headerSpec `json:"hdr,omitempty"` // sync: one header built relative to the tracked state
}

type c19Case struct {
	Router string      `json:"router"`
	Other  string      `json:"other"` // router of slot 2
	Sets   [][]valSpec `json:"sets"`
	Ops    []c19Op     `json:"ops"`
}

func c19ID() string {
	if v := os.Getenv("VERIF_PROP_ID"); v != "" { // development only: lets the helper entry _C19cosmos collect shard files
		return v
	}
	return "C19"
}

var c19Routers = []string{"cosmos", "okex", "heimdall"}

func genC19(t *rapid.T) c19Case {
	c := c19Case{Router: rapid.SampledFrom(c19Routers).Draw(t, "router"), Other: rapid.SampledFrom(c19Routers).Draw(t, "other")}
	c.Sets = rapid.SliceOfN(rapid.Custom(genSet), 2, 3).Draw(t, "sets")
	genOp := rapid.Custom(func(t *rapid.T) c19Op {
		slot := rapid.SampledFrom([]int{0, 0, 0, 0, 1, 1, 2}).Draw(t, "slot")
		if rapid.IntRange(0, 9).Draw(t, "kind") < 4 {
			router := c.Router
			if slot == 2 {
				router = c.Other
			}
			h := genHeader(router, 10, false).Draw(t, "hdr")
			if rapid.IntRange(0, 2).Draw(t, "plain") != 0 {
				// mostly plain, fully signed headers that advance the tracked state
				h = headerSpec{Rel: rapid.IntRange(1, 3).Draw(t, "rel"), Set: -1, Next: rapid.IntRange(0, 2).Draw(t, "next"), Ver: h.Ver}
			}
			return c19Op{Kind: "sync", Slot: slot, Hdr: &h}
		}
		return c19Op{Kind: "install", Slot: slot, G: rapid.SampledFrom([]int{0, 0, 0, 1, 1, 2, 3}).Draw(t, "g"),
			By:  rapid.SampledFrom([]string{"", "", "", "", "", "validator", "outsider", "nobody"}).Draw(t, "by"),
			Mal: genMal().Draw(t, "mal")}
	})
	// the history starts with the operator's installation on slot 0 (everything else is free)
	first := c19Op{Kind: "install", Slot: 0, G: rapid.IntRange(0, 3).Draw(t, "g1"), Mal: genMal().Draw(t, "mal1")}
	c.Ops = append([]c19Op{first}, rapid.SliceOfN(genOp, 2, ev.Scale(10, 16)).Draw(t, "ops")...)
	return c
}

var c19Mals = []string{"nvh-empty", "nvh-20", "nvh-33", "vh-empty", "chain-empty", "chain-long"}

func genMal() *rapid.Generator[string] {
	return rapid.OneOf(rapid.Just(""), rapid.Just(""), rapid.SampledFrom(c19Mals))
}

// malform applies a malformed-but-accepted stored field to a genesis header spec.
func malform(h *headerSpec, mal string) bool {
	switch mal {
	case "":
	case "nvh-empty":
		h.nvhSet, h.nvhRaw = true, nil
	case "nvh-20":
		h.nvhSet, h.nvhRaw = true, h32("short")[:20]
	case "nvh-33":
		h.nvhSet, h.nvhRaw = true, append(h32("long"), 0x33)
	case "vh-empty": // the routers store Header.Hash(), which is empty when ValidatorsHash is empty
		h.vhEmpty = true
	case "chain-empty":
		e := ""
		h.chainRaw = &e
	case "chain-long":
		l := string(bytes.Repeat([]byte("c"), 300))
		h.chainRaw = &l
	default:
		return false
	}
	return true
}

// genesisVariant: variants differ in height, next validator set, chain-id string and (cosmos) block version.
func genesisVariant(g int) (height int64, next int, chain string, ver int) {
	switch ((g % 4) + 4) % 4 {
	case 0:
		return 5, 0, "chain-A", 10
	case 1:
		return 77, 1, "chain-A", 10
	case 2:
		return 5, 1, "chain-B", 11
	}
	return 1 << 33, 0, "chain-A", 10
}

var (
	c19Mu     sync.Mutex
	c19Table  = map[string]int{}
	c19Clock  = map[string]int{}
	c19HSTxns int
)

func c19Count(router, what string) {
	c19Mu.Lock()
	c19Table[router+":"+what]++
	c19Mu.Unlock()
}

// clocked runs one header-sync transaction and attributes every clock / entropy consultation the
// instrumented native code makes during it.
func clocked(f func() world.Result) world.Result {
	before := verifclock.Snapshot()
	res := f()
	after := verifclock.Snapshot()
	c19Mu.Lock()
	c19HSTxns++
	for k, v := range after {
		if d := v - before[k]; d > 0 {
			c19Clock[k] += d
		}
	}
	c19Mu.Unlock()
	return res
}

type c19Slot struct {
	r         *runner
	router    string
	installed bool
	g         int    // variant that was installed
	mal       string // malformed stored field of the installed trust root ("" = well formed)
	advances  int    // accepted state advances since installation
}

func runC19(ctx *ev.Ctx, c c19Case) {
	if routerID[c.Router] == 0 || routerID[c.Other] == 0 || len(c.Sets) < 2 {
		ctx.Label("malformed-case")
		return
	}
	for _, s := range c.Sets {
		sum, seen := int64(0), map[int]bool{}
		for _, v := range s {
			if v.Power <= 0 || v.Power > maxTotalPower || seen[v.Key] || v.Key < 0 || v.Key >= 800 {
				ctx.Label("malformed-case")
				return
			}
			seen[v.Key] = true
			sum += v.Power
		}
		if len(s) == 0 || len(s) > 64 || sum > maxTotalPower {
			ctx.Label("malformed-case")
			return
		}
	}
	ctx.Label("router:" + c.Router)
	reserveWorld(3)
	slots := make([]*c19Slot, 3)
	for i := range slots {
		router := c.Router
		if i == 2 {
			router = c.Other
		}
		r := &runner{ctx: ctx, c: c30Case{Router: router, Sets: c.Sets}, rt: routerOf(router), known: map[string]string{}}
		r.e = newEnv(router)
		r.learnSets()
		slots[i] = &c19Slot{r: r, router: router}
	}
	w := slots[0].r.e.w
	operator := w.Operator()
	trackedAll := func() []tracked {
		out := make([]tracked, len(slots))
		for i, s := range slots {
			out[i] = s.r.e.tracked()
		}
		return out
	}
	othersUnchanged := func(oi, slot int, before, after []tracked) {
		for i := range slots {
			if i != slot && !before[i].sameAs(after[i]) {
				ctx.Failf("op %d on chain %d (%s) changed the light-client state of chain %d (%s): %v -> %v",
					oi, slots[slot].r.e.chain, slots[slot].router, slots[i].r.e.chain, slots[i].router, before[i], after[i])
			}
		}
	}
	nontrivial := false
	for oi, op := range c.Ops {
		if op.Slot < 0 || op.Slot > 2 {
			ctx.Label("malformed-case")
			continue
		}
		s := slots[op.Slot]
		before := trackedAll()
		switch op.Kind {
		case "sync":
			if op.Hdr == nil || !before[op.Slot].Present {
				ctx.Label("sync:skipped(no trust root)")
				continue
			}
			h := *op.Hdr
			if s.router != "cosmos" {
				h.Ver = 0
			}
			b := s.r.build(h, before[op.Slot])
			res := clocked(func() world.Result { return s.r.e.syncHeaders([][]byte{b.raw}) })
			after := trackedAll()
			othersUnchanged(oi, op.Slot, before, after)
			if res.OK() && !after[op.Slot].sameAs(before[op.Slot]) {
				s.advances++
				c19Count(s.router, "synced_headers")
			}
		case "install":
			gh, next, chain, ver := genesisVariant(op.G)
			if s.router != "cosmos" {
				ver = 10
			}
			gspec := headerSpec{Rel: 0, Set: next + 1, Next: next, Ver: ver}
			if !malform(&gspec, op.Mal) {
				ctx.Label("malformed-case")
				continue
			}
			g := s.r.build(gspec, tracked{Height: gh, ChainID: chain})
			var signers []common.Address
			switch op.By {
			case "validator":
				signers = []common.Address{w.Validators[0].Address}
			case "outsider":
				signers = []common.Address{world.Acct(12).Address}
			case "nobody":
			default:
				signers = []common.Address{operator}
			}
			byOperator := op.By == ""
			var dumpBefore [][2][]byte
			if s.installed {
				dumpBefore = w.Dump()
			}
			res := clocked(func() world.Result { return s.r.e.syncGenesis(g.raw, signers) })
			after := trackedAll()
			othersUnchanged(oi, op.Slot, before, after)
			if !s.installed {
				// ---- first installation(s): not judged, only recorded
				switch {
				case res.OK() && after[op.Slot].Present:
					s.installed, s.g, s.mal, s.advances = true, op.G, op.Mal, 0
					if op.Mal != "" {
						c19Count(s.router, "first_install_with_malformed_stored_field("+op.Mal+")")
					}
					if byOperator {
						c19Count(s.router, "first_install_ok")
					} else {
						ctx.Label("first-install-by-non-operator-accepted(" + s.router + ")")
						c19Count(s.router, "first_install_by_non_operator_accepted")
					}
					if after[op.Slot].Height != gh || !bytes.Equal(after[op.Slot].NVH, g.nvh) {
						ctx.Failf("harness: installed trust root %v differs from the submitted genesis (h=%d nvh=%x)", after[op.Slot], gh, g.nvh)
					}
				case byOperator:
					ctx.Label("first-install-by-operator-refused(" + s.router + ")")
					c19Count(s.router, "not_exercised(first operator install refused)")
				default:
					c19Count(s.router, "first_install_by_non_operator_refused")
				}
				continue
			}
			// ---- the trust root exists: EVERY further attempt must fail and change nothing
			kind := "different_data"
			if op.G%4 == s.g%4 && op.Mal == s.mal {
				kind = "same_data"
			}
			if s.mal != "" {
				c19Count(s.router, "reinstall_attempts_on_malformed_trust_root")
			}
			if !byOperator {
				kind += "_non_operator"
			}
			c19Count(s.router, "reinstall_attempts_"+kind)
			if s.advances > 0 {
				c19Count(s.router, "reinstall_attempts_after_sync")
				if op.G%4 != s.g%4 || op.Mal != s.mal {
					nontrivial = true
				}
			}
			diff := world.DiffDump(dumpBefore, w.Dump())
			if res.Err == nil {
				if diff != "" || !after[op.Slot].sameAs(before[op.Slot]) {
					ctx.Known(s.router+"-genesis-reinstall-accepted",
						"op %d: syncGenesisHeader (%s, signed by %q) for chain %d (%s) whose trust root %v is already installed SUCCEEDED and changed state: now %v; %s",
						oi, kind, op.By, s.r.e.chain, s.router, before[op.Slot], after[op.Slot], diff)
					s.g, s.mal, s.advances = op.G, op.Mal, 0
				} else {
					ctx.Known(s.router+"-genesis-reinstall-reports-success",
						"op %d: syncGenesisHeader (%s, signed by %q) for chain %d (%s) whose trust root is already installed reported success (state unchanged)",
						oi, kind, op.By, s.r.e.chain, s.router)
				}
				continue
			}
			if diff != "" {
				ctx.Failf("op %d: failed re-installation (%v) changed state: %s", oi, res.Err, diff)
			}
			c19Count(s.router, "reinstall_rejected_state_identical")
		default:
			ctx.Label("malformed-case")
		}
	}
	for _, s := range slots {
		if s.installed {
			c19Count(s.router, "exercised_chains")
		}
	}
	if nontrivial {
		ctx.NonTrivial()
	}
}

func TestC19(t *testing.T) {
	id := c19ID()
	verifclock.Reset()
	defer func() {
		c19Mu.Lock()
		defer c19Mu.Unlock()
		tab := map[string]int{}
		for k, v := range c19Table {
			tab[k] = v
		}
		clk := map[string]int{}
		for k, v := range c19Clock {
			clk[k] = v
		}
		ev.Get(id).Extra("routers", tab)
		ev.Get(id).Extra("clock_sites_in_header_sync_txs", clk)
		ev.Get(id).Extra("header_sync_txs_monitored", c19HSTxns)
	}()
	ev.Drive(t, id,
		"unit for the Tendermint-family routers (cosmos, okex, polygon-heimdall): three freshly registered chain ids per case (two of one router, one of another) in an L1 native world; 3..17 operations (the first one is the operator's installation on the first chain): "+
			"syncGenesisHeader with one of 4 genesis variants (height / next validator set / chain-id string / block version), optionally with a stored field that is malformed but accepted by the install path (next-validators hash empty / 20 / 33 bytes, empty stored block hash, empty or 300-byte chain id), witnessed by the operator, a single validator, an outsider or nobody, and syncBlockHeader with one synthetic header (mostly fully signed, advancing). "+
			"oracle: once a chain has a trust root every later syncGenesisHeader for it returns an error and the full world dump is byte-identical before/after; no operation changes another chain's light-client state. "+
			"non-trivial: a re-installation with different genesis data after at least one accepted header advance on that chain; distinct by JSON encoding of the case",
		genC19, runC19)
}
