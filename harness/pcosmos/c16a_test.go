package pcosmos

import (
	"bytes"
	"encoding/json"
	"fmt"
	"os"
	"sync"
	"testing"

	"github.com/polynetwork/poly/common"
	"github.com/polynetwork/poly/common/config"
	"github.com/polynetwork/poly/core/payload"
	scommon "github.com/polynetwork/poly/core/store/common"
	"github.com/polynetwork/poly/core/store/overlaydb"
	"github.com/polynetwork/poly/core/types"
	"github.com/polynetwork/poly/native"
	"github.com/polynetwork/poly/native/storage"

	"verif/harness/ev"
	"verif/harness/world"
)

// ---------------------------------------------------------------------------------------------
// C16 part A (unit for the Tendermint-family routers): executing the same transaction on the same
// prior state always yields the same result, write set, notifications and cross hashes

func c16ID() string {
	if v := os.Getenv("VERIF_PROP_ID"); v != "" { // development only (helper entry _C16Acosmos)
		return v
	}
	return "C16"
}

// viewStore presents the world's block layer (store + uncommitted overlay) as a read-only
// PersistStore, so that a FRESH overlay + transaction cache can be stacked on the same prior state
// for every execution. Nothing is ever committed through it.
type viewStore struct{ o *overlaydb.OverlayDB }

func (v viewStore) Get(key []byte) ([]byte, error) {
	val, err := v.o.Get(key)
	if err == nil && val == nil {
		return nil, scommon.ErrNotFound
	}
	return val, err
}
func (v viewStore) Has(key []byte) (bool, error) {
	val, err := v.o.Get(key)
	return val != nil, err
}
func (v viewStore) NewIterator(prefix []byte) scommon.StoreIterator { return v.o.NewIterator(prefix) }
func (v viewStore) Put(key []byte, value []byte) error              { panic("viewStore is read-only") }
func (v viewStore) Delete(key []byte) error                         { panic("viewStore is read-only") }
func (v viewStore) NewBatch()                                       { panic("viewStore is read-only") }
func (v viewStore) BatchPut(key []byte, value []byte)               { panic("viewStore is read-only") }
func (v viewStore) BatchDelete(key []byte)                          { panic("viewStore is read-only") }
func (v viewStore) BatchCommit() error                              { panic("viewStore is read-only") }
func (v viewStore) Close() error                                    { return nil }

type forkResult struct {
	ok       bool
	errText  string
	panicked bool
	writeSet []byte // length-prefixed (key,value) pairs of the block-layer write set in key order; deletions have an empty value
	records  int
	notify   []byte // JSON of the notifications
	cross    []byte
}

func runFork(w *world.World, tx *types.Transaction) *forkResult {
	code := tx.Payload.(*payload.InvokeCode).Code
	ov := overlaydb.VerifNewOverlayDB(viewStore{w.Overlay}, 64*1024, 64)
	cache := storage.NewCacheDB(ov)
	svc, err := native.NewNativeService(cache, tx, w.Time, w.Height, w.BlockHash, w.ChainID, code, false)
	if err != nil {
		panic(err)
	}
	fr := &forkResult{}
	func() {
		defer func() {
			if r := recover(); r != nil {
				fr.panicked = true
				err = fmt.Errorf("panic: %v", r)
			}
		}()
		_, err = svc.Invoke()
	}()
	if err != nil {
		fr.errText = err.Error()
		return fr
	}
	fr.ok = true
	cache.Commit()
	var b bytes.Buffer
	ov.GetWriteSet().ForEach(func(k, v []byte) {
		fmt.Fprintf(&b, "%d:%x=%d:%x;", len(k), k, len(v), v)
		fr.records++
	})
	fr.writeSet = b.Bytes()
	type note struct {
		Contract string
		States   interface{}
	}
	var notes []note
	for _, n := range svc.GetNotify() {
		notes = append(notes, note{Contract: n.ContractAddress.ToHexString(), States: n.States})
	}
	fr.notify, _ = json.Marshal(notes)
	for _, h := range svc.GetCrossHashes() {
		fr.cross = append(fr.cross, h[:]...)
	}
	return fr
}

type c16Abort struct{}

var (
	c16Mu    sync.Mutex
	c16Table = map[string]int{}
	// per case (set by runC16A, read by the hook)
	c16Fail       string
	c16NonTrivial bool
	c16Labels     map[string]bool
)

func c16Count(k string) { c16Mu.Lock(); c16Table[k]++; c16Mu.Unlock() }

func clipb(b []byte) []byte {
	if len(b) > 600 {
		return b[:600]
	}
	return b
}

// c16Exec executes one transaction N times on independent forks of the prior state, requires all
// executions to agree byte for byte, then applies it to the world.
func c16Exec(e *env, contract common.Address, method string, args []byte, signers []common.Address) world.Result {
	w := e.w
	n := ev.Scale(8, 16)
	tx := w.MakeTx(contract, method, args, signers)
	var first *forkResult
	fail := func(format string, a ...interface{}) {
		c16Fail = fmt.Sprintf("router %s, %s (tx %d bytes): ", e.router, method, len(args)) + fmt.Sprintf(format, a...)
		panic(c16Abort{})
	}
	for i := 0; i < n; i++ {
		fr := runFork(w, tx)
		if i == 0 {
			first = fr
			continue
		}
		switch {
		case fr.ok != first.ok || fr.panicked != first.panicked:
			fail("execution %d ended ok=%v panic=%v (%s) but execution 0 ended ok=%v panic=%v (%s)", i, fr.ok, fr.panicked, fr.errText, first.ok, first.panicked, first.errText)
		case !bytes.Equal(fr.writeSet, first.writeSet):
			fail("write set of execution %d differs from execution 0:\n exec0: %s\n exec%d: %s", i, clipb(first.writeSet), i, clipb(fr.writeSet))
		case !bytes.Equal(fr.notify, first.notify):
			fail("notifications of execution %d differ from execution 0:\n exec0: %s\n exec%d: %s", i, clipb(first.notify), i, clipb(fr.notify))
		case !bytes.Equal(fr.cross, first.cross):
			fail("cross-chain hashes of execution %d differ from execution 0: %x vs %x", i, fr.cross, first.cross)
		}
		if fr.errText != first.errText {
			c16Labels["error-text-differs-between-executions(not judged)"] = true
		}
	}
	c16Count(e.router + ":" + method + ":txs")
	c16Count(e.router + ":executions")
	c16Table[e.router+":executions"] += n - 1
	res := w.Exec(tx)
	if res.OK() != first.ok {
		fail("the applied transaction ended ok=%v (%v) but the forked executions ended ok=%v (%s)", res.OK(), res.Err, first.ok, first.errText)
	}
	switch {
	case first.panicked:
		c16Count(e.router + ":" + method + ":panicked(consistently)")
	case !first.ok:
		c16Count(e.router + ":" + method + ":failed(consistently)")
	default:
		c16Count(e.router + ":" + method + ":succeeded")
		if first.records > 0 {
			c16NonTrivial = true
			c16Count(e.router + ":" + method + ":succeeded_with_records")
			c16Table[e.router+":records_compared"] += first.records
		}
		if len(first.notify) > 4 {
			c16Count(e.router + ":" + method + ":with_notifications")
		}
	}
	return res
}

// runC16A takes the transactions from the C30 history machinery (genesis install, header syncs,
// deposit imports; valid and invalid) and routes every one of them through c16Exec.
func runC16A(ctx *ev.Ctx, c c30Case) {
	c16Fail, c16NonTrivial, c16Labels = "", false, map[string]bool{}
	envExecHook = c16Exec
	defer func() { envExecHook = nil }()
	inner := &ev.Ctx{ID: ctx.ID}
	innerFailed := false
	func() {
		defer func() {
			if r := recover(); r != nil {
				if _, mine := r.(c16Abort); !mine && c16Fail == "" {
					innerFailed = true // an oracle failure of the C30 machinery itself: not this unit's business
					if _, isErr := r.(error); isErr {
						panic(r) // a genuine runtime panic of the harness: surface it
					}
				}
			}
		}()
		runC30(inner, c)
	}()
	ctx.Label("router:" + c.Router)
	for l := range c16Labels {
		ctx.Label(l)
	}
	if innerFailed {
		ctx.Label("inner-c30-oracle-failure(not judged here)")
	}
	if c16Fail != "" {
		ctx.Failf("%s", c16Fail)
	}
	if c16NonTrivial {
		ctx.NonTrivial()
	}
}

func TestC16ACosmos(t *testing.T) {
	id := c16ID()
	oldLog := config.DefConfig.Common.EnableEventLog
	config.DefConfig.Common.EnableEventLog = true // so that the routers' notifications exist and are compared
	c30Publish = false
	defer func() {
		config.DefConfig.Common.EnableEventLog = oldLog
		c30Publish = true
		c16Mu.Lock()
		defer c16Mu.Unlock()
		tab := map[string]int{}
		for k, v := range c16Table {
			tab[k] = v
		}
		ev.Get(id).Extra("routers", tab)
	}()
	ev.Drive(t, id,
		"part A, unit for the Tendermint-family routers (cosmos, okex, polygon-heimdall): histories from the C30 generators (syncGenesisHeader, syncBlockHeader with 1..3 headers, importOuterTransfer with IAVL proofs; valid and invalid: validator sets of 1..10 incl. equal powers, duplicated / zero-power validators, forged and copied votes, wrong sets, absence proofs ...); "+
			"EVERY transaction is executed 8 (thorough 16) times, each time on a fresh overlay + transaction cache stacked on the same prior state, and then applied; all executions must agree on success/failure/panic and, byte for byte, on the block-layer write set (puts and deletes), the notifications and the cross-chain hashes. "+
			"non-trivial: the case contains a transaction that succeeds and stores at least one record; distinct by JSON encoding of the case",
		genC30, runC16A)
}
