package pcosmos

import (
	"bytes"
	"encoding/binary"
	"fmt"

	"github.com/polynetwork/poly/common"
	scom "github.com/polynetwork/poly/native/service/cross_chain_manager/common"
	"github.com/polynetwork/poly/native/service/governance/side_chain_manager"
	hscommon "github.com/polynetwork/poly/native/service/header_sync/common"
	"github.com/polynetwork/poly/native/service/utils"

	"verif/harness/world"
)

// ---------------------------------------------------------------------------------------------
// L1 world with a registered Tendermint-family source chain and a registered target chain

const (
	dstChain = uint64(2) // an ETH-router chain used as deposit target
	nPolyVal = 4         // poly consensus validators of the world
	// world.New costs ~100 ms (pre-allocated LevelDB/overlay buffers), so one world serves many cases:
	// every case registers its OWN fresh source chain id through side_chain_manager, which gives it a
	// fresh namespace for everything the routers under test read or write (epoch info, done-tx).
)

var (
	casesPerWorld = 400
	envNetID      uint32 // 0 = test net (default of world.Opts); TestC20Cosmos runs on main net (1)
	sharedW       *world.World
	sharedNet     uint32
	sharedUses    int
	nextChain     uint64
)

var routerID = map[string]uint64{
	"cosmos":   utils.COSMOS_ROUTER,
	"okex":     utils.OKEX_ROUTER,
	"heimdall": utils.POLYGON_HEIMDALL_ROUTER,
}

var ccmcAddr = bytes.Repeat([]byte{0xcc}, 20)

type env struct {
	router string
	w      *world.World
	chain  uint64 // poly chain id of the Tendermint-family side chain under test
}

// registerChain goes through the real side_chain_manager flow: registerSideChain by an applicant,
// then approveRegisterSideChain by consensus validators until the chain is live.
func registerChain(w *world.World, id, router uint64, name string) {
	applicant := world.Acct(10)
	p := &side_chain_manager.RegisterSideChainParam{Address: applicant.Address, ChainId: id, Router: router, Name: name,
		BlocksToWait: 1, CCMCAddress: ccmcAddr}
	sink := common.NewZeroCopySink(nil)
	p.Serialization(sink)
	r := w.Invoke(utils.SideChainManagerContractAddress, side_chain_manager.REGISTER_SIDE_CHAIN, sink.Bytes(), []common.Address{applicant.Address})
	if !r.OK() {
		panic("harness: registerSideChain: " + r.Err.Error())
	}
	for _, v := range w.Validators {
		if sc, _ := side_chain_manager.GetSideChain(w.Service(), id); sc != nil {
			break
		}
		s := common.NewZeroCopySink(nil)
		(&side_chain_manager.ChainidParam{Chainid: id, Address: v.Address}).Serialization(s)
		r := w.Invoke(utils.SideChainManagerContractAddress, side_chain_manager.APPROVE_REGISTER_SIDE_CHAIN, s.Bytes(), []common.Address{v.Address})
		if !r.OK() {
			panic("harness: approveRegisterSideChain: " + r.Err.Error())
		}
	}
	sc, err := side_chain_manager.GetSideChain(w.Service(), id)
	if err != nil || sc == nil || sc.Router != router {
		panic(fmt.Sprintf("harness: side chain %d not registered after approvals (%v)", id, err))
	}
}

// reserveWorld makes sure the next n newEnv calls land in the same world.
func reserveWorld(n int) {
	if sharedW != nil && sharedUses+n > casesPerWorld {
		sharedUses = casesPerWorld
	}
}

func newEnv(router string) *env {
	if sharedW == nil || sharedUses >= casesPerWorld || sharedNet != envNetID {
		if sharedW != nil {
			sharedW.Store.Close() // stop the retired LevelDB's background goroutines
		}
		sharedW = world.New(nPolyVal, world.Opts{NetworkID: envNetID})
		sharedNet = envNetID
		registerChain(sharedW, dstChain, utils.ETH_ROUTER, "dst")
		sharedUses, nextChain = 0, 1000
	}
	sharedUses++
	nextChain++
	w := sharedW
	registerChain(w, nextChain, routerID[router], "src-"+router)
	w.NextBlock()
	return &env{router: router, w: w, chain: nextChain}
}

// envExecHook, when set, replaces the plain execution of the env's transactions (TestC16ACosmos
// executes every transaction several times on forks of the prior state before applying it).
var envExecHook func(e *env, contract common.Address, method string, args []byte, signers []common.Address) world.Result

func (e *env) invoke(contract common.Address, method string, args []byte, signers []common.Address) world.Result {
	if envExecHook != nil {
		return envExecHook(e, contract, method, args, signers)
	}
	return e.w.Invoke(contract, method, args, signers)
}

// syncGenesis installs the trust root through the header_sync entrance, witnessed by signers.
func (e *env) syncGenesis(hdr []byte, signers []common.Address) world.Result {
	sink := common.NewZeroCopySink(nil)
	(&hscommon.SyncGenesisHeaderParam{ChainID: e.chain, GenesisHeader: hdr}).Serialization(sink)
	return e.invoke(utils.HeaderSyncContractAddress, hscommon.SYNC_GENESIS_HEADER, sink.Bytes(), signers)
}

func (e *env) syncHeaders(hdrs [][]byte) world.Result {
	relayer := world.Acct(11)
	sink := common.NewZeroCopySink(nil)
	(&hscommon.SyncBlockHeaderParam{ChainID: e.chain, Address: relayer.Address, Headers: hdrs}).Serialization(sink)
	r := e.invoke(utils.HeaderSyncContractAddress, hscommon.SYNC_BLOCK_HEADER, sink.Bytes(), []common.Address{relayer.Address})
	e.w.NextBlock()
	return r
}

func (e *env) importDeposit(height uint32, proof, extra, hdr []byte) world.Result {
	relayer := world.Acct(11)
	sink := common.NewZeroCopySink(nil)
	(&scom.EntranceParam{SourceChainID: e.chain, Height: height, Proof: proof, RelayerAddress: relayer.Address[:], Extra: extra,
		HeaderOrCrossChainMsg: hdr}).Serialization(sink)
	r := e.invoke(utils.CrossChainManagerContractAddress, scom.IMPORT_OUTER_TRANSFER_NAME, sink.Bytes(), []common.Address{relayer.Address})
	e.w.NextBlock()
	return r
}

// tracked is the light-client state, decoded by the harness from the raw contract storage
// (header-sync contract || "epochSwitch" || chain id LE): int64 height, var-bytes block hash,
// var-bytes next-validators hash, string chain id.
type tracked struct {
	Present bool
	Height  int64
	Block   []byte
	NVH     []byte
	ChainID string
}

func (t tracked) String() string {
	if !t.Present {
		return "<none>"
	}
	return fmt.Sprintf("{h=%d nvh=%x chain=%q}", t.Height, t.NVH, t.ChainID)
}

func (t tracked) sameAs(o tracked) bool {
	return t.Present == o.Present && t.Height == o.Height && bytes.Equal(t.NVH, o.NVH) && t.ChainID == o.ChainID && bytes.Equal(t.Block, o.Block)
}

func readVarBytes(b []byte) (v, rest []byte, ok bool) {
	if len(b) == 0 {
		return nil, nil, false
	}
	var n uint64
	switch b[0] {
	case 0xFD:
		if len(b) < 3 {
			return nil, nil, false
		}
		n, b = uint64(binary.LittleEndian.Uint16(b[1:])), b[3:]
	case 0xFE:
		if len(b) < 5 {
			return nil, nil, false
		}
		n, b = uint64(binary.LittleEndian.Uint32(b[1:])), b[5:]
	case 0xFF:
		if len(b) < 9 {
			return nil, nil, false
		}
		n, b = binary.LittleEndian.Uint64(b[1:]), b[9:]
	default:
		n, b = uint64(b[0]), b[1:]
	}
	if uint64(len(b)) < n {
		return nil, nil, false
	}
	return b[:n], b[n:], true
}

func (e *env) tracked() tracked {
	var cid [8]byte
	binary.LittleEndian.PutUint64(cid[:], e.chain)
	key := append(append(append([]byte{}, utils.HeaderSyncContractAddress[:]...), []byte("epochSwitch")...), cid[:]...)
	raw := e.w.Get(key)
	if raw == nil {
		return tracked{}
	}
	if len(raw) < 8 {
		panic("harness: short epoch switch record")
	}
	t := tracked{Present: true, Height: int64(binary.LittleEndian.Uint64(raw[:8]))}
	rest := raw[8:]
	var ok bool
	var s []byte
	if t.Block, rest, ok = readVarBytes(rest); !ok {
		panic("harness: bad epoch switch record")
	}
	if t.NVH, rest, ok = readVarBytes(rest); !ok {
		panic("harness: bad epoch switch record")
	}
	if s, _, ok = readVarBytes(rest); !ok {
		panic("harness: bad epoch switch record")
	}
	t.ChainID = string(s)
	return t
}
