//go:build verif

// Destination: /repo/consensus/vbft/verif_export_producer.go
// Export shim for the verification harness (property C03, block producers). Add-only, build tag verif.
package vbft

import (
	"github.com/polynetwork/poly/account"
	"github.com/polynetwork/poly/common"
	vconfig "github.com/polynetwork/poly/consensus/vbft/config"
	"github.com/polynetwork/poly/core/store"
	"github.com/polynetwork/poly/core/types"
)

// VerifConstructBlock runs the unexported constructBlock of a minimal Server (account, block pool and chain
// store holding prev as the sealed pending block prev.Height) for block prev.Height+1. It reads
// ledger.DefLedger for the block root exactly like the node does.
func VerifConstructBlock(acc *account.Account, prev *types.Block, txs []*types.Transaction, consensusPayload []byte,
	timestamp uint32, nextBookkeeper common.Address) (*types.Block, error) {
	cs := &ChainStore{pendingBlocks: make(map[uint32]*PendingBlock)}
	s := &Server{account: acc, chainStore: cs}
	cs.pendingBlocks[prev.Header.Height] = &PendingBlock{
		block:      &Block{Block: prev, Info: &vconfig.VbftBlockInfo{}},
		execResult: &store.ExecuteResult{},
	}
	s.blockPool = &BlockPool{server: s, chainStore: cs, candidateBlocks: make(map[uint32]*CandidateInfo)}
	return s.constructBlock(prev.Header.Height+1, prev.Hash(), txs, consensusPayload, timestamp, nextBookkeeper)
}
