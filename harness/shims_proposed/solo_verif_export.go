//go:build verif

// Destination: /repo/consensus/solo/verif_export.go
// Export shims for the verification harness (property C03, block producers). Add-only, build tag verif.
package solo

import (
	"github.com/ontio/ontology-eventbus/actor"
	"github.com/polynetwork/poly/account"
	actorTypes "github.com/polynetwork/poly/consensus/actor"
	"github.com/polynetwork/poly/core/types"
	"github.com/polynetwork/poly/validator/increment"
)

// VerifNewSoloService assembles a SoloService without its own actor and timer: only what makeBlock reads
// (account, tx-pool actor, increment validator with the given window).
func VerifNewSoloService(acc *account.Account, txpool *actor.PID, window int) *SoloService {
	return &SoloService{
		Account:       acc,
		poolActor:     &actorTypes.TxPoolActor{Pool: txpool},
		incrValidator: increment.NewIncrementValidator(window),
	}
}

// VerifMakeBlock runs the unexported block producer.
func (self *SoloService) VerifMakeBlock() (*types.Block, error) { return self.makeBlock() }

// VerifBlockSaved does what the actor does on SaveBlockCompleteMsg.
func (self *SoloService) VerifBlockSaved(b *types.Block) { self.incrValidator.AddBlock(b) }
