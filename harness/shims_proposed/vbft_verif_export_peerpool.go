//go:build verif

// Destination: /repo/consensus/vbft/verif_export_peerpool.go
// Export shim for the verification harness (property C41, peer-pool connection events). Add-only,
// build tag verif, wrappers only. All four calls require peerIdx to be a peer of the chain
// configuration the Server was built with (the wrapped methods dereference the peer's record).
package vbft

func (self *Server) VerifPeerDisconnected(peerIdx uint32) error {
	return self.peerPool.peerDisconnected(peerIdx)
}

func (self *Server) VerifPeerHandshake(peerIdx uint32, msg *VerifPeerHandshakeMsg) error {
	return self.peerPool.peerHandshake(peerIdx, msg)
}

func (self *Server) VerifPeerHeartbeat(peerIdx uint32, msg *VerifPeerHeartbeatMsg) error {
	return self.peerPool.peerHeartbeat(peerIdx, msg)
}

func (self *Server) VerifPeerPubKeyKnown(peerIdx uint32) bool {
	return self.peerPool.GetPeerPubKey(peerIdx) != nil
}
