// Overlay stub for native/service/cross_chain_manager/harmony (cgo libbls not linkable here).
package harmony

import (
	"fmt"

	"github.com/polynetwork/poly/native"
	scom "github.com/polynetwork/poly/native/service/cross_chain_manager/common"
)

type Handler struct{}

func NewHandler() *Handler { return new(Handler) }

func (h *Handler) MakeDepositProposal(service *native.NativeService) (*scom.MakeTxParam, error) {
	return nil, fmt.Errorf("harmony: stubbed out in verification build")
}
