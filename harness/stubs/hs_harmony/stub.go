// Overlay stub for native/service/header_sync/harmony: the real package needs cgo
// libbls/libmcl which cannot be linked in this sandbox. The harmony router is NOT exercised.
package harmony

import (
	"fmt"

	"github.com/polynetwork/poly/native"
)

type Handler struct{}

func NewHandler() *Handler { return new(Handler) }

func (h *Handler) SyncGenesisHeader(native *native.NativeService) error {
	return fmt.Errorf("harmony: stubbed out in verification build")
}
func (h *Handler) SyncBlockHeader(native *native.NativeService) error {
	return fmt.Errorf("harmony: stubbed out in verification build")
}
func (h *Handler) SyncCrossChainMsg(native *native.NativeService) error {
	return fmt.Errorf("harmony: stubbed out in verification build")
}
