// Package pontneo decides C24 (validator-signed cross-chain messages need distinct tracked signers:
// Ontology, NEO, NEO N3) and C31 (Ontology and NEO light clients follow authenticated validator
// changes) against the real native contracts running in an L1 world.
package pontneo

import (
	"crypto/ecdsa"
	"crypto/elliptic"
	"crypto/sha256"
	"encoding/binary"
	"encoding/hex"
	"fmt"
	"math/big"
	"sort"
	"testing"

	"github.com/ontio/ontology-crypto/ec"
	"github.com/ontio/ontology-crypto/keypair"
	"github.com/polynetwork/poly/common"
	"github.com/polynetwork/poly/native/service/governance/side_chain_manager"
	hscommon "github.com/polynetwork/poly/native/service/header_sync/common"
	"github.com/polynetwork/poly/native/service/utils"

	"verif/harness/ev"
	"verif/harness/world"
)

func TestMain(m *testing.M) { ev.Main(m) }

// ---------------------------------------------------------------------------------------------
// keys: the side-chain validators are pool accounts 100.. (P-256, usable as Ontology bookkeepers and
// as NEO / NEO N3 validators alike); the poly validators of the world are pool accounts 0..3.

const (
	polyValidators = 4
	sideKeyBase    = 100
	poolSize       = 14 // side-chain key pool: indices 0..poolSize-1
)

func sidePriv(i int) *ecdsa.PrivateKey {
	return world.Acct(sideKeyBase + i).PrivateKey.(*ec.PrivateKey).PrivateKey
}

// sidePub33 is the 33-byte compressed encoding (identical for ontology-crypto P-256 keys and NEO).
func sidePub33(i int) []byte {
	b := keypair.SerializePublicKey(world.Acct(sideKeyBase + i).PublicKey)
	if len(b) != 33 {
		panic("harness: unexpected public key encoding")
	}
	return b
}

func sidePubHex(i int) string { return hex.EncodeToString(sidePub33(i)) }

// detSign is a self-contained deterministic ECDSA P-256 signature over a 32-byte digest
// (r||s, 32 bytes each). `nonce` selects one of several distinct valid signatures.
func detSign(priv *ecdsa.PrivateKey, digest []byte, nonce int) []byte {
	c := elliptic.P256()
	n := c.Params().N
	nm1 := new(big.Int).Sub(n, big.NewInt(1))
	e := new(big.Int).SetBytes(digest)
	for ctr := 0; ; ctr++ {
		seed := append(append([]byte("verif-k"), priv.D.Bytes()...), digest...)
		seed = append(seed, byte(nonce), byte(nonce>>8), byte(ctr))
		h := sha256.Sum256(seed)
		k := new(big.Int).SetBytes(h[:])
		k.Mod(k, nm1)
		k.Add(k, big.NewInt(1))
		x, _ := c.ScalarBaseMult(k.Bytes())
		r := new(big.Int).Mod(x, n)
		if r.Sign() == 0 {
			continue
		}
		s := new(big.Int).Mul(r, priv.D)
		s.Add(s, e)
		s.Mul(s, new(big.Int).ModInverse(k, n))
		s.Mod(s, n)
		if s.Sign() == 0 {
			continue
		}
		out := make([]byte, 64)
		r.FillBytes(out[:32])
		s.FillBytes(out[32:])
		return out
	}
}

// sigSpec describes one signature of a case: who made it and how.
type sigSpec struct {
	By    int    `json:"by"`              // pool index of the signing key
	Kind  string `json:"kind"`            // ok | badmsg | garbage
	Nonce int    `json:"nonce,omitempty"` // distinct nonces give distinct (fresh) signatures
}

// makeSig produces the 64-byte signature of spec for a message whose signed digest is
// sha256(preimage) (Ontology: preimage = 32-byte hash; NEO: preimage = unsigned serialization).
func makeSig(sp sigSpec, preimage []byte) []byte {
	switch sp.Kind {
	case "ok":
		d := sha256.Sum256(preimage)
		return detSign(sidePriv(sp.By), d[:], sp.Nonce)
	case "badmsg":
		d := sha256.Sum256(append(append([]byte(nil), preimage...), 0x01))
		return detSign(sidePriv(sp.By), d[:], sp.Nonce)
	default: // garbage: well-formed length, meaningless content
		out := make([]byte, 64)
		h := sha256.Sum256([]byte(fmt.Sprintf("garbage-%d-%d", sp.By, sp.Nonce)))
		copy(out, h[:])
		copy(out[32:], h[:])
		out[0] &= 0x7f
		out[32] &= 0x7f
		return out
	}
}

// validSigners is the oracle's view of a signature list: the pool keys that contributed a valid
// signature over the right message (by construction, not by running any verifier).
func validSigners(sigs []sigSpec) map[int]bool {
	m := map[int]bool{}
	for _, s := range sigs {
		if s.Kind == "ok" {
			m[s.By] = true
		}
	}
	return m
}

func ceilThird(n int) int { return (n + 2) / 3 }

func u32le(v uint32) []byte { b := make([]byte, 4); binary.LittleEndian.PutUint32(b, v); return b }
func u64le(v uint64) []byte { b := make([]byte, 8); binary.LittleEndian.PutUint64(b, v); return b }

func sortedInts(m map[int]bool) []int {
	var o []int
	for k := range m {
		o = append(o, k)
	}
	sort.Ints(o)
	return o
}

func distinct(xs []int) bool {
	seen := map[int]bool{}
	for _, x := range xs {
		if seen[x] {
			return false
		}
		seen[x] = true
	}
	return true
}

// ---------------------------------------------------------------------------------------------
// world set-up through the real governance flow

type sideWorld struct {
	*world.World
	chainID uint64
}

// newSideWorld builds a world with 4 poly validators and registers one side chain through
// registerSideChain + approveRegisterSideChain by validators until it takes effect.
func newSideWorld(chainID, router uint64, ccmc, extra []byte) *sideWorld {
	return newSideWorldOn(freshWorld(), chainID, router, ccmc, extra)
}

// newSideWorldOn registers one more side chain on an existing world (real register + approve flow).
func newSideWorldOn(w *world.World, chainID, router uint64, ccmc, extra []byte) *sideWorld {
	owner := world.Acct(50).Address
	p := &side_chain_manager.RegisterSideChainParam{Address: owner, ChainId: chainID, Router: router, Name: "side",
		BlocksToWait: 1, CCMCAddress: ccmc, ExtraInfo: extra}
	sink := common.NewZeroCopySink(nil)
	p.Serialization(sink)
	if r := invokeOn(w, utils.SideChainManagerContractAddress, side_chain_manager.REGISTER_SIDE_CHAIN, sink.Bytes(), []common.Address{owner}); !r.OK() {
		panic("harness: registerSideChain: " + r.Err.Error())
	}
	for _, v := range w.Validators {
		sc, _ := side_chain_manager.GetSideChain(w.Service(), chainID)
		if sc != nil {
			break
		}
		ap := &side_chain_manager.ChainidParam{Chainid: chainID, Address: v.Address}
		s2 := common.NewZeroCopySink(nil)
		ap.Serialization(s2)
		if r := invokeOn(w, utils.SideChainManagerContractAddress, side_chain_manager.APPROVE_REGISTER_SIDE_CHAIN, s2.Bytes(), []common.Address{v.Address}); !r.OK() {
			panic("harness: approveRegisterSideChain: " + r.Err.Error())
		}
	}
	if sc, _ := side_chain_manager.GetSideChain(w.Service(), chainID); sc == nil {
		panic("harness: side chain not registered after all approvals")
	}
	w.NextBlock()
	return &sideWorld{World: w, chainID: chainID}
}

// freshWorld returns a world in its genesis state. Building a world allocates ~8 MB of zeroed
// buffers (LevelDB memtable + overlay), which dominates the cost of a case, so one world per
// process is recycled: nothing is ever committed to the backing store, hence resetting the two
// overlay layers and re-running the genesis initConfig gives exactly the state world.New gives.
var sharedWorlds = map[[2]uint32]*world.World{}

func freshWorld() *world.World { return freshWorldNet(0) }

// freshWorldNet: netID 0 = test net (default), 1 = main net.
func freshWorldNet(netID uint32) *world.World { return freshWorldN(netID, polyValidators) }

// freshWorldN: a genesis-state world with n poly validators.
func freshWorldN(netID uint32, n int) *world.World {
	key := [2]uint32{netID, uint32(n)}
	if sharedWorlds[key] == nil {
		sharedWorlds[key] = world.New(n, world.Opts{NetworkID: netID})
		return sharedWorlds[key]
	}
	w := sharedWorlds[key]
	w.Overlay.Reset()
	w.Cache.Reset()
	world.ResetGlobals(netID)
	w.Height, w.Time, w.BlockHash = 0, 1600000000, common.Uint256{}
	sink := common.NewZeroCopySink(nil)
	world.VBFTConfigFor(w.Validators, 60000).Serialization(sink)
	if r := w.Invoke(utils.NodeManagerContractAddress, "initConfig", sink.Bytes(), nil); r.Err != nil {
		panic("harness: genesis initConfig failed: " + r.Err.Error())
	}
	w.Height = 1
	return w
}

// invokeOn executes one transaction on the world. Units that check repeatability (C16) install
// invokeHook, which executes the transaction several times from the same prior state first.
var invokeHook func(w *world.World, contract common.Address, method string, args []byte, signers []common.Address) world.Result

func invokeOn(w *world.World, contract common.Address, method string, args []byte, signers []common.Address) world.Result {
	if invokeHook != nil {
		return invokeHook(w, contract, method, args, signers)
	}
	return w.Invoke(contract, method, args, signers)
}

// Close is kept for symmetry; the recycled world is not closed.
func (w *sideWorld) Close() {}

func bytesOf(v byte, n int) []byte {
	b := make([]byte, n)
	for i := range b {
		b[i] = v
	}
	return b
}

// syncGenesis installs the trust root through the real syncGenesisHeader, witnessed by the operator.
func (w *sideWorld) syncGenesis(raw []byte) world.Result {
	p := &hscommon.SyncGenesisHeaderParam{ChainID: w.chainID, GenesisHeader: raw}
	sink := common.NewZeroCopySink(nil)
	p.Serialization(sink)
	return invokeOn(w.World, utils.HeaderSyncContractAddress, hscommon.SYNC_GENESIS_HEADER, sink.Bytes(), []common.Address{w.Operator()})
}

func (w *sideWorld) syncHeaders(raws [][]byte) world.Result {
	relayer := world.Acct(60).Address
	p := &hscommon.SyncBlockHeaderParam{ChainID: w.chainID, Address: relayer, Headers: raws}
	sink := common.NewZeroCopySink(nil)
	p.Serialization(sink)
	return invokeOn(w.World, utils.HeaderSyncContractAddress, hscommon.SYNC_BLOCK_HEADER, sink.Bytes(), []common.Address{relayer})
}

func (w *sideWorld) syncCrossChainMsgs(raws [][]byte) world.Result {
	relayer := world.Acct(60).Address
	p := &hscommon.SyncCrossChainMsgParam{ChainID: w.chainID, Address: relayer, CrossChainMsgs: raws}
	sink := common.NewZeroCopySink(nil)
	p.Serialization(sink)
	return invokeOn(w.World, utils.HeaderSyncContractAddress, hscommon.SYNC_CROSS_CHAIN_MSG, sink.Bytes(), []common.Address{relayer})
}

// hsGet reads a header-sync storage item: contract || prefix || parts...
func (w *sideWorld) hsGet(prefix string, parts ...[]byte) []byte {
	key := utils.ConcatKey(utils.HeaderSyncContractAddress, append([][]byte{[]byte(prefix)}, parts...)...)
	return w.Get(key)
}
