package pontneo

import (
	"bytes"
	"fmt"
	"sort"
	"testing"

	"github.com/polynetwork/poly/native/service/utils"
	"pgregory.net/rapid"

	"verif/harness/ev"
)

// ---------------------------------------------------------------------------------------------
// C31 Ontology and NEO light clients follow authenticated validator changes

const c31Chain = 9

// signerPlan describes the signers of a header relative to whatever validator set is in force
// when the header is judged (resolved inside run against the model state, so histories stay
// meaningful whatever happened before and shrink well).
type signerPlan struct {
	Mode  string    `json:"mode"` // clean | below | dup | foreign | badsig | mismatch | raw
	Sel   int       `json:"sel"`
	K     int       `json:"k"`
	Fresh bool      `json:"fresh,omitempty"`
	Keys  []int     `json:"keys,omitempty"` // raw mode
	Sigs  []sigSpec `json:"sigs,omitempty"` // raw mode
}

func genPlan(t *rapid.T) signerPlan {
	p := signerPlan{
		Mode: rapid.SampledFrom([]string{"clean", "clean", "clean", "clean", "clean", "clean", "clean", "clean", "clean", "clean",
			"below", "dup", "dup", "foreign", "badsig", "mismatch", "raw"}).Draw(t, "mode"),
		Sel:   rapid.IntRange(0, 50).Draw(t, "sel"),
		K:     rapid.IntRange(0, 20).Draw(t, "k"),
		Fresh: rapid.Bool().Draw(t, "fresh"),
	}
	if p.Mode == "raw" {
		p.Keys = rapid.SliceOfN(rapid.IntRange(0, poolSize-1), 0, 6).Draw(t, "keys")
		p.Sigs = rapid.SliceOfN(rapid.Custom(genSig), 0, 6).Draw(t, "sigs")
	}
	return p
}

// resolve turns a plan into a concrete signer list against `set` (requirement `need`).
func (p signerPlan) resolve(set []int, need int, ordered bool) (keys []int, sigs []sigSpec) {
	n := len(set)
	if p.Mode == "raw" || n == 0 {
		return p.Keys, p.Sigs
	}
	pos := map[int]int{}
	for i, k := range set {
		pos[k] = i
	}
	subset := func(m int) []int {
		if m > n {
			m = n
		}
		var out []int
		for i := 0; i < m; i++ {
			out = append(out, set[(p.Sel+i)%n])
		}
		if ordered {
			sort.SliceStable(out, func(i, j int) bool { return pos[out[i]] < pos[out[j]] })
		} else if p.K%2 == 1 {
			for i, j := 0, len(out)-1; i < j; i, j = i+1, j-1 {
				out[i], out[j] = out[j], out[i]
			}
		}
		return out
	}
	atLeast := need
	if atLeast < 1 {
		atLeast = 1
	}
	if atLeast > n {
		atLeast = n
	}
	cleanSize := atLeast + p.K%(n-atLeast+1)
	switch p.Mode {
	case "clean":
		keys = subset(cleanSize)
		sigs = okSigs(keys)
	case "below":
		keys = subset(need - 1)
		sigs = okSigs(keys)
	case "dup":
		a := set[p.Sel%n]
		c := need
		if c < 2 {
			c = 2
		}
		c += p.K % 3
		for i := 0; i < c; i++ {
			keys = append(keys, a)
		}
		if need >= 3 && p.K%2 == 0 {
			for _, o := range subset(need - 1) {
				if o != a && len(keys) < c+need-2 {
					keys = append(keys, o)
				}
			}
		}
		if ordered {
			sort.SliceStable(keys, func(i, j int) bool { return pos[keys[i]] < pos[keys[j]] })
		}
		sigs = okSigs(keys)
		if p.Fresh {
			for i := range sigs {
				sigs[i].Nonce = i
			}
		}
	case "foreign":
		keys = subset(cleanSize)
		fk := foreignKeys(set)
		j := 1 + p.K%len(keys)
		for i := 0; i < j; i++ {
			keys[i] = fk[(p.Sel+i)%len(fk)]
		}
		sigs = okSigs(keys)
	case "badsig":
		keys = subset(cleanSize)
		sigs = okSigs(keys)
		j := 1 + p.K%len(sigs)
		for i := 0; i < j; i++ {
			if (p.Sel+i)%2 == 0 {
				sigs[i].Kind = "badmsg"
			} else {
				sigs[i].Kind = "garbage"
			}
		}
	case "mismatch":
		keys = subset(cleanSize)
		for i := range keys {
			sigs = append(sigs, sigSpec{By: keys[0], Kind: "ok", Nonce: i})
		}
	}
	return
}

type c31Hdr struct {
	Off    int        `json:"off"` // height / index = genesis + off (clamped at 0)
	Height uint32     `json:"-"`
	Salt   uint32     `json:"salt,omitempty"`
	HasNew bool       `json:"hasnew,omitempty"` // ONT: carries NewChainConfig; NEO: next consensus differs (script NewM-of-New)
	New    []int      `json:"new,omitempty"`
	NewM   int        `json:"newm,omitempty"`
	NewIdx []uint32   `json:"newidx,omitempty"` // ONT: consensus indexes of the New peers (nil: dense)
	Script string     `json:"script,omitempty"` // NEO witness script: "" tracked | own | lowerm | other | tiny
	Plan   signerPlan `json:"plan"`
}

type c31Case struct {
	Router  string     `json:"router"` // ont | neo | neo3
	Set     []int      `json:"set"`
	M       int        `json:"m,omitempty"`
	Idx     []uint32   `json:"idx,omitempty"` // ONT: consensus indexes of the genesis peers (nil: dense)
	Genesis uint32     `json:"genesis"`
	NoCfg   bool       `json:"nocfg,omitempty"` // ONT: genesis header without NewChainConfig (no trust root peers)
	Calls   [][]c31Hdr `json:"calls"`
}

func genC31Hdr(t *rapid.T) c31Hdr {
	h := c31Hdr{Off: rapid.IntRange(-2, 20).Draw(t, "off"), Salt: rapid.Uint32Range(0, 3).Draw(t, "salt"), Plan: genPlan(t)}
	if rapid.Bool().Draw(t, "change") {
		h.HasNew = true
		h.New = genSet(t, "new", 1, 6)
		h.NewM = rapid.IntRange(1, len(h.New)).Draw(t, "newm")
		h.NewIdx = genPeerIdx(t, "newidx", len(h.New))
	}
	h.Script = rapid.SampledFrom([]string{"", "", "", "", "", "", "own", "lowerm", "other", "tiny"}).Draw(t, "script")
	return h
}

func genC31(t *rapid.T) c31Case {
	c := c31Case{Router: rapid.SampledFrom([]string{"ont", "ont", "neo", "neo3"}).Draw(t, "router")}
	c.Set = genSet(t, "set", 1, 7)
	c.M = rapid.IntRange(1, len(c.Set)).Draw(t, "m")
	c.Idx = genPeerIdx(t, "idx", len(c.Set))
	c.Genesis = rapid.SampledFrom([]uint32{0, 3, 8}).Draw(t, "genesis")
	c.NoCfg = c.Router == "ont" && rapid.IntRange(0, 19).Draw(t, "nocfg") == 0
	c.Calls = rapid.SliceOfN(rapid.SliceOfN(rapid.Custom(genC31Hdr), 1, 3), 1, ev.Scale(7, 10)).Draw(t, "calls")
	return c
}

func runC31(ctx *ev.Ctx, c c31Case) {
	ctx.Label("router:" + c.Router)
	if len(c.Set) == 0 || !distinct(c.Set) || c.M < 1 || c.M > len(c.Set) || !idxOK(c.Idx, len(c.Set)) {
		ctx.Label("skipped:malformed-case")
		return
	}
	for _, call := range c.Calls {
		for i := range call {
			h := &call[i]
			h.Height = 0
			if int(c.Genesis)+h.Off > 0 {
				h.Height = uint32(int(c.Genesis) + h.Off)
			}
			if h.HasNew && (len(h.New) == 0 || !distinct(h.New) || h.NewM < 1 || h.NewM > len(h.New) || !idxOK(h.NewIdx, len(h.New))) {
				ctx.Label("skipped:malformed-case")
				return
			}
		}
	}
	if c.Router == "ont" {
		runC31Ont(ctx, c)
	} else {
		runC31Neo(ctx, c)
	}
}

// ---------------------------------------------------------------------------------------------
// Ontology

type ontModel struct {
	keys   map[uint32][]int  // key height -> peer set (pool keys)
	stored map[uint32][]byte // height -> header hash
}

func (m ontModel) clone() ontModel {
	n := ontModel{keys: map[uint32][]int{}, stored: map[uint32][]byte{}}
	for k, v := range m.keys {
		n.keys[k] = v
	}
	for k, v := range m.stored {
		n.stored[k] = v
	}
	return n
}

// inForce: the peer set recorded at the greatest key height strictly below h.
func (m ontModel) inForce(h uint32) (uint32, []int, bool) {
	best, found := uint32(0), false
	for k := range m.keys {
		if k < h && (!found || k > best) {
			best, found = k, true
		}
	}
	if !found {
		return 0, nil, false
	}
	return best, m.keys[best], true
}

func runC31Ont(ctx *ev.Ctx, c c31Case) {
	w := newSideWorld(c31Chain, utils.ONT_ROUTER, nil, nil)
	defer w.Close()
	g := ontHeader{Height: c.Genesis, HasCfg: !c.NoCfg, NewCfg: c.Set, NewIdx: c.Idx}
	if msg := ontSelfCheck(g); msg != "" {
		panic("harness: " + msg)
	}
	if r := w.syncGenesis(ontHeaderBytes(g)); !r.OK() {
		ctx.Failf("setup: operator-signed syncGenesisHeader failed: %v", r.Err)
	}
	model := ontModel{keys: map[uint32][]int{}, stored: map[uint32][]byte{c.Genesis: ontHeaderHash(g)}}
	if !c.NoCfg {
		model.keys[c.Genesis] = c.Set
	}
	probe := map[uint32]bool{c.Genesis: true}
	for _, call := range c.Calls {
		for _, h := range call {
			probe[h.Height] = true
		}
	}
	changesAccepted := 0
	for ci, call := range c.Calls {
		w.NextBlock()
		tent := model.clone()
		mustReject, allClean, why := false, true, ""
		var raws [][]byte
		judgedWithTwoEpochs, dupJudged := false, false
		newSets := 0
		for hi, spec := range call {
			kh, tracked, found := tent.inForce(spec.Height)
			base := tracked
			if !found {
				base = c.Set
			}
			need := ceilThird(len(base))
			keys, sigs := spec.Plan.resolve(base, need, false)
			h := ontHeader{Height: spec.Height, Salt: spec.Salt, HasCfg: spec.HasNew, NewCfg: spec.New, NewIdx: spec.NewIdx, Keys: keys, Sigs: sigs}
			raws = append(raws, ontHeaderBytes(h))
			if mustReject {
				continue // the call is already doomed; later headers are sent but not judged
			}
			if _, dup := tent.stored[spec.Height]; dup {
				ctx.Label("ont:header-height-already-stored(skipped)")
				continue
			}
			if !found {
				mustReject, why = true, fmt.Sprintf("header %d (height %d): no key height below it", hi, spec.Height)
				ctx.Label("ont:no-key-height-below")
				continue
			}
			v := c24Oracle(tracked, need, keys, true, sigs)
			if len(tent.keys) >= 2 {
				judgedWithTwoEpochs = true
			}
			if hasDup(keys) && len(keys) >= need && !v.eligible {
				dupJudged = true
			}
			if !v.eligible {
				mustReject = true
				why = fmt.Sprintf("header %d (height %d): %d distinct valid signer(s) of the peer set at key height %d %v, %d required (bookkeepers %v, sigs %+v)",
					hi, spec.Height, v.distinct, kh, tracked, need, keys, sigs)
				ctx.Label("ont:header-ineligible:" + spec.Plan.Mode)
				continue
			}
			if !ontClean(tracked, need, keys, sigs) {
				allClean = false
			}
			tent.stored[spec.Height] = ontHeaderHash(h)
			if spec.HasNew {
				tent.keys[spec.Height] = spec.New
				newSets++
			}
		}
		r := w.syncHeaders(raws)
		if r.Panic != "" {
			ctx.Failf("ont call %d: syncBlockHeader panicked: %s", ci, r.Panic)
		}
		switch {
		case r.OK() && mustReject:
			ctx.Failf("ont call %d accepted although %s", ci, why)
		case !r.OK() && !mustReject && allClean:
			ctx.Failf("ont call %d rejected although every new header is signed by enough distinct peers of the set in force with valid signatures: %v", ci, r.Err)
		case r.OK():
			model = tent
			changesAccepted += newSets
			ctx.Label("ont:call-accepted")
		case mustReject:
			ctx.Label("ont:call-rejected")
		default:
			ctx.Label("ont:call-rejected-though-eligible(strict)")
		}
		if judgedWithTwoEpochs || dupJudged {
			ctx.NonTrivial()
		}
		if judgedWithTwoEpochs {
			ctx.Label("ont:judged-with>=2-key-heights")
		}
		if dupJudged {
			ctx.Label("ont:dup-multiplicity-reaches-threshold")
		}
		// the light-client state is exactly what the model says
		for hgt := range probe {
			got := w.ontStoredHash(hgt)
			want := model.stored[hgt]
			if !bytes.Equal(got, want) {
				ctx.Failf("ont after call %d: header index at height %d is %x, model says %x", ci, hgt, got, want)
			}
			peers, has := w.ontPeers(hgt)
			wantSet, wantHas := model.keys[hgt]
			if has != wantHas {
				ctx.Failf("ont after call %d: peer set recorded at height %d = %v, model says %v", ci, hgt, has, wantHas)
			}
			if has {
				if len(peers) != len(wantSet) {
					ctx.Failf("ont after call %d: peer set at key height %d has %d members, model %v", ci, hgt, len(peers), wantSet)
				}
				for _, k := range wantSet {
					if !peers[sidePubHex(k)] {
						ctx.Failf("ont after call %d: peer set at key height %d lacks pool key %d", ci, hgt, k)
					}
				}
			}
		}
		var wantHeights []uint32
		for k := range model.keys {
			wantHeights = append(wantHeights, k)
		}
		sort.Slice(wantHeights, func(i, j int) bool { return wantHeights[i] > wantHeights[j] })
		if got := w.ontKeyHeights(); fmt.Sprint(got) != fmt.Sprint(wantHeights) {
			ctx.Failf("ont after call %d: key heights %v, model says %v", ci, got, wantHeights)
		}
	}
	ctx.Label(fmt.Sprintf("ont:validator-changes-accepted:%d", min(changesAccepted, 3)))
}

// ---------------------------------------------------------------------------------------------
// NEO / NEO N3

type neoTrackedModel struct {
	idx    uint32
	spec   scriptSpec
	script []byte
	hash   []byte
}

func runC31Neo(ctx *ev.Ctx, c c31Case) {
	isNeo3 := c.Router == "neo3"
	mkScript := neo2Script
	mkHeader := neo2HeaderBytes
	tiny := []byte{0x51}
	if isNeo3 {
		mkScript, mkHeader, tiny = neo3Script, neo3HeaderBytes, []byte{0x11}
	}
	var w *sideWorld
	if isNeo3 {
		w = newSideWorld(c31Chain, utils.NEO3_ROUTER, []byte{5, 0, 0, 0}, u32le(neo3Magic))
	} else {
		w = newSideWorld(c31Chain, utils.NEO_ROUTER, make([]byte, 20), nil)
	}
	defer w.Close()
	mkTracked := func(idx uint32, sp scriptSpec) neoTrackedModel {
		sp.Keys = canonicalOrder(sp.Keys)
		s := mkScript(sp)
		return neoTrackedModel{idx: idx, spec: sp, script: s, hash: hash160(s)}
	}
	model := mkTracked(c.Genesis, scriptSpec{M: c.M, Keys: c.Set})
	if r := w.syncGenesis(mkHeader(neoHeader{Index: c.Genesis}, model.hash, tiny)); !r.OK() {
		ctx.Failf("setup: operator-signed syncGenesisHeader failed: %v", r.Err)
	}
	changes := 0
	for ci, call := range c.Calls {
		w.NextBlock()
		pre := model
		var last *neoTrackedModel
		mustReject, allClean, why := false, true, ""
		var raws [][]byte
		nontrivial := false
		for hi, spec := range call {
			next := pre
			if spec.HasNew {
				next = mkTracked(spec.Height, scriptSpec{M: spec.NewM, Keys: spec.New})
			}
			keys, sigs := spec.Plan.resolve(pre.spec.Keys, pre.spec.M, true)
			// witness verification script
			ver := pre.script
			switch spec.Script {
			case "own":
				if ks := canonicalOrder(dedupe(keys)); len(ks) > 0 {
					ver = mkScript(scriptSpec{M: 1 + spec.Plan.K%len(ks), Keys: ks})
				}
			case "lowerm":
				if pre.spec.M > 1 {
					ver = mkScript(scriptSpec{M: 1 + spec.Plan.K%(pre.spec.M-1), Keys: pre.spec.Keys})
				}
			case "other":
				if spec.HasNew {
					ver = next.script // signed under the NEW validators' script instead of the tracked one
				}
			case "tiny":
				ver = tiny
			}
			raws = append(raws, mkHeader(neoHeader{Index: spec.Height, Salt: spec.Salt, Sigs: sigs}, next.hash, ver))
			if mustReject {
				continue
			}
			if bytes.Equal(next.hash, pre.hash) {
				ctx.Label(c.Router + ":header-same-consensus(ignored)")
				continue
			}
			if spec.Height <= pre.idx {
				ctx.Label(c.Router + ":change-at-index<=tracked(ignored)")
				nontrivial = true
				continue
			}
			scriptOK := bytes.Equal(ver, pre.script)
			v := c24Oracle(pre.spec.Keys, pre.spec.M, pre.spec.Keys, scriptOK, sigs)
			if changes > 0 {
				nontrivial = true // judged against a validator set that itself came from a header
			}
			if !v.eligible {
				mustReject = true
				why = fmt.Sprintf("header %d (index %d, tracked index %d): witness script is the tracked one=%v, %d distinct valid tracked signer(s), %d required (tracked %+v, sigs %+v)",
					hi, spec.Height, pre.idx, scriptOK, v.distinct, pre.spec.M, pre.spec, sigs)
				ctx.Label(c.Router + ":header-ineligible:" + spec.Plan.Mode + "/" + spec.Script)
				if scriptOK && hasDupSigner(sigs) {
					nontrivial = true
				}
				continue
			}
			if !neoClean(pre.spec.Keys, pre.spec.M, sigs) {
				allClean = false
			}
			nx := next
			last = &nx
		}
		r := w.syncHeaders(raws)
		if r.Panic != "" {
			ctx.Failf("%s call %d: syncBlockHeader panicked: %s", c.Router, ci, r.Panic)
		}
		switch {
		case r.OK() && mustReject:
			ctx.Failf("%s call %d accepted although %s", c.Router, ci, why)
		case !r.OK() && !mustReject && allClean:
			ctx.Failf("%s call %d rejected although every consensus-changing header carries the tracked script with enough in-order valid signatures: %v", c.Router, ci, r.Err)
		case r.OK():
			if last != nil {
				model = *last
				changes++
				ctx.Label(c.Router + ":validator-change-accepted")
			} else {
				ctx.Label(c.Router + ":call-accepted-no-change")
			}
		case mustReject:
			ctx.Label(c.Router + ":call-rejected")
		default:
			ctx.Label(c.Router + ":call-rejected-though-eligible(strict)")
		}
		if nontrivial {
			ctx.NonTrivial()
		}
		idx, nc, ok := w.neoTracked()
		if !ok || idx != model.idx || !bytes.Equal(nc, model.hash) {
			ctx.Failf("%s after call %d: tracked consensus is (index %d, %x, present=%v), model says (index %d, %x)", c.Router, ci, idx, nc, ok, model.idx, model.hash)
		}
	}
}

func hasDupSigner(sigs []sigSpec) bool {
	seen := map[int]bool{}
	for _, s := range sigs {
		if s.Kind == "ok" {
			if seen[s.By] {
				return true
			}
			seen[s.By] = true
		}
	}
	return false
}

func TestC31(t *testing.T) {
	ev.Drive(t, "C31",
		"cases: a side chain registered and its trust root installed through the real flow, then 1..6 syncBlockHeader calls of 1..3 synthetic headers each, heights/indices in any order "+
			"(below, at, above key heights; repeats), every third header changing the validator set; signers are planned relative to the set in force when the header is judged "+
			"(clean/below/dup/foreign/badsig/mismatch/raw), NEO witnesses under the tracked script, the signers' own script, a lower threshold, the new validators' script or a 1-byte script. "+
			"After every call the whole light-client state (stored headers, key heights, peer sets / tracked next-consensus) must equal the reference model. "+
			"non-trivial: a header judged when >=2 key heights are recorded or against a validator set that itself came from a header, a duplicated signer whose multiplicity reaches the requirement, or a change offered at an index <= the tracked one",
		genC31, runC31)
}
