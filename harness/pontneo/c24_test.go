package pontneo

import (
	"crypto/sha256"
	"fmt"
	"strings"
	"testing"

	"github.com/polynetwork/poly/common"
	ccom "github.com/polynetwork/poly/native/service/cross_chain_manager/common"
	"github.com/polynetwork/poly/native/service/header_sync/neo"
	"github.com/polynetwork/poly/native/service/header_sync/neo3"
	"github.com/polynetwork/poly/native/service/utils"
	"pgregory.net/rapid"

	"verif/harness/ev"
	"verif/harness/world"
)

// ---------------------------------------------------------------------------------------------
// C24 Validator-signed cross-chain messages need distinct tracked signers

const (
	c24Chain      = 7
	ontGenesisH   = 10 // Ontology trust root: key height 10
	ontSecondKeyH = 20 // optional second key height (installed by a properly signed header)
	neoGenesisIdx = 10
	keyFindingOnt = "ont-crosschainmsg-duplicate-signer"
)

type c24Case struct {
	Router  string      `json:"router"`            // ont | neo | neo3
	Set     []int       `json:"set"`               // tracked validator set (distinct pool keys)
	M       int         `json:"m,omitempty"`       // neo: threshold of the tracked script (ont: ceil(N/3); neo3: N-floor((N-1)/3))
	Set2    []int       `json:"set2,omitempty"`    // ont: second peer set, recorded at key height 20
	Idx     []uint32    `json:"idx,omitempty"`     // ont: consensus index of each Set peer in the source chain's config (nil: dense 1..n)
	Idx2    []uint32    `json:"idx2,omitempty"`    // ont: same for Set2
	Height  uint32      `json:"height"`            // ont: message height; neo/neo3: state root index
	Keys    []int       `json:"keys,omitempty"`    // ont: bookkeeper list sent with the message
	Tracked bool        `json:"tracked,omitempty"` // neo*: the witness script is the tracked script
	Script  *scriptSpec `json:"script,omitempty"`  // neo*: otherwise this script
	Sigs    []sigSpec   `json:"sigs"`
	Path    string      `json:"path"` // ont: sync | import | import2 ; neo*: gate+handler are both run
	// import2 (ont): an honest message of the height is stored first (FirstVia sync|import), then a second
	// deposit at the same height carries Second = none | same | forged (a message with another state
	// root whose signer list is Keys/Sigs, with a proof against that forged root)
	Second   string `json:"second,omitempty"`
	FirstVia string `json:"firstvia,omitempty"`
	Mode     string `json:"mode"` // generator mode (label only)
}

func genSet(t *rapid.T, name string, lo, hi int) []int {
	return rapid.SliceOfNDistinct(rapid.IntRange(0, poolSize-1), lo, hi, rapid.ID[int]).Draw(t, name)
}

// genPeerIdx draws the consensus indexes the source chain assigns to n peers: dense 1..n (nil) or
// arbitrary distinct uint32 values (sparse, around 63/64/65 and 128, 2^31, 2^32-1); the light
// client copies them verbatim from new_chain_config.peers[].index.
func genPeerIdx(t *rapid.T, name string, n int) []uint32 {
	if rapid.IntRange(0, 2).Draw(t, name+"dense") == 0 {
		return nil
	}
	one := rapid.OneOf(
		rapid.SampledFrom([]uint32{0, 1, 2, 31, 32, 33, 62, 63, 64, 65, 66, 127, 128, 129, 191, 192, 255, 256, 1 << 16, 1<<31 - 1, 1 << 31, 1<<31 + 1, 1<<32 - 2, 1<<32 - 1}),
		rapid.Uint32Range(60, 140),
		rapid.Uint32Range(0, 20),
		rapid.Uint32(),
	)
	return rapid.SliceOfNDistinct(one, n, n, rapid.ID[uint32]).Draw(t, name)
}

func idxOK(idx []uint32, n int) bool {
	if len(idx) == 0 {
		return true
	}
	seen := map[uint32]bool{}
	for _, v := range idx {
		if seen[v] {
			return false
		}
		seen[v] = true
	}
	return len(idx) == n
}

func pickSubset(t *rapid.T, name string, from []int, k int) []int {
	if k > len(from) {
		k = len(from)
	}
	if k <= 0 {
		return nil
	}
	idx := rapid.SliceOfNDistinct(rapid.IntRange(0, len(from)-1), k, k, rapid.ID[int]).Draw(t, name)
	out := make([]int, k)
	for i, j := range idx {
		out[i] = from[j]
	}
	return out
}

func foreignKeys(set []int) []int {
	in := map[int]bool{}
	for _, k := range set {
		in[k] = true
	}
	var out []int
	for k := 0; k < poolSize; k++ {
		if !in[k] {
			out = append(out, k)
		}
	}
	return out
}

func okSigs(keys []int) []sigSpec {
	out := make([]sigSpec, len(keys))
	for i, k := range keys {
		out[i] = sigSpec{By: k, Kind: "ok"}
	}
	return out
}

func genSig(t *rapid.T) sigSpec {
	return sigSpec{By: rapid.IntRange(0, poolSize-1).Draw(t, "by"),
		Kind:  rapid.SampledFrom([]string{"ok", "ok", "ok", "badmsg", "garbage"}).Draw(t, "kind"),
		Nonce: rapid.IntRange(0, 2).Draw(t, "nonce")}
}

// genSigners draws a signer list against a tracked set `set` with requirement `need`.
// ordered: the list must follow the order of `set` to be well-formed (NEO scripts).
func genSigners(t *rapid.T, set []int, need int, ordered bool) (mode string, keys []int, sigs []sigSpec) {
	n := len(set)
	mode = rapid.SampledFrom([]string{"clean", "clean", "below", "dup", "dup", "dup", "foreign", "badsig", "mismatch", "random"}).Draw(t, "mode")
	inOrder := func(sub []int) []int {
		if !ordered {
			return sub
		}
		pos := map[int]int{}
		for i, k := range set {
			pos[k] = i
		}
		out := append([]int(nil), sub...)
		for i := 1; i < len(out); i++ {
			for j := i; j > 0 && pos[out[j]] < pos[out[j-1]]; j-- {
				out[j], out[j-1] = out[j-1], out[j]
			}
		}
		return out
	}
	switch mode {
	case "clean":
		k := rapid.IntRange(need, n).Draw(t, "k")
		keys = inOrder(pickSubset(t, "sub", set, k))
		sigs = okSigs(keys)
		if !ordered && len(sigs) > 1 && rapid.Bool().Draw(t, "rot") {
			sigs = append(sigs[1:], sigs[0])
		}
	case "below":
		keys = inOrder(pickSubset(t, "sub", set, need-1))
		sigs = okSigs(keys)
	case "dup":
		a := set[rapid.IntRange(0, n-1).Draw(t, "a")]
		lo := need
		if lo < 2 {
			lo = 2
		}
		c := rapid.IntRange(lo, lo+2).Draw(t, "c")
		fresh := rapid.Bool().Draw(t, "fresh")
		var others []int
		if need >= 3 && rapid.Bool().Draw(t, "withothers") {
			var rest []int
			for _, k := range set {
				if k != a {
					rest = append(rest, k)
				}
			}
			others = pickSubset(t, "others", rest, rapid.IntRange(1, need-2).Draw(t, "e"))
		}
		for i := 0; i < c; i++ {
			keys = append(keys, a)
			s := sigSpec{By: a, Kind: "ok"}
			if fresh {
				s.Nonce = i
			}
			sigs = append(sigs, s)
		}
		keys = append(keys, others...)
		sigs = append(sigs, okSigs(others)...)
		if ordered && rapid.Bool().Draw(t, "sorted") {
			keys = inOrder(keys)
			sigs = okSigs(keys)
			if fresh {
				for i := range sigs {
					sigs[i].Nonce = i
				}
			}
		}
	case "foreign":
		k := rapid.IntRange(need, n).Draw(t, "k")
		keys = pickSubset(t, "sub", set, k)
		fk := foreignKeys(set)
		j := rapid.IntRange(1, len(keys)).Draw(t, "j")
		for i := 0; i < j && i < len(keys); i++ {
			keys[i] = fk[(i+rapid.IntRange(0, len(fk)-1).Draw(t, "f"))%len(fk)]
		}
		sigs = okSigs(keys)
	case "badsig":
		k := rapid.IntRange(need, n).Draw(t, "k")
		keys = inOrder(pickSubset(t, "sub", set, k))
		sigs = okSigs(keys)
		j := rapid.IntRange(1, len(sigs)).Draw(t, "j")
		for i := 0; i < j; i++ {
			sigs[(i*3)%len(sigs)].Kind = rapid.SampledFrom([]string{"badmsg", "garbage"}).Draw(t, "bad")
		}
	case "mismatch":
		k := rapid.IntRange(need, n).Draw(t, "k")
		keys = inOrder(pickSubset(t, "sub", set, k))
		for i := range keys {
			sigs = append(sigs, sigSpec{By: keys[0], Kind: "ok", Nonce: i})
		}
	default:
		keys = rapid.SliceOfN(rapid.IntRange(0, poolSize-1), 0, 8).Draw(t, "keys")
		sigs = rapid.SliceOfN(rapid.Custom(genSig), 0, 8).Draw(t, "sigs")
	}
	return
}

func genC24(t *rapid.T) c24Case {
	c := c24Case{Router: rapid.SampledFrom([]string{"ont", "ont", "neo", "neo3"}).Draw(t, "router")}
	c.Set = genSet(t, "set", 1, 10)
	switch c.Router {
	case "ont":
		c.Idx = genPeerIdx(t, "idx", len(c.Set))
		if rapid.IntRange(0, 3).Draw(t, "epoch2") == 0 {
			c.Set2 = genSet(t, "set2", 1, 10)
			c.Idx2 = genPeerIdx(t, "idx2", len(c.Set2))
		}
		c.Height = rapid.SampledFrom([]uint32{5, 10, 11, 15, 20, 21, 21, 30, 30, 30}).Draw(t, "height")
		inForce := c.Set
		if c.Set2 != nil && c.Height > ontSecondKeyH {
			inForce = c.Set2
		}
		c.Mode, c.Keys, c.Sigs = genSigners(t, inForce, ceilThird(len(inForce)), false)
		c.Path = rapid.SampledFrom([]string{"sync", "sync", "import", "import2", "import2"}).Draw(t, "path")
		if c.Path == "import2" {
			c.Second = rapid.SampledFrom([]string{"none", "same", "forged", "forged", "forged", "forged"}).Draw(t, "second")
			c.FirstVia = rapid.SampledFrom([]string{"sync", "import"}).Draw(t, "firstvia")
			if c.Height <= ontGenesisH {
				c.Height = 11
			}
			if c.Second == "forged" && rapid.IntRange(0, 3).Draw(t, "unsigned") == 0 {
				c.Mode, c.Keys, c.Sigs = "unsigned", nil, nil
			}
		}
	default:
		n := len(c.Set)
		c.Set = canonicalOrder(c.Set)
		if c.Router == "neo" {
			c.M = rapid.IntRange(1, n).Draw(t, "m")
		} else {
			c.M = n - (n-1)/3
		}
		c.Height = rapid.Uint32Range(0, 40).Draw(t, "index")
		var keys []int
		c.Mode, keys, c.Sigs = genSigners(t, c.Set, c.M, true)
		c.Tracked = true
		switch rapid.IntRange(0, 9).Draw(t, "scriptvar") {
		case 0: // the signers' own script: exactly the listed keys, all required
			ks := dedupe(keys)
			if len(ks) > 0 {
				c.Tracked, c.Script = false, &scriptSpec{M: rapid.IntRange(1, len(ks)).Draw(t, "sm"), Keys: ks}
				c.Mode += "+ownscript"
			}
		case 1: // tracked keys, lower threshold
			if c.M > 1 {
				c.Tracked, c.Script = false, &scriptSpec{M: rapid.IntRange(1, c.M-1).Draw(t, "sm"), Keys: c.Set}
				c.Mode += "+lowerm"
			}
		case 2: // tracked keys in another order, or a repeated key inside the script
			if n > 1 {
				ks := append([]int(nil), c.Set...)
				if rapid.Bool().Draw(t, "swap") {
					ks[0], ks[n-1] = ks[n-1], ks[0]
				} else {
					ks[1] = ks[0]
				}
				c.Tracked, c.Script = false, &scriptSpec{M: c.M, Keys: ks}
				c.Mode += "+reshaped"
			}
		}
		c.Path = "gate+handler"
	}
	return c
}

func dedupe(xs []int) []int {
	seen := map[int]bool{}
	var out []int
	for _, x := range xs {
		if !seen[x] {
			seen[x] = true
			out = append(out, x)
		}
	}
	return out
}

// c24Verdict is the independent oracle. tracked: the validator set in force for the message (nil:
// none); need: required number of distinct signers; listed: keys the message names as signers;
// scriptOK: the message's verification script is the tracked one (always true for Ontology).
type c24Verdict struct {
	eligible bool // enough distinct tracked members validly signed => acceptance is allowed
	distinct int
	need     int
}

func c24Oracle(tracked []int, need int, listed []int, scriptOK bool, sigs []sigSpec) c24Verdict {
	v := c24Verdict{need: need}
	if tracked == nil || !scriptOK {
		return v
	}
	valid := validSigners(sigs)
	isListed := map[int]bool{}
	for _, k := range listed {
		isListed[k] = true
	}
	for _, k := range tracked { // tracked holds distinct keys
		if isListed[k] && valid[k] {
			v.distinct++
		}
	}
	v.eligible = v.distinct >= need
	return v
}

func runC24(ctx *ev.Ctx, c c24Case) {
	ctx.Label("router:" + c.Router)
	ctx.Label("mode:" + c.Mode)
	if len(c.Set) == 0 || !distinct(c.Set) || (c.Set2 != nil && (len(c.Set2) == 0 || !distinct(c.Set2))) || !idxOK(c.Idx, len(c.Set)) || !idxOK(c.Idx2, len(c.Set2)) {
		ctx.Label("skipped:malformed-case")
		return
	}
	switch c.Router {
	case "ont":
		runC24Ont(ctx, c)
	case "neo", "neo3":
		runC24Neo(ctx, c)
	}
}

// ontClean: a signer list every reading of the rule accepts: distinct tracked bookkeepers, at
// least `need` of them, and one valid signature of each (the first len(keys) signatures).
func ontClean(tracked []int, need int, keys []int, sigs []sigSpec) bool {
	if tracked == nil || !distinct(keys) || !subsetOf(keys, tracked) || len(keys) < need || len(sigs) < len(keys) {
		return false
	}
	var by []int
	for _, s := range sigs[:len(keys)] {
		if s.Kind != "ok" {
			return false
		}
		by = append(by, s.By)
	}
	return distinct(by) && subsetOf(by, keys)
}

// neoClean: m..n valid signatures by distinct keys of the script, in script order.
func neoClean(order []int, m int, sigs []sigSpec) bool {
	if len(sigs) < m || len(sigs) > len(order) || len(sigs) == 0 {
		return false
	}
	pos := map[int]int{}
	for i, k := range order {
		pos[k] = i
	}
	last := -1
	for _, s := range sigs {
		pi, ok := pos[s.By]
		if s.Kind != "ok" || !ok || pi <= last {
			return false
		}
		last = pi
	}
	return true
}

func hasDup(xs []int) bool { return !distinct(xs) }

func subsetOf(xs []int, set []int) bool {
	in := map[int]bool{}
	for _, k := range set {
		in[k] = true
	}
	for _, x := range xs {
		if !in[x] {
			return false
		}
	}
	return true
}

func runC24Ont(ctx *ev.Ctx, c c24Case) {
	w := newSideWorld(c24Chain, utils.ONT_ROUTER, nil, nil)
	defer w.Close()
	if r := w.syncGenesis(ontHeaderBytes(ontHeader{Height: ontGenesisH, HasCfg: true, NewCfg: c.Set, NewIdx: c.Idx})); !r.OK() {
		ctx.Failf("setup: operator-signed syncGenesisHeader failed: %v", r.Err)
	}
	if c.Set2 != nil {
		kh := ontHeader{Height: ontSecondKeyH, HasCfg: true, NewCfg: c.Set2, NewIdx: c.Idx2, Keys: c.Set, Sigs: okSigs(c.Set)}
		if r := w.syncHeaders([][]byte{ontHeaderBytes(kh)}); !r.OK() {
			ctx.Failf("setup: key header signed by every tracked peer was rejected: %v", r.Err)
		}
	}
	w.NextBlock()
	// the set in force: recorded at the greatest key height strictly below the message height
	var tracked []int
	switch {
	case c.Height > ontSecondKeyH && c.Set2 != nil:
		tracked = c.Set2
	case c.Height > ontGenesisH:
		tracked = c.Set
	}
	need := ceilThird(len(tracked))
	v := c24Oracle(tracked, need, c.Keys, true, c.Sigs)
	if c.Path == "import2" {
		runC24OntTwoStep(ctx, c, w, tracked, need, v)
		return
	}

	// a transfer payload provable against the message's state root by a one-leaf Merkle path
	mp := &ccom.MakeTxParam{TxHash: []byte{1, 2, 3}, CrossChainID: []byte{9, 9}, FromContractAddress: []byte{7}, ToChainID: c24Chain,
		ToContractAddress: []byte{8}, Method: "unlock", Args: []byte{1}}
	ms := common.NewZeroCopySink(nil)
	mp.Serialization(ms)
	leaf := sha256.Sum256(append([]byte{0}, ms.Bytes()...))
	m := ontMsg{Height: c.Height, Keys: c.Keys, Sigs: c.Sigs}
	raw := ontMsgBytes(m, leaf[:])

	var r world.Result
	switch c.Path {
	case "import":
		ep := &ccom.EntranceParam{SourceChainID: c24Chain, Height: c.Height, Proof: varBytes(ms.Bytes()),
			RelayerAddress: world.Acct(60).Address[:], HeaderOrCrossChainMsg: raw}
		es := common.NewZeroCopySink(nil)
		ep.Serialization(es)
		r = w.Invoke(utils.CrossChainManagerContractAddress, ccom.IMPORT_OUTER_TRANSFER_NAME, es.Bytes(), []common.Address{world.Acct(60).Address})
	default:
		r = w.syncCrossChainMsgs([][]byte{raw})
	}
	accepted := r.OK()
	if stored := w.ontMsgStored(c.Height); stored != accepted {
		ctx.Failf("ont/%s: transaction ok=%v (err %v) but message stored=%v", c.Path, accepted, r.Err, stored)
	}

	// classification
	dupReaches := false
	if tracked != nil && hasDup(c.Keys) && len(c.Keys) >= need && !v.eligible {
		dupReaches = true
		ctx.NonTrivial()
		ctx.Label("ont:dup-multiplicity-reaches-threshold")
	}
	clean := ontClean(tracked, need, c.Keys, c.Sigs)
	switch {
	case accepted && !v.eligible:
		ctx.Label("ont:accepted-ineligible")
		msg := fmt.Sprintf("ont/%s: message at height %d accepted with %d distinct tracked valid signer(s), %d required (tracked set %v, peer indexes %v / %v (empty: dense 1..n), bookkeepers %v, sigs %+v)",
			c.Path, c.Height, v.distinct, need, tracked, c.Idx, c.Idx2, c.Keys, c.Sigs)
		if tracked != nil && hasDup(c.Keys) && subsetOf(c.Keys, tracked) {
			// root cause: VerifyCrossChainMsg has no used-key check; VerifyMultiSignature matches equal keys at different positions
			ctx.Known(keyFindingOnt, "%s", msg)
			return
		}
		ctx.Failf("%s", msg)
	case !accepted && clean:
		ctx.Failf("ont/%s: message at height %d signed by %d distinct tracked peers (>= %d required) with valid signatures was rejected: %v",
			c.Path, c.Height, len(c.Keys), need, r.Err)
	case accepted:
		ctx.Label("ont:accepted")
	case v.eligible:
		ctx.Label("ont:rejected-though-enough-signers(strict)")
	default:
		ctx.Label("ont:rejected")
	}
	_ = dupReaches
}

// runC24OntTwoStep: once an authenticated message of a height is stored, later deposits at that
// height are proven against THAT root; a relayer-supplied message with another root gains nothing
// unless it is itself signed by enough distinct tracked peers.
func runC24OntTwoStep(ctx *ev.Ctx, c c24Case, w *sideWorld, tracked []int, need int, v c24Verdict) {
	if tracked == nil || need < 1 {
		ctx.Label("skipped:malformed-case")
		return
	}
	ctx.Label("ont:second:" + c.Second)
	value := func(id byte) []byte {
		mp := &ccom.MakeTxParam{TxHash: []byte{1, 2, id}, CrossChainID: []byte{9, id}, FromContractAddress: []byte{7}, ToChainID: c24Chain,
			ToContractAddress: []byte{8}, Method: "unlock", Args: []byte{id}}
		s := common.NewZeroCopySink(nil)
		mp.Serialization(s)
		return s.Bytes()
	}
	relayer := world.Acct(60).Address
	deposit := func(proof, raw []byte) world.Result {
		ep := &ccom.EntranceParam{SourceChainID: c24Chain, Height: c.Height, Proof: proof, RelayerAddress: relayer[:], HeaderOrCrossChainMsg: raw}
		es := common.NewZeroCopySink(nil)
		ep.Serialization(es)
		return w.Invoke(utils.CrossChainManagerContractAddress, ccom.IMPORT_OUTER_TRANSFER_NAME, es.Bytes(), []common.Address{relayer})
	}
	// step 1: the honest message (two transfers in its state tree), signed by exactly `need` tracked peers
	honestVals := [][]byte{value(1), value(2)}
	root, proof1 := merkleRootAndPath(honestVals, 0)
	_, proof2 := merkleRootAndPath(honestVals, 1)
	signers := tracked[:need]
	honest := ontMsgBytes(ontMsg{Height: c.Height, Keys: signers, Sigs: okSigs(signers)}, root)
	var r1 world.Result
	if c.FirstVia == "import" {
		r1 = deposit(proof1, honest)
	} else {
		r1 = w.syncCrossChainMsgs([][]byte{honest})
	}
	if !r1.OK() || !w.ontMsgStored(c.Height) {
		ctx.Failf("ont/import2: honest message of height %d signed by %d distinct tracked peers (%d required) was not stored via %s: %v", c.Height, need, need, c.FirstVia, r1.Err)
	}
	w.NextBlock()
	// step 2
	switch c.Second {
	case "none", "same":
		var raw []byte
		if c.Second == "same" {
			raw = honest
		}
		if r := deposit(proof2, raw); !r.OK() {
			ctx.Failf("ont/import2: second deposit at height %d (message: %s) with a valid proof against the stored root was rejected: %v", c.Height, c.Second, r.Err)
		}
		ctx.Label("ont:second-deposit-accepted")
	default:
		forgedVal := value(3)
		froot, fproof := merkleRootAndPath([][]byte{forgedVal}, 0)
		forged := ontMsgBytes(ontMsg{Height: c.Height, Keys: c.Keys, Sigs: c.Sigs}, froot)
		before := w.Dump()
		r := deposit(fproof, forged)
		switch {
		case v.eligible:
			// a conflicting message that is itself signed by enough distinct tracked peers: not judged
			ctx.Label(fmt.Sprintf("ont:conflicting-authenticated-message(accepted=%v)", r.OK()))
		case r.OK():
			ctx.Failf("ont/import2: after the authenticated message of height %d was stored, a deposit proven against ANOTHER state root was accepted; the supplied message carrying that root has %d distinct tracked valid signer(s), %d required (tracked %v, bookkeepers %v, sigs %+v)",
				c.Height, v.distinct, need, tracked, c.Keys, c.Sigs)
		default:
			ctx.NonTrivial()
			ctx.Label("ont:forged-root-rejected")
			if d := world.DiffDump(before, w.Dump()); d != "" {
				ctx.Failf("ont/import2: rejected forged-root deposit changed state: %s", d)
			}
		}
	}
}

func runC24Neo(ctx *ev.Ctx, c c24Case) {
	n := len(c.Set)
	if c.M < 1 || c.M > n {
		ctx.Label("skipped:malformed-case")
		return
	}
	tr := scriptSpec{M: c.M, Keys: c.Set}
	order := c.Set
	var w *sideWorld
	var trackedScript, ver, raw []byte
	sp := tr
	if !c.Tracked {
		if c.Script == nil || c.Script.M < 1 || c.Script.M > len(c.Script.Keys) || len(c.Script.Keys) > 16 {
			ctx.Label("skipped:malformed-case")
			return
		}
		sp = *c.Script
	}
	m := neoMsg{Index: c.Height, Sigs: c.Sigs}
	if c.Router == "neo" {
		w = newSideWorld(c24Chain, utils.NEO_ROUTER, make([]byte, 20), nil)
		trackedScript = neo2Script(tr)
		g := neoHeader{Index: neoGenesisIdx}
		if r := w.syncGenesis(neo2HeaderBytes(g, hash160(trackedScript), []byte{0x51})); !r.OK() {
			ctx.Failf("setup: operator-signed syncGenesisHeader failed: %v", r.Err)
		}
		ver = neo2Script(sp)
		raw = neo2MsgBytes(m, ver)
	} else {
		if c.M != n-(n-1)/3 {
			ctx.Label("skipped:malformed-case")
			return
		}
		w = newSideWorld(c24Chain, utils.NEO3_ROUTER, []byte{5, 0, 0, 0}, u32le(neo3Magic))
		rev := make([]int, n) // registered in another order than the canonical one
		for i, k := range c.Set {
			rev[n-1-i] = k
		}
		w.registerStateValidators(rev)
		order = canonicalOrder(c.Set)
		tr.Keys = order
		if c.Tracked {
			sp = tr
		}
		trackedScript = neo3CanonicalScript(c.M, c.Set)
		if string(trackedScript) != string(neo3Script(tr)) {
			panic("harness: hand-written NEO3 script differs from the library's")
		}
		ver = neo3Script(sp)
		raw = neo3MsgBytes(m, ver)
	}
	defer w.Close()
	w.NextBlock()
	scriptOK := string(ver) == string(trackedScript)
	v := c24Oracle(c.Set, c.M, c.Set, scriptOK, c.Sigs)

	// (1) the exported signature gate
	var gateErr error
	p := ev.Catch(func() {
		if c.Router == "neo" {
			cm := new(neo.NeoCrossChainMsg)
			if err := cm.Deserialization(common.NewZeroCopySource(raw)); err != nil {
				panic("harness: NEO message does not decode: " + err.Error())
			}
			gateErr = neo.VerifyCrossChainMsgSig(w.Service(), c24Chain, cm)
		} else {
			cm := new(neo3.NeoCrossChainMsg)
			if err := cm.Deserialization(common.NewZeroCopySource(raw)); err != nil {
				panic("harness: NEO3 message does not decode: " + err.Error())
			}
			gateErr = neo3.VerifyCrossChainMsgSig(w.Service(), neo3Magic, cm)
		}
	})
	if p != "" {
		ctx.Failf("%s: VerifyCrossChainMsgSig panicked on a well-formed witness: %s", c.Router, p)
	}
	accepted := gateErr == nil

	// (2) the handler's call site, through ImportOuterTransfer with an empty state proof: the
	// transaction fails either at the signature gate or later at the (absent) proof
	// (NEO: a well-formed storage key naming another contract; an empty proof makes neo-gogogo's
	// ReadBytesWithGrouping spin forever, which is outside this property)
	var proof []byte
	if c.Router == "neo" {
		key := append(bytesOf(0xEE, 20), append(make([]byte, 16), 16)...)
		proof = append(varBytes(key), 0)
	}
	ep := &ccom.EntranceParam{SourceChainID: c24Chain, Height: c.Height, Proof: proof, RelayerAddress: world.Acct(60).Address[:], HeaderOrCrossChainMsg: raw}
	es := common.NewZeroCopySink(nil)
	ep.Serialization(es)
	r := w.Invoke(utils.CrossChainManagerContractAddress, ccom.IMPORT_OUTER_TRANSFER_NAME, es.Bytes(), []common.Address{world.Acct(60).Address})
	if r.OK() {
		ctx.Failf("%s: ImportOuterTransfer succeeded without a state proof", c.Router)
	}
	handlerPassed := !strings.Contains(r.Err.Error(), "VerifyCrossChainMsg error")
	if strings.Contains(r.Err.Error(), "deserialize crossChainMsg error") {
		ctx.Label(c.Router + ":handler-undecodable")
		handlerPassed = accepted
	}
	if handlerPassed != accepted {
		ctx.Failf("%s: exported gate accepted=%v (%v) but the handler path passed the gate=%v (%v)", c.Router, accepted, gateErr, handlerPassed, r.Err)
	}

	// classification
	perKey := map[int]int{}
	for _, s := range c.Sigs {
		if s.Kind == "ok" && subsetOf([]int{s.By}, c.Set) {
			perKey[s.By]++
		}
	}
	total, dup := 0, false
	for _, cnt := range perKey {
		total += cnt
		if cnt > 1 {
			dup = true
		}
	}
	if scriptOK && dup && total >= c.M && !v.eligible {
		ctx.NonTrivial()
		ctx.Label(c.Router + ":dup-multiplicity-reaches-threshold")
	}
	if !scriptOK {
		ctx.Label(c.Router + ":other-script")
		// an attacker-chosen script fully satisfied by its own signers
		if validOwn := c24Oracle(sp.Keys, sp.M, sp.Keys, true, c.Sigs); validOwn.eligible {
			ctx.NonTrivial()
			ctx.Label(c.Router + ":other-script-self-satisfied")
		}
	}
	clean := scriptOK && neoClean(order, c.M, c.Sigs)
	switch {
	case accepted && !v.eligible:
		ctx.Failf("%s: state root accepted with %d distinct tracked valid signer(s), %d required, witness script is tracked=%v (tracked %d-of-%v, script %+v, sigs %+v)",
			c.Router, v.distinct, c.M, scriptOK, c.M, c.Set, sp, c.Sigs)
	case !accepted && clean:
		ctx.Failf("%s: state root signed in order by %d distinct tracked validators (%d required) under the tracked script was rejected: %v",
			c.Router, len(c.Sigs), c.M, gateErr)
	case accepted:
		ctx.Label(c.Router + ":accepted")
	case v.eligible:
		ctx.Label(c.Router + ":rejected-though-enough-signers(strict)")
	default:
		ctx.Label(c.Router + ":rejected")
	}
}

func TestC24(t *testing.T) {
	ev.Drive(t, "C24",
		"cases: a tracked validator set of 1..10 keys installed through the real governance flow (register+approve side chain, operator-signed syncGenesisHeader / "+
			"approved state validators), then one message with a signer list drawn from modes clean/below/dup/foreign/badsig/mismatch/random (ONT: bookkeeper list + SigData via "+
			"syncCrossChainMsg or ImportOuterTransfer, optional second key height; NEO/NEO3: multisig witness under the tracked or another script via VerifyCrossChainMsgSig and the handler). "+
			"ONT two-step histories (import2): an honest message of height H is stored via sync or import, then a second deposit at H carries no message, the same message, or a message with ANOTHER state root "+
			"(unsigned / foreign / below-quorum / duplicated signers) and a proof against that forged root: it must be rejected unless that message is itself signed by enough distinct tracked peers. "+
			"non-trivial: a forged-root second deposit with an ineligible signer list, a tracked signer listed several times so that the multiplicity reaches the requirement while the distinct count does not, or a foreign script satisfied by its own signers; distinct by JSON of the case",
		genC24, runC24)
}
