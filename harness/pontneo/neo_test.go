package pontneo

import (
	"bytes"
	"crypto/sha256"
	"encoding/hex"
	"sort"

	nblock "github.com/joeqian10/neo-gogogo/block"
	ncrypto "github.com/joeqian10/neo-gogogo/crypto"
	nhelper "github.com/joeqian10/neo-gogogo/helper"
	nmpt "github.com/joeqian10/neo-gogogo/mpt"
	ntx "github.com/joeqian10/neo-gogogo/tx"
	n3block "github.com/joeqian10/neo3-gogogo/block"
	n3crypto "github.com/joeqian10/neo3-gogogo/crypto"
	n3helper "github.com/joeqian10/neo3-gogogo/helper"
	n3mpt "github.com/joeqian10/neo3-gogogo/mpt"
	n3models "github.com/joeqian10/neo3-gogogo/rpc/models"
	n3sc "github.com/joeqian10/neo3-gogogo/sc"
	n3tx "github.com/joeqian10/neo3-gogogo/tx"
	"github.com/polynetwork/poly/common"
	"github.com/polynetwork/poly/native/service/governance/neo3_state_manager"
	hscommon "github.com/polynetwork/poly/native/service/header_sync/common"
	"github.com/polynetwork/poly/native/service/header_sync/neo"
	"github.com/polynetwork/poly/native/service/header_sync/neo3"
	"github.com/polynetwork/poly/native/service/utils"

	"verif/harness/world"
)

// scriptSpec describes an m-of-n multi-signature verification script over pool keys (in order).
type scriptSpec struct {
	M    int   `json:"m"`
	Keys []int `json:"keys"`
}

// canonicalOrder sorts pool keys the way NEO orders public keys (by X, then Y).
func canonicalOrder(keys []int) []int {
	out := append([]int(nil), keys...)
	sort.SliceStable(out, func(i, j int) bool {
		a, b := sidePriv(out[i]).PublicKey, sidePriv(out[j]).PublicKey
		if c := a.X.Cmp(b.X); c != 0 {
			return c < 0
		}
		return a.Y.Cmp(b.Y) < 0
	})
	return out
}

// ---------------------------------------------------------------------------------------------
// NEO (2.x) formats, written by hand

func neo2Script(s scriptSpec) []byte {
	b := []byte{byte(0x50 + s.M)} // PUSHm
	for _, k := range s.Keys {
		b = append(b, 0x21)
		b = append(b, sidePub33(k)...)
	}
	b = append(b, byte(0x50+len(s.Keys)), 0xAE) // PUSHn CHECKMULTISIG
	return b
}

func neo2Invocation(sigs []sigSpec, msg []byte) []byte {
	var b []byte
	for _, s := range sigs {
		b = append(b, 0x40)
		b = append(b, makeSig(s, msg)...)
	}
	return b
}

func hash160(b []byte) []byte { return ncrypto.Hash160(b) }

// neoHeader describes a synthetic NEO / NEO N3 header.
type neoHeader struct {
	Index   uint32      `json:"index"`
	Salt    uint32      `json:"salt,omitempty"`
	Next    *scriptSpec `json:"next,omitempty"`    // next consensus = hash of this script; nil: keep the one given by the caller
	Tracked bool        `json:"tracked,omitempty"` // witness verification script = the currently tracked script
	Script  *scriptSpec `json:"script,omitempty"`  // otherwise this script (nil: a 1-byte script)
	Sigs    []sigSpec   `json:"sigs"`
}

func neo2HeaderUnsigned(h neoHeader, next []byte) []byte {
	var b []byte
	b = append(b, u32le(0)...)
	b = append(b, make([]byte, 64)...)
	b = append(b, u32le(1500000000+h.Salt)...)
	b = append(b, u32le(h.Index)...)
	b = append(b, u64le(0xabcdef)...)
	b = append(b, next...)
	return b
}

// neo2HeaderBytes serialises header h whose next-consensus hash is next and whose witness
// verification script is ver.
func neo2HeaderBytes(h neoHeader, next, ver []byte) []byte {
	msg := neo2HeaderUnsigned(h, next)
	nc, err := nhelper.UInt160FromBytes(next)
	if err != nil {
		panic(err)
	}
	hd := &neo.NeoBlockHeader{BlockHeader: &nblock.BlockHeader{Version: 0, Timestamp: 1500000000 + h.Salt, Index: h.Index,
		ConsensusData: 0xabcdef, NextConsensus: nc,
		Witness: &ntx.Witness{InvocationScript: neo2Invocation(h.Sigs, msg), VerificationScript: ver}}}
	sink := common.NewZeroCopySink(nil)
	if err := hd.Serialization(sink); err != nil {
		panic(err)
	}
	// the hand-written signed message must be the serialised header's unsigned part
	if !bytes.HasPrefix(sink.Bytes(), msg) {
		panic("harness: NEO header unsigned encoding differs from the library's")
	}
	return sink.Bytes()
}

// neoMsg describes a synthetic NEO / NEO N3 state-root message.
type neoMsg struct {
	Index   uint32      `json:"index"`
	Tracked bool        `json:"tracked,omitempty"`
	Script  *scriptSpec `json:"script,omitempty"`
	Sigs    []sigSpec   `json:"sigs"`
}

func neo2MsgBytes(m neoMsg, ver []byte) []byte {
	root := sha256.Sum256([]byte("neo-state-root"))
	pre := sha256.Sum256([]byte("neo-pre-hash"))
	var msg []byte
	msg = append(msg, 0)
	msg = append(msg, u32le(m.Index)...)
	msg = append(msg, pre[:]...)
	msg = append(msg, root[:]...)
	preU, _ := nhelper.UInt256FromBytes(pre[:])
	rootU, _ := nhelper.UInt256FromBytes(root[:])
	sr := &nmpt.StateRoot{Version: 0, Index: m.Index, PreHash: preU.String(), StateRoot: rootU.String()}
	sr.Witness.InvocationScript = hex.EncodeToString(neo2Invocation(m.Sigs, msg))
	sr.Witness.VerificationScript = hex.EncodeToString(ver)
	cm := &neo.NeoCrossChainMsg{StateRoot: sr}
	sink := common.NewZeroCopySink(nil)
	if err := cm.Serialization(sink); err != nil {
		panic(err)
	}
	if !bytes.HasPrefix(sink.Bytes(), msg) {
		panic("harness: NEO state root unsigned encoding differs from the library's")
	}
	return sink.Bytes()
}

// neoTracked reads the tracked consensus record (index, next-consensus hash) of NEO and NEO N3
// (both store chainID u64, height u32, var-bytes hash under CONSENSUS_PEER || chainID).
func (w *sideWorld) neoTracked() (uint32, []byte, bool) {
	raw := w.hsGet(hscommon.CONSENSUS_PEER, utils.GetUint64Bytes(w.chainID))
	if raw == nil {
		return 0, nil, false
	}
	src := common.NewZeroCopySource(raw)
	if _, eof := src.NextUint64(); eof {
		panic("harness: tracked consensus record")
	}
	h, _ := src.NextUint32()
	nc, eof := src.NextVarBytes()
	if eof {
		panic("harness: tracked consensus record")
	}
	return h, nc, true
}

// ---------------------------------------------------------------------------------------------
// NEO N3 formats

const neo3Magic = 0x4F454E

var neo3Tail = func() []byte {
	// the SYSCALL System.Crypto.CheckMultisig suffix, taken from a library-built script
	pt, err := n3crypto.NewECPointFromString(sidePubHex(0))
	if err != nil {
		panic(err)
	}
	s, err := n3sc.CreateMultiSigRedeemScript(1, []n3crypto.ECPoint{*pt})
	if err != nil {
		panic(err)
	}
	return append([]byte(nil), s[len(s)-5:]...)
}()

func neo3Script(s scriptSpec) []byte {
	b := []byte{byte(0x10 + s.M)} // PUSHm
	for _, k := range s.Keys {
		b = append(b, 0x0c, 0x21)
		b = append(b, sidePub33(k)...)
	}
	b = append(b, byte(0x10+len(s.Keys)))
	b = append(b, neo3Tail...)
	return b
}

// neo3CanonicalScript is the library's m-of-n contract over the keys (what the relay chain
// derives from the registered state validators).
func neo3CanonicalScript(m int, keys []int) []byte {
	pts := make([]n3crypto.ECPoint, len(keys))
	for i, k := range keys {
		pt, err := n3crypto.NewECPointFromString(sidePubHex(k))
		if err != nil {
			panic(err)
		}
		pts[i] = *pt
	}
	s, err := n3sc.CreateMultiSigRedeemScript(m, pts)
	if err != nil {
		panic(err)
	}
	return s
}

func neo3Invocation(sigs []sigSpec, msg []byte) []byte {
	var b []byte
	for _, s := range sigs {
		b = append(b, 0x0c, 0x40)
		b = append(b, makeSig(s, msg)...)
	}
	return b
}

func neo3SignedMessage(unsigned []byte) []byte {
	h := sha256.Sum256(unsigned)
	return append(u32le(neo3Magic), h[:]...)
}

func neo3HeaderBytes(h neoHeader, next, ver []byte) []byte {
	var un []byte
	un = append(un, u32le(0)...)
	un = append(un, make([]byte, 64)...)
	un = append(un, u64le(1600000000000+uint64(h.Salt))...)
	un = append(un, u64le(77)...)
	un = append(un, u32le(h.Index)...)
	un = append(un, 0)
	un = append(un, next...)
	msg := neo3SignedMessage(un)
	hd := &neo3.NeoBlockHeader{Header: n3block.NewBlockHeader()}
	hd.SetTimeStamp(1600000000000 + uint64(h.Salt))
	hd.SetNonce(77)
	hd.SetIndex(h.Index)
	hd.SetNextConsensus(n3helper.UInt160FromBytes(next))
	hd.SetWitnesses([]n3tx.Witness{{InvocationScript: neo3Invocation(h.Sigs, msg), VerificationScript: ver}})
	sink := common.NewZeroCopySink(nil)
	if err := hd.Serialization(sink); err != nil {
		panic(err)
	}
	if !bytes.HasPrefix(sink.Bytes(), un) {
		panic("harness: NEO3 header unsigned encoding differs from the library's")
	}
	return sink.Bytes()
}

func neo3MsgBytes(m neoMsg, ver []byte) []byte {
	root := sha256.Sum256([]byte("neo3-state-root"))
	var un []byte
	un = append(un, 0)
	un = append(un, u32le(m.Index)...)
	un = append(un, root[:]...)
	msg := neo3SignedMessage(un)
	sr := &n3mpt.StateRoot{Version: 0, Index: m.Index, RootHash: "0x" + n3helper.UInt256FromBytes(root[:]).String()}
	sr.Witnesses = []n3models.RpcWitness{{Invocation: n3crypto.Base64Encode(neo3Invocation(m.Sigs, msg)), Verification: n3crypto.Base64Encode(ver)}}
	cm := &neo3.NeoCrossChainMsg{StateRoot: sr}
	sink := common.NewZeroCopySink(nil)
	if err := cm.Serialization(sink); err != nil {
		panic(err)
	}
	if !bytes.HasPrefix(sink.Bytes(), un) {
		panic("harness: NEO3 state root unsigned encoding differs from the library's")
	}
	return sink.Bytes()
}

// registerStateValidators runs the real governance flow: registerStateValidator by an owner, then
// approveRegisterStateValidator by the poly validators until it takes effect.
func (w *sideWorld) registerStateValidators(keys []int) {
	if len(keys) == 0 {
		return
	}
	owner := world.Acct(50).Address
	var svs []string
	for _, k := range keys {
		svs = append(svs, sidePubHex(k))
	}
	p := &neo3_state_manager.StateValidatorListParam{StateValidators: svs, Address: owner}
	sink := common.NewZeroCopySink(nil)
	p.Serialization(sink)
	if r := invokeOn(w.World, utils.Neo3StateManagerContractAddress, neo3_state_manager.REGISTER_STATE_VALIDATOR, sink.Bytes(), []common.Address{owner}); !r.OK() {
		panic("harness: registerStateValidator: " + r.Err.Error())
	}
	registered := func() bool {
		raw, err := neo3_state_manager.GetCurrentStateValidator(w.Service())
		if err != nil {
			panic(err)
		}
		got, err := neo3_state_manager.DeserializeStringArray(raw)
		return err == nil && len(got) == len(keys)
	}
	for _, v := range w.Validators {
		if registered() {
			break
		}
		ap := &neo3_state_manager.ApproveStateValidatorParam{ID: 0, Address: v.Address}
		s2 := common.NewZeroCopySink(nil)
		ap.Serialization(s2)
		if r := invokeOn(w.World, utils.Neo3StateManagerContractAddress, neo3_state_manager.APPROVE_REGISTER_STATE_VALIDATOR, s2.Bytes(), []common.Address{v.Address}); !r.OK() {
			panic("harness: approveRegisterStateValidator: " + r.Err.Error())
		}
	}
	if !registered() {
		panic("harness: state validators not registered")
	}
	w.NextBlock()
}
