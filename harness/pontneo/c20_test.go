package pontneo

import (
	"bytes"
	"crypto/sha256"
	"fmt"
	"testing"

	"github.com/polynetwork/poly/common"
	"github.com/polynetwork/poly/common/config"
	ccom "github.com/polynetwork/poly/native/service/cross_chain_manager/common"
	"github.com/polynetwork/poly/native/service/utils"
	"pgregory.net/rapid"

	"verif/harness/ev"
	"verif/harness/world"
)

// ---------------------------------------------------------------------------------------------
// C20 (unit for the ONT router): a cross-chain message identified by (source chain, cross-chain
// id) is accepted at most once; a second submission fails without side effects; the message is
// marked done exactly when it is accepted. Full ImportOuterTransfer path on a main-net world.

var c20Chains = [2]uint64{21, 22}

const c20BaseHeight = 11 // trust root at key height 10; tree t of a chain is the message of height 11+t

var c20Peers = []int{0, 1, 2, 3} // tracked peers of both source chains (2 distinct signers required)

type c20Leaf struct {
	XID     int `json:"xid"`     // cross-chain id selector
	Variant int `json:"variant"` // other payload (tx hash, args) under the same cross-chain id
	To      int `json:"to"`      // target chain 0|1
}

type c20Op struct {
	Chain     int    `json:"chain"` // source chain 0|1
	Tree      int    `json:"tree"`  // which cross-chain message (height) of that chain
	Leaf      int    `json:"leaf"`  // which leaf of its state tree
	Mode      string `json:"mode"`  // valid | badproof | otherproof | undersigned
	NextBlock bool   `json:"nextblock,omitempty"`
}

type c20Case struct {
	Ccmc  bool           `json:"ccmc,omitempty"` // source chains registered with a CCMC address (payload carries the sender)
	Trees [2][][]c20Leaf `json:"trees"`          // per source chain: state trees (1..4 leaves) of successive cross-chain messages
	Ops   []c20Op        `json:"ops"`
}

func genC20Leaf(t *rapid.T) c20Leaf {
	return c20Leaf{XID: rapid.IntRange(0, 2).Draw(t, "xid"), Variant: rapid.IntRange(0, 2).Draw(t, "variant"), To: rapid.IntRange(0, 1).Draw(t, "to")}
}

func genC20Op(t *rapid.T) c20Op {
	return c20Op{Chain: rapid.SampledFrom([]int{0, 0, 0, 1}).Draw(t, "chain"), Tree: rapid.IntRange(0, 2).Draw(t, "tree"), Leaf: rapid.IntRange(0, 3).Draw(t, "leaf"),
		Mode:      rapid.SampledFrom([]string{"valid", "valid", "valid", "valid", "valid", "valid", "badproof", "otherproof", "undersigned", "forgedroot"}).Draw(t, "mode"),
		NextBlock: rapid.Bool().Draw(t, "nextblock")}
}

func genC20(t *rapid.T) c20Case {
	c := c20Case{Ccmc: rapid.Bool().Draw(t, "ccmc")}
	for i := range c.Trees {
		c.Trees[i] = rapid.SliceOfN(rapid.SliceOfN(rapid.Custom(genC20Leaf), 1, 4), 1, 3).Draw(t, fmt.Sprintf("trees%d", i))
	}
	c.Ops = rapid.SliceOfN(rapid.Custom(genC20Op), 2, ev.Scale(10, 16)).Draw(t, "ops")
	return c
}

func c20XID(x int) []byte { return []byte{0xC0, 0xDE, byte(x)} }

var c20Ccmc = bytesOf(0x5A, 20)

// c20Value is the value proven by a leaf: the source chain's MakeTxParam (with sender if the chain
// was registered with a CCMC address).
func c20Value(l c20Leaf, chain int, ccmc bool) []byte {
	mp := &ccom.MakeTxParam{TxHash: []byte{0x11, byte(chain), byte(l.XID), byte(l.Variant)}, CrossChainID: c20XID(l.XID), FromContractAddress: []byte{7, 7},
		ToChainID: c20Chains[l.To&1], ToContractAddress: []byte{8, 8}, Method: "unlock", Args: []byte{byte(l.Variant), 1, 2}}
	sink := common.NewZeroCopySink(nil)
	if ccmc {
		sink.WriteBytes(c20Ccmc)
	}
	mp.Serialization(sink)
	return sink.Bytes()
}

func mhLeaf(v []byte) []byte { h := sha256.Sum256(append([]byte{0}, v...)); return h[:] }
func mhNode(l, r []byte) []byte {
	h := sha256.Sum256(append(append([]byte{1}, l...), r...))
	return h[:]
}

// merkleRootAndPath: own pairwise tree over the leaf values (odd node promoted); the path is the
// audit path of leaf i in the relay chain's proof format (value, then (side, sibling)*).
func merkleRootAndPath(values [][]byte, i int) (root []byte, proof []byte) {
	level := make([][]byte, len(values))
	for k, v := range values {
		level[k] = mhLeaf(v)
	}
	proof = varBytes(values[i])
	idx := i
	for len(level) > 1 {
		var next [][]byte
		for k := 0; k < len(level); k += 2 {
			if k+1 == len(level) {
				next = append(next, level[k])
				if idx == k {
					idx = len(next) - 1
				}
				continue
			}
			next = append(next, mhNode(level[k], level[k+1]))
			if idx == k {
				proof = append(append(proof, 1), level[k+1]...) // sibling on the right
				idx = len(next) - 1
			} else if idx == k+1 {
				proof = append(append(proof, 0), level[k]...) // sibling on the left
				idx = len(next) - 1
			}
		}
		level = next
	}
	return level[0], proof
}

func runC20Ont(ctx *ev.Ctx, c c20Case) {
	for i := range c.Trees {
		if len(c.Trees[i]) == 0 || len(c.Trees[i]) > 4 {
			ctx.Label("skipped:malformed-case")
			return
		}
		for _, tr := range c.Trees[i] {
			if len(tr) == 0 || len(tr) > 8 {
				ctx.Label("skipped:malformed-case")
				return
			}
		}
	}
	var ccmc []byte
	if c.Ccmc {
		ccmc = c20Ccmc
	}
	base := freshWorldNet(config.NETWORK_ID_MAIN_NET)
	w := newSideWorldOn(base, c20Chains[0], utils.ONT_ROUTER, ccmc, nil)
	newSideWorldOn(base, c20Chains[1], utils.ONT_ROUTER, ccmc, nil)
	for _, id := range c20Chains {
		w.chainID = id
		if r := w.syncGenesis(ontHeaderBytes(ontHeader{Height: 10, HasCfg: true, NewCfg: c20Peers})); !r.OK() {
			ctx.Failf("setup: operator-signed syncGenesisHeader for chain %d failed: %v", id, r.Err)
		}
	}
	type dk struct {
		chain int
		xid   int
	}
	done := map[dk]bool{}
	firstProof := map[dk]string{} // proof bytes of the accepted import
	stored := map[[2]int]bool{}   // (chain, tree): cross-chain message recorded
	reqPrefix := utils.ConcatKey(utils.CrossChainManagerContractAddress, []byte(ccom.REQUEST))
	countReq := func(d [][2][]byte) int {
		n := 0
		for _, kv := range d {
			if len(kv[0]) > 1 && bytes.HasPrefix(kv[0][1:], reqPrefix) { // dump keys carry the 1-byte storage-class prefix
				n++
			}
		}
		return n
	}
	relayer := world.Acct(60).Address
	for oi, op := range c.Ops {
		if op.Chain < 0 || op.Chain > 1 {
			continue
		}
		trees := c.Trees[op.Chain]
		ti := ((op.Tree % len(trees)) + len(trees)) % len(trees)
		tree := trees[ti]
		li := ((op.Leaf % len(tree)) + len(tree)) % len(tree)
		leaf := tree[li]
		if op.NextBlock {
			w.NextBlock()
		}
		values := make([][]byte, len(tree))
		for k, l := range tree {
			values[k] = c20Value(l, op.Chain, c.Ccmc)
		}
		root, proof := merkleRootAndPath(values, li)
		height := uint32(c20BaseHeight + ti)
		proofOK := true
		switch op.Mode {
		case "badproof": // the proven value is altered: the path no longer leads to the root
			proof = append([]byte(nil), proof...)
			proof[len(varUint(uint64(len(values[li]))))+1] ^= 0x40
			proofOK = false
		case "otherproof": // a valid path of another tree (or a truncated path for the same)
			other := trees[(ti+1)%len(trees)]
			ov := make([][]byte, len(other))
			for k, l := range other {
				ov[k] = c20Value(l, op.Chain, c.Ccmc)
			}
			oroot, op2 := merkleRootAndPath(ov, 0)
			if !bytes.Equal(oroot, root) {
				proof, proofOK = op2, false
			}
		}
		signers := []int{0, 1}
		if op.Mode == "undersigned" {
			signers = []int{2}
		}
		if op.Mode == "forgedroot" {
			// a message of this height with ANOTHER state root (one transfer with a fresh id), signed by
			// one tracked peer only (or nobody), and a proof that is valid against that forged root
			fv := c20Value(c20Leaf{XID: leaf.XID, Variant: 9, To: leaf.To}, op.Chain, c.Ccmc)
			root, proof = merkleRootAndPath([][]byte{fv}, 0)
			signers = []int{2}
			if op.Leaf%2 == 1 {
				signers = nil
			}
			proofOK = false // not provable against any authenticated root
		}
		raw := ontMsgBytes(ontMsg{Height: height, Keys: signers, Sigs: okSigs(signers)}, root)
		gateOK := stored[[2]int{op.Chain, ti}] || (op.Mode != "undersigned" && op.Mode != "forgedroot")
		key := dk{op.Chain, leaf.XID}
		want := gateOK && proofOK && !done[key]
		class := op.Mode
		if done[key] {
			class = "replay:" + op.Mode
			if proofOK && gateOK {
				if firstProof[key] == string(proof) {
					class = "replay:exact"
				} else {
					class = "replay:different-valid-proof"
					ctx.NonTrivial()
				}
				if op.NextBlock {
					class += "@later-block"
				}
			}
		}
		ctx.Label("ont:" + class)

		ep := &ccom.EntranceParam{SourceChainID: c20Chains[op.Chain], Height: height, Proof: proof, RelayerAddress: relayer[:], HeaderOrCrossChainMsg: raw}
		es := common.NewZeroCopySink(nil)
		ep.Serialization(es)
		before := w.Dump()
		r := w.Invoke(utils.CrossChainManagerContractAddress, ccom.IMPORT_OUTER_TRANSFER_NAME, es.Bytes(), []common.Address{relayer})
		after := w.Dump()
		if r.Panic != "" {
			ctx.Failf("op %d: ImportOuterTransfer panicked: %s", oi, r.Panic)
		}
		desc := fmt.Sprintf("op %d (%s): source chain %d, cross-chain id %x, message height %d, leaf %d/%d, block %d", oi, class, c20Chains[op.Chain], c20XID(leaf.XID), height, li, len(tree), w.Height)
		switch {
		case r.OK() && !want:
			ctx.Failf("%s was ACCEPTED (already done=%v, proof valid=%v, message authenticated=%v)", desc, done[key], proofOK, gateOK)
		case !r.OK() && want:
			ctx.Failf("%s was rejected although valid and not done: %v", desc, r.Err)
		case r.OK():
			if n := countReq(after) - countReq(before); n != 1 {
				ctx.Failf("%s accepted: %d request records added, want exactly 1", desc, n)
			}
			done[key] = true
			firstProof[key] = string(proof)
			stored[[2]int{op.Chain, ti}] = true
			ctx.Label("ont:accepted")
		default:
			if d := world.DiffDump(before, after); d != "" {
				ctx.Failf("%s rejected but the state changed: %s", desc, d)
			}
		}
		// done markers exist exactly for accepted (chain, id) pairs
		for ch := 0; ch < 2; ch++ {
			for x := 0; x <= 2; x++ {
				marked := ccom.CheckDoneTx(w.Service(), c20XID(x), c20Chains[ch]) != nil
				if marked != done[dk{ch, x}] {
					ctx.Failf("after %s: done marker of (chain %d, id %x) present=%v, model says %v", desc, c20Chains[ch], c20XID(x), marked, done[dk{ch, x}])
				}
			}
		}
	}
}

func TestC20Ont(t *testing.T) {
	ev.Drive(t, "C20",
		"cases (ONT router, main-net world): two ONT-router source chains registered and given a trust root through the real flow; per chain 1..3 cross-chain messages (heights 11..13) "+
			"whose state roots are Merkle trees of 1..4 transfers with cross-chain ids drawn from 3 values (so the same id recurs in other messages/heights/leaves and on the other chain); "+
			"2..10 ImportOuterTransfer operations (valid, altered proof, proof of another tree, under-signed message), at the same or a later block. Model: done is a set of (source chain, id); "+
			"accepted iff authenticated, proven and not done; done marker (CheckDoneTx) present exactly for accepted pairs; exactly one request record per acceptance; a rejected import leaves the dump byte-identical. "+
			"non-trivial: an accepted import followed later by a replay of the same (chain, id) with a different valid proof; distinct by JSON of the case",
		genC20, runC20Ont)
}
