package pontneo

import (
	"bytes"
	"crypto/sha256"
	"encoding/json"
	"fmt"
	"math/big"
	"testing"

	ecom "github.com/ethereum/go-ethereum/common"
	etypes "github.com/ethereum/go-ethereum/core/types"
	ecrypto "github.com/ethereum/go-ethereum/crypto"
	"github.com/ethereum/go-ethereum/rlp"
	"github.com/polynetwork/poly/common"
	"github.com/polynetwork/poly/native/service/governance/side_chain_manager"
	hscommon "github.com/polynetwork/poly/native/service/header_sync/common"
	"github.com/polynetwork/poly/native/service/header_sync/quorum"
	"github.com/polynetwork/poly/native/service/utils"
	"pgregory.net/rapid"

	"verif/harness/ev"
	"verif/harness/world"
)

// ---------------------------------------------------------------------------------------------
// C19 (unit for ont, neo, neo3, neo3legacy, quorum): the trust root of a side chain can be installed
// at most once; every later attempt fails and leaves the light-client state unchanged.

var c19Chains = [2]uint64{11, 12}

// per-router coverage table of this process (evidence "routers"; summed over shards by the driver)
var c19RouterTable = map[string]int{}

// c19Gen describes one genesis payload: validator keys (pool indices), threshold (NEO family) and height.
type c19Gen struct {
	Set    []int  `json:"set"`
	M      int    `json:"m"`
	Height uint32 `json:"height"`
	// Bare: the payload lacks its optional validator part: ONT header with new_chain_config null,
	// quorum header with an empty validator list, NEO-family header with an all-zero next consensus
	Bare bool `json:"bare,omitempty"`
}

type c19Op struct {
	Kind  string `json:"kind"`  // install | sync
	Chain int    `json:"chain"` // 0 | 1
	Gen   int    `json:"gen"`   // install: which genesis payload (0..2)
	By    string `json:"by"`    // install: operator | validator | outsider
}

type c19Case struct {
	Router string   `json:"router"`
	Gens   []c19Gen `json:"gens"` // three payloads; gens[0] is normally installed first
	Ops    []c19Op  `json:"ops"`
}

var c19Routers = []string{"ont", "neo", "neo3", "neo3legacy", "quorum"}

func genC19Gen(t *rapid.T) c19Gen {
	set := genSet(t, "set", 1, 5)
	return c19Gen{Set: set, M: rapid.IntRange(1, len(set)).Draw(t, "m"), Height: rapid.SampledFrom([]uint32{0, 5, 9}).Draw(t, "height"),
		Bare: rapid.IntRange(0, 3).Draw(t, "bare") == 0}
}

func genC19Op(t *rapid.T) c19Op {
	op := c19Op{Kind: rapid.SampledFrom([]string{"install", "install", "install", "sync", "sync"}).Draw(t, "kind"),
		Chain: rapid.SampledFrom([]int{0, 0, 0, 1}).Draw(t, "chain")}
	if op.Kind == "install" {
		op.Gen = rapid.SampledFrom([]int{0, 0, 1, 1, 2}).Draw(t, "gen")
		op.By = rapid.SampledFrom([]string{"operator", "operator", "operator", "operator", "validator", "outsider"}).Draw(t, "by")
	}
	return op
}

func genC19(t *rapid.T) c19Case {
	c := c19Case{Router: rapid.SampledFrom(c19Routers).Draw(t, "router")}
	c.Gens = rapid.SliceOfN(rapid.Custom(genC19Gen), 3, 3).Draw(t, "gens")
	c.Ops = rapid.SliceOfN(rapid.Custom(genC19Op), 2, ev.Scale(8, 12)).Draw(t, "ops")
	return c
}

// ---- quorum (Istanbul) builders: secp256k1 validators derived from the pool index

func quorumKey(i int) (*big.Int, ecom.Address) {
	h := sha256.Sum256([]byte(fmt.Sprintf("verif-quorum-key-%d", i)))
	k, err := ecrypto.ToECDSA(h[:])
	if err != nil {
		panic(err)
	}
	return k.D, ecrypto.PubkeyToAddress(k.PublicKey)
}

func quorumSign(i int, data []byte) []byte {
	h := sha256.Sum256([]byte(fmt.Sprintf("verif-quorum-key-%d", i)))
	k, _ := ecrypto.ToECDSA(h[:])
	sig, err := ecrypto.Sign(ecrypto.Keccak256(data), k)
	if err != nil {
		panic(err)
	}
	return sig
}

func quorumHeader(height uint64, vals []int, signed bool) []byte {
	var addrs []ecom.Address
	for _, v := range vals {
		_, a := quorumKey(v)
		addrs = append(addrs, a)
	}
	mk := func(seal []byte, committed [][]byte) *etypes.Header {
		payload, err := rlp.EncodeToBytes(&quorum.IstanbulExtra{Validators: addrs, Seal: seal, CommittedSeal: committed})
		if err != nil {
			panic(err)
		}
		return &etypes.Header{Number: new(big.Int).SetUint64(height), Difficulty: big.NewInt(1), Time: 1600000000 + height,
			MixDigest: quorum.IstanbulDigest, Extra: append(make([]byte, quorum.IstanbulExtraVanity), payload...)}
	}
	h := mk([]byte{}, [][]byte{})
	if signed {
		// proposer seal over keccak(rlp(header without seals)), committed seals over hash||0x02
		enc, err := rlp.EncodeToBytes(quorum.IstanbulFilteredHeader(h, false))
		if err != nil {
			panic(err)
		}
		seal := quorumSign(vals[0], ecrypto.Keccak256(enc))
		h = mk(seal, [][]byte{})
		hash := quorum.GetQuorumHeaderHash(h)
		var committed [][]byte
		for _, v := range vals {
			committed = append(committed, quorumSign(v, quorum.PrepareCommittedSeal(hash)))
		}
		h = mk(seal, committed)
	}
	b, err := json.Marshal(h)
	if err != nil {
		panic(err)
	}
	return b
}

// ---- neo3legacy header, written by hand (the legacy format is the N3 one without the nonce)

func neo3legacyHeaderBytes(h neoHeader, next, ver []byte) []byte {
	var un []byte
	un = append(un, u32le(0)...)
	un = append(un, make([]byte, 64)...)
	un = append(un, u64le(1600000000000+uint64(h.Salt))...)
	un = append(un, u32le(h.Index)...)
	un = append(un, 0)
	un = append(un, next...)
	msg := neo3SignedMessage(un)
	out := append(un, 1)
	out = append(out, varBytes(neo3Invocation(h.Sigs, msg))...)
	out = append(out, varBytes(ver)...)
	return out
}

// ---- per-chain bookkeeping of what the harness believes is installed (only used to build valid
// follow-up headers; the oracle itself only compares state dumps)

type c19Chain struct {
	installed bool
	gen       c19Gen           // the payload last accepted by the contract
	height    uint64           // highest height synced so far
	tracked   scriptSpec       // NEO family: script the next header must be signed under
	vals      []int            // quorum: current validators
	ontKeys   map[uint32][]int // ont: recorded key heights
	synced    int
}

func c19Payload(router string, g c19Gen) []byte {
	if g.Bare {
		zero := make([]byte, 20)
		switch router {
		case "ont":
			// the salt keeps payloads of different gens distinct although no peer set is carried
			return ontHeaderBytes(ontHeader{Height: g.Height, Salt: uint32(len(g.Set)*16 + g.M)})
		case "neo":
			return neo2HeaderBytes(neoHeader{Index: g.Height, Salt: uint32(g.M)}, zero, []byte{0x51})
		case "neo3":
			return neo3HeaderBytes(neoHeader{Index: g.Height, Salt: uint32(g.M)}, zero, []byte{0x11})
		case "neo3legacy":
			return neo3legacyHeaderBytes(neoHeader{Index: g.Height, Salt: uint32(g.M)}, zero, []byte{0x11})
		case "quorum":
			return quorumHeader(uint64(g.Height), nil, false)
		}
	}
	switch router {
	case "ont":
		return ontHeaderBytes(ontHeader{Height: g.Height, HasCfg: true, NewCfg: g.Set})
	case "neo":
		return neo2HeaderBytes(neoHeader{Index: g.Height}, hash160(neo2Script(scriptSpec{M: g.M, Keys: canonicalOrder(g.Set)})), []byte{0x51})
	case "neo3":
		return neo3HeaderBytes(neoHeader{Index: g.Height}, hash160(neo3Script(scriptSpec{M: g.M, Keys: canonicalOrder(g.Set)})), []byte{0x11})
	case "neo3legacy":
		return neo3legacyHeaderBytes(neoHeader{Index: g.Height}, hash160(neo3Script(scriptSpec{M: g.M, Keys: canonicalOrder(g.Set)})), []byte{0x11})
	case "quorum":
		return quorumHeader(uint64(g.Height), g.Set, false)
	}
	panic("router")
}

// c19NextHeader builds one header the light client must accept in its current state and updates
// the bookkeeping as if it were accepted (the caller rolls back on failure).
func c19NextHeader(router string, st *c19Chain) []byte {
	st.height++
	switch router {
	case "ont":
		_, set, _ := ontModel{keys: st.ontKeys}.inForce(uint32(st.height))
		return ontHeaderBytes(ontHeader{Height: uint32(st.height), Keys: set, Sigs: okSigs(set)})
	case "quorum":
		nv := append(append([]int(nil), st.vals...), 20+st.synced) // exactly one validator added
		st.vals = nv
		return quorumHeader(st.height, nv, true)
	}
	next := scriptSpec{M: 1, Keys: []int{(st.synced*3 + 1) % poolSize}}
	if len(st.tracked.Keys) == 1 && st.tracked.Keys[0] == next.Keys[0] {
		next.Keys = []int{(next.Keys[0] + 1) % poolSize}
	}
	sigs := okSigs(st.tracked.Keys[:st.tracked.M])
	h := neoHeader{Index: uint32(st.height), Sigs: sigs}
	var raw []byte
	switch router {
	case "neo":
		raw = neo2HeaderBytes(h, hash160(neo2Script(next)), neo2Script(st.tracked))
	case "neo3":
		raw = neo3HeaderBytes(h, hash160(neo3Script(next)), neo3Script(st.tracked))
	default:
		raw = neo3legacyHeaderBytes(h, hash160(neo3Script(next)), neo3Script(st.tracked))
	}
	st.tracked = next
	return raw
}

func c19Reset(st *c19Chain, g c19Gen) {
	st.installed, st.gen, st.height = true, g, uint64(g.Height)
	st.tracked = scriptSpec{M: g.M, Keys: canonicalOrder(g.Set)}
	st.vals = append([]int(nil), g.Set...)
	st.ontKeys = map[uint32][]int{g.Height: g.Set}
	if g.Bare {
		st.ontKeys = map[uint32][]int{}
		st.vals = nil
	}
}

var c19Prefixes = []string{hscommon.CONSENSUS_PEER_BLOCK_HEIGHT, hscommon.CONSENSUS_PEER, hscommon.CROSS_CHAIN_MSG, hscommon.CURRENT_MSG_HEIGHT,
	hscommon.BLOCK_HEADER, hscommon.CURRENT_HEADER_HEIGHT, hscommon.HEADER_INDEX, hscommon.KEY_HEIGHTS, hscommon.GENESIS_HEADER, hscommon.MAIN_CHAIN, hscommon.EPOCH_SWITCH}

// c19TouchesChain: does the dump difference a -> b touch a header-sync key of the given chain?
func c19TouchesChain(a, b [][2][]byte, chain uint64) string {
	am := map[string][]byte{}
	for _, kv := range a {
		am[string(kv[0])] = kv[1]
	}
	var changed [][]byte
	for _, kv := range b {
		if v, ok := am[string(kv[0])]; !ok || !bytes.Equal(v, kv[1]) {
			changed = append(changed, kv[0])
		}
		delete(am, string(kv[0]))
	}
	for k := range am {
		changed = append(changed, []byte(k))
	}
	cid := utils.GetUint64Bytes(chain)
	for _, k := range changed {
		if !bytes.HasPrefix(k, utils.HeaderSyncContractAddress[:]) {
			continue
		}
		rest := k[20:]
		for _, p := range c19Prefixes {
			if bytes.HasPrefix(rest, []byte(p)) && bytes.HasPrefix(rest[len(p):], cid) {
				return fmt.Sprintf("%s|chain %d|%x", p, chain, rest[len(p)+8:])
			}
		}
	}
	return ""
}

func runC19(ctx *ev.Ctx, c c19Case) {
	ctx.Label("router:" + c.Router)
	ok := len(c.Gens) == 3
	for _, g := range c.Gens {
		if len(g.Set) == 0 || len(g.Set) > 6 || !distinct(g.Set) || g.M < 1 || g.M > len(g.Set) {
			ok = false
		}
	}
	routerID := map[string]uint64{"ont": utils.ONT_ROUTER, "neo": utils.NEO_ROUTER, "neo3": utils.NEO3_ROUTER, "neo3legacy": utils.NEO3_LEGACY_ROUTER, "quorum": utils.QUORUM_ROUTER}[c.Router]
	if !ok || (routerID == 0) {
		ctx.Label("skipped:malformed-case")
		return
	}
	w := newSideWorld(c19Chains[0], routerID, make([]byte, 20), u32le(neo3Magic))
	c19RegisterSecond(w, routerID)
	operator := w.Operator()
	signer := map[string]common.Address{"operator": operator, "validator": w.Validators[0].Address, "outsider": world.Acct(70).Address}
	var st [2]c19Chain
	defer func() {
		cp := map[string]int{}
		for k, v := range c19RouterTable {
			cp[k] = v
		}
		ev.Get("C19").Extra("routers", cp)
	}()
	bump := func(k string) { c19RouterTable[c.Router+":"+k]++ }

	for oi, op := range c.Ops {
		if op.Chain < 0 || op.Chain > 1 || op.Gen < 0 || op.Gen > 2 {
			continue
		}
		w.NextBlock()
		chain := c19Chains[op.Chain]
		other := c19Chains[1-op.Chain]
		s := &st[op.Chain]
		w.chainID = chain
		switch op.Kind {
		case "sync":
			if !s.installed {
				continue
			}
			save := *s
			raw := c19NextHeader(c.Router, s)
			before := w.Dump()
			r := w.syncHeaders([][]byte{raw})
			if !r.OK() {
				*s = save
				ctx.Label(c.Router + ":follow-up-header-rejected")
				bump("follow-up-header-rejected")
				continue
			}
			if t := c19TouchesChain(before, w.Dump(), other); t != "" {
				ctx.Failf("%s op %d: syncing a header of chain %d changed state of chain %d (%s)", c.Router, oi, chain, other, t)
			}
			s.synced++
			bump("headers-synced")
		case "install":
			addr, known := signer[op.By]
			if !known {
				continue
			}
			g := c.Gens[op.Gen]
			raw := c19Payload(c.Router, g)
			p := &hscommon.SyncGenesisHeaderParam{ChainID: chain, GenesisHeader: raw}
			sink := common.NewZeroCopySink(nil)
			p.Serialization(sink)
			before := w.Dump()
			r := w.Invoke(utils.HeaderSyncContractAddress, hscommon.SYNC_GENESIS_HEADER, sink.Bytes(), []common.Address{addr})
			after := w.Dump()
			diff := world.DiffDump(before, after)
			if r.Panic != "" {
				ctx.Failf("%s op %d: syncGenesisHeader panicked: %s", c.Router, oi, r.Panic)
			}
			if t := c19TouchesChain(before, after, other); t != "" {
				ctx.Failf("%s op %d: installing a trust root for chain %d changed state of chain %d (%s)", c.Router, oi, chain, other, t)
			}
			switch {
			case op.By != "operator":
				// not witnessed by the operator: must fail whatever the installation state
				if r.OK() || diff != "" {
					ctx.Failf("%s op %d: syncGenesisHeader witnessed by %s only: ok=%v, state change: %q", c.Router, oi, op.By, r.OK(), diff)
				}
				bump("non-operator-attempt-rejected")
			case !s.installed:
				if !r.OK() {
					ctx.Failf("%s op %d: first operator-witnessed installation for chain %d failed: %v", c.Router, oi, chain, r.Err)
				}
				if diff == "" {
					ctx.Failf("%s op %d: first installation for chain %d reported success but stored nothing", c.Router, oi, chain)
				}
				c19Reset(s, g)
				bump("first-install")
			default:
				same := bytes.Equal(raw, c19Payload(c.Router, s.gen))
				class := "same-payload"
				if !same {
					class = "different-payload"
				}
				if !same && s.synced > 0 {
					ctx.NonTrivial()
					class += "-after-synced-header"
				}
				ctx.Label(c.Router + ":reinstall:" + class)
				bump("reinstall-attempts")
				switch {
				case !r.OK() && diff == "":
					bump("reinstall-rejected")
				case diff != "":
					bump("reinstall-changed-state")
					if ctx.Known(c.Router+"-genesis-reinstall-accepted",
						"%s op %d: second syncGenesisHeader for chain %d (%s, after %d synced header(s)) returned ok=%v and changed the light-client state: %s",
						c.Router, oi, chain, class, s.synced, r.OK(), diff) {
						// the contract now tracks the new payload
						synced, height, keys := s.synced, s.height, s.ontKeys
						c19Reset(s, g)
						s.synced = synced
						if c.Router == "ont" { // ONT keeps what was stored before: continue above it
							if height > s.height {
								s.height = height
							}
							if !g.Bare {
								keys[g.Height] = g.Set
							}
							s.ontKeys = keys
						}
					}
				default:
					bump("reinstall-reported-success")
					ctx.Known(c.Router+"-genesis-reinstall-reports-success",
						"%s op %d: second syncGenesisHeader for chain %d (%s) reported success (state unchanged)", c.Router, oi, chain, class)
				}
			}
		}
	}
}

// c19RegisterSecond registers the second chain id with the same router through the real flow.
func c19RegisterSecond(w *sideWorld, router uint64) {
	owner := world.Acct(50).Address
	id := c19Chains[1]
	p := &side_chain_manager.RegisterSideChainParam{Address: owner, ChainId: id, Router: router, Name: "side2", BlocksToWait: 1,
		CCMCAddress: make([]byte, 20), ExtraInfo: u32le(neo3Magic)}
	sink := common.NewZeroCopySink(nil)
	p.Serialization(sink)
	if r := w.Invoke(utils.SideChainManagerContractAddress, side_chain_manager.REGISTER_SIDE_CHAIN, sink.Bytes(), []common.Address{owner}); !r.OK() {
		panic("harness: registerSideChain: " + r.Err.Error())
	}
	for _, v := range w.Validators {
		if sc, _ := side_chain_manager.GetSideChain(w.Service(), id); sc != nil {
			break
		}
		ap := &side_chain_manager.ChainidParam{Chainid: id, Address: v.Address}
		s2 := common.NewZeroCopySink(nil)
		ap.Serialization(s2)
		if r := w.Invoke(utils.SideChainManagerContractAddress, side_chain_manager.APPROVE_REGISTER_SIDE_CHAIN, s2.Bytes(), []common.Address{v.Address}); !r.OK() {
			panic("harness: approveRegisterSideChain: " + r.Err.Error())
		}
	}
	if sc, _ := side_chain_manager.GetSideChain(w.Service(), id); sc == nil {
		panic("harness: second side chain not registered")
	}
}

func TestC19OntNeo(t *testing.T) {
	ev.Drive(t, "C19",
		"cases (routers ont, neo, neo3, neo3legacy, quorum): two chain ids registered with the router through the real governance flow; 2..8 operations: syncGenesisHeader of one of three payloads "+
			"(other peers / threshold / height) for either chain id, witnessed by the operator, a single validator or an outsider, and syncBlockHeader of a header valid in the current state. "+
			"Oracle: the first operator install succeeds; every later install for that chain id must return an error and leave the full state dump byte-identical; non-operator attempts always fail; "+
			"no operation touches the other chain id's keys. non-trivial: a second install with a different payload after >=1 synced header; distinct by JSON of the case",
		genC19, runC19)
}
