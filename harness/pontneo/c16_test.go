package pontneo

import (
	"bytes"
	"crypto/sha256"
	"fmt"
	"testing"

	"github.com/polynetwork/poly/common"
	"github.com/polynetwork/poly/core/payload"
	"github.com/polynetwork/poly/native"
	ccom "github.com/polynetwork/poly/native/service/cross_chain_manager/common"
	"github.com/polynetwork/poly/native/service/utils"
	"github.com/polynetwork/poly/native/storage"
	"pgregory.net/rapid"

	"verif/harness/ev"
	"verif/harness/world"
)

// ---------------------------------------------------------------------------------------------
// C16 (unit A, ONT / NEO / NEO N3 light clients and their governance set-up): executing the same
// transaction on the same prior state gives the same result, write set and notifications.

const c16Chain = 31

type c16Case struct {
	Router string     `json:"router"` // ont | neo | neo3
	PolyN  int        `json:"polyn"`  // relay-chain validators (4 or 7)
	Set    []int      `json:"set"`
	Idx    []uint32   `json:"idx,omitempty"` // ONT: consensus indexes of the genesis peers, MAY REPEAT
	M      int        `json:"m"`
	Calls  [][]c31Hdr `json:"calls"` // syncBlockHeader transactions
	Msg    c31Hdr     `json:"msg"`   // a cross-chain message (ONT: syncCrossChainMsg and import; NEO*: import up to the gate)
}

// genPeerIdxAny: like genPeerIdx but indexes may repeat (nothing in the light client requires the
// source chain's peer indexes to be unique).
func genPeerIdxAny(t *rapid.T, name string, n int) []uint32 {
	switch rapid.IntRange(0, 3).Draw(t, name+"kind") {
	case 0:
		return nil
	case 1:
		return genPeerIdx(t, name, n)
	case 2: // everybody the same
		v := rapid.SampledFrom([]uint32{0, 1, 4, 64, 1<<32 - 1}).Draw(t, name+"v")
		out := make([]uint32, n)
		for i := range out {
			out[i] = v
		}
		return out
	}
	return rapid.SliceOfN(rapid.Uint32Range(0, 2), n, n).Draw(t, name)
}

func genC16Hdr(t *rapid.T) c31Hdr {
	h := genC31Hdr(t)
	if h.HasNew {
		h.NewIdx = genPeerIdxAny(t, "newidxany", len(h.New))
	}
	return h
}

func genC16(t *rapid.T) c16Case {
	c := c16Case{Router: rapid.SampledFrom([]string{"ont", "ont", "ont", "neo", "neo3"}).Draw(t, "router"),
		PolyN: rapid.SampledFrom([]int{4, 7}).Draw(t, "polyn")}
	c.Set = genSet(t, "set", 1, 8)
	c.Idx = genPeerIdxAny(t, "idxany", len(c.Set))
	c.M = rapid.IntRange(1, len(c.Set)).Draw(t, "m")
	c.Calls = rapid.SliceOfN(rapid.SliceOfN(rapid.Custom(genC16Hdr), 1, 2), 0, 3).Draw(t, "calls")
	c.Msg = genC31Hdr(t)
	return c
}

// ---- repeated execution of one transaction from the same prior state

type c16Det struct {
	ctx       *ev.Ctx
	k         int
	txs       int
	lastNotes string
}

// viewOf serialises everything a transaction's cache layer shows (its writes over the block
// layer): keys, values and deletions in iteration order.
func viewOf(c *storage.CacheDB) []byte {
	var b bytes.Buffer
	it := c.NewIterator(nil)
	for ok := it.First(); ok; ok = it.Next() {
		b.Write(varBytes(it.Key()))
		b.Write(varBytes(it.Value()))
	}
	it.Release()
	return b.Bytes()
}

func (d *c16Det) hook(w *world.World, contract common.Address, method string, args []byte, signers []common.Address) world.Result {
	tx := w.MakeTx(contract, method, args, signers)
	code := tx.Payload.(*payload.InvokeCode).Code
	type rec struct {
		ok     bool
		err    string
		ret    string
		view   []byte
		notify string
	}
	var first rec
	for i := 0; i < d.k; i++ {
		cache := storage.NewCacheDB(w.Overlay)
		svc, err := native.NewNativeService(cache, tx, w.Time, w.Height, w.BlockHash, w.ChainID, code, false)
		if err != nil {
			panic("harness: NewNativeService: " + err.Error())
		}
		var r rec
		func() {
			defer func() {
				if p := recover(); p != nil {
					r.err = fmt.Sprintf("panic: %v", p)
				}
			}()
			ret, err := svc.Invoke()
			r.ret = fmt.Sprintf("%x", ret)
			if err != nil {
				r.err = err.Error()
			} else {
				r.ok = true
			}
		}()
		r.view = viewOf(cache)
		for _, n := range svc.GetNotify() {
			r.notify += fmt.Sprintf("%x:%v;", n.ContractAddress[:], n.States)
		}
		r.notify += fmt.Sprintf("|cross:%v", svc.GetCrossHashes())
		if i == 0 {
			first = r
			continue
		}
		switch {
		case r.ok != first.ok || r.err != first.err || r.ret != first.ret:
			d.ctx.Failf("%s: execution %d of the same transaction on the same prior state: ok=%v ret=%s err=%q, execution 0: ok=%v ret=%s err=%q",
				method, i, r.ok, r.ret, r.err, first.ok, first.ret, first.err)
		case !bytes.Equal(r.view, first.view):
			d.ctx.Failf("%s: execution %d of the same transaction on the same prior state wrote a different state than execution 0: %s", method, i, firstDiff(first.view, r.view))
		case r.notify != first.notify:
			d.ctx.Failf("%s: execution %d emitted different notifications than execution 0:\n %s\n %s", method, i, r.notify, first.notify)
		}
	}
	d.txs++
	// the real execution (commits on success) must agree as well
	res := w.Exec(tx)
	if res.OK() != first.ok {
		d.ctx.Failf("%s: committed execution ok=%v (%v), trial executions ok=%v (%s)", method, res.OK(), res.Err, first.ok, first.err)
	}
	return res
}

func firstDiff(a, b []byte) string {
	sa, sb := common.NewZeroCopySource(a), common.NewZeroCopySource(b)
	for {
		ka, e1 := sa.NextVarBytes()
		va, _ := sa.NextVarBytes()
		kb, e2 := sb.NextVarBytes()
		vb, _ := sb.NextVarBytes()
		if e1 || e2 {
			return fmt.Sprintf("views of different length (%d / %d bytes)", len(a), len(b))
		}
		if !bytes.Equal(ka, kb) {
			return fmt.Sprintf("key %x vs key %x", clipB(ka), clipB(kb))
		}
		if !bytes.Equal(va, vb) {
			return fmt.Sprintf("key %x (%q): value %x vs %x", clipB(ka), printable(ka), clipB(va), clipB(vb))
		}
	}
}

func clipB(b []byte) []byte {
	if len(b) > 120 {
		return b[:120]
	}
	return b
}

func printable(b []byte) string {
	out := make([]byte, 0, len(b))
	for _, c := range b {
		if c >= 32 && c < 127 {
			out = append(out, c)
		}
	}
	return string(out)
}

func runC16(ctx *ev.Ctx, c c16Case) {
	ctx.Label("router:" + c.Router)
	if len(c.Set) == 0 || len(c.Set) > 10 || !distinct(c.Set) || c.M < 1 || c.M > len(c.Set) || (c.PolyN != 4 && c.PolyN != 7) ||
		(len(c.Idx) != 0 && len(c.Idx) != len(c.Set)) {
		ctx.Label("skipped:malformed-case")
		return
	}
	fix := func(h *c31Hdr, genesis uint32) bool {
		h.Height = 0
		if int(genesis)+h.Off > 0 {
			h.Height = uint32(int(genesis) + h.Off)
		}
		if h.HasNew && (len(h.New) == 0 || len(h.New) > 10 || !distinct(h.New) || h.NewM < 1 || h.NewM > len(h.New) || (len(h.NewIdx) != 0 && len(h.NewIdx) != len(h.New))) {
			return false
		}
		return true
	}
	const genesis = 3
	for _, call := range c.Calls {
		for i := range call {
			if !fix(&call[i], genesis) {
				ctx.Label("skipped:malformed-case")
				return
			}
		}
	}
	if !fix(&c.Msg, genesis) {
		ctx.Label("skipped:malformed-case")
		return
	}
	det := &c16Det{ctx: ctx, k: ev.Scale(8, 16)}
	invokeHook = det.hook
	defer func() { invokeHook = nil }()

	base := freshWorldN(0, c.PolyN)
	if c.PolyN >= 7 {
		ctx.Label("governance:approver-map>=3-entries")
		ctx.NonTrivial() // the stored approval record is built from a map that reaches >= 3 entries
	}
	relayer := world.Acct(60).Address
	importTx := func(w *sideWorld, height uint32, proof, raw []byte) world.Result {
		ep := &ccom.EntranceParam{SourceChainID: c16Chain, Height: height, Proof: proof, RelayerAddress: relayer[:], HeaderOrCrossChainMsg: raw}
		es := common.NewZeroCopySink(nil)
		ep.Serialization(es)
		return invokeOn(w.World, utils.CrossChainManagerContractAddress, ccom.IMPORT_OUTER_TRANSFER_NAME, es.Bytes(), []common.Address{relayer})
	}

	switch c.Router {
	case "ont":
		w := newSideWorldOn(base, c16Chain, utils.ONT_ROUTER, nil, nil)
		w.NextBlock()
		if len(c.Set) >= 3 {
			ctx.NonTrivial()
			ctx.Label("ont:peer-record-from-map>=3")
		}
		if hasRepeat(c.Idx) {
			ctx.Label("ont:genesis-repeated-peer-index")
		}
		g := ontHeader{Height: genesis, HasCfg: true, NewCfg: c.Set, NewIdx: c.Idx}
		if r := w.syncGenesis(ontHeaderBytes(g)); !r.OK() {
			ctx.Failf("setup: operator-signed syncGenesisHeader failed: %v", r.Err)
		}
		model := ontModel{keys: map[uint32][]int{genesis: c.Set}, stored: map[uint32][]byte{genesis: nil}}
		for _, call := range c.Calls {
			w.NextBlock()
			tent := model.clone()
			var raws [][]byte
			for _, spec := range call {
				_, tracked, found := tent.inForce(spec.Height)
				if !found {
					tracked = c.Set
				}
				keys, sigs := spec.Plan.resolve(tracked, ceilThird(len(tracked)), false)
				h := ontHeader{Height: spec.Height, Salt: spec.Salt, HasCfg: spec.HasNew, NewCfg: spec.New, NewIdx: spec.NewIdx, Keys: keys, Sigs: sigs}
				raws = append(raws, ontHeaderBytes(h))
				if _, dup := tent.stored[spec.Height]; !dup {
					tent.stored[spec.Height] = nil
					if spec.HasNew {
						tent.keys[spec.Height] = spec.New
					}
				}
			}
			if r := w.syncHeaders(raws); r.OK() {
				model = tent
				ctx.Label("ont:headers-accepted")
				for _, spec := range call {
					if spec.HasNew && len(spec.New) >= 3 {
						ctx.Label("ont:peer-record-from-map>=3")
						if hasRepeat(spec.NewIdx) {
							ctx.Label("ont:key-header-repeated-peer-index")
						}
					}
				}
			} else {
				ctx.Label("ont:headers-rejected")
			}
		}
		// a cross-chain message: synced, then imported with a one-leaf proof
		w.NextBlock()
		_, tracked, found := model.inForce(c.Msg.Height)
		if !found {
			tracked = c.Set
		}
		keys, sigs := c.Msg.Plan.resolve(tracked, ceilThird(len(tracked)), false)
		mp := &ccom.MakeTxParam{TxHash: []byte{1}, CrossChainID: []byte{2}, FromContractAddress: []byte{3}, ToChainID: c16Chain, ToContractAddress: []byte{4}, Method: "unlock", Args: []byte{5}}
		ms := common.NewZeroCopySink(nil)
		mp.Serialization(ms)
		leaf := sha256.Sum256(append([]byte{0}, ms.Bytes()...))
		raw := ontMsgBytes(ontMsg{Height: c.Msg.Height, Keys: keys, Sigs: sigs}, leaf[:])
		if c.Msg.Salt%2 == 0 {
			if r := w.syncCrossChainMsgs([][]byte{raw}); r.OK() {
				ctx.Label("ont:msg-synced")
			}
		}
		if r := importTx(w, c.Msg.Height, varBytes(ms.Bytes()), raw); r.OK() {
			ctx.Label("ont:import-accepted")
		}
		r := importTx(w, c.Msg.Height, varBytes(ms.Bytes()), raw) // replay
		if r.OK() {
			ctx.Label("ont:replay-accepted?!")
		}
	default:
		isNeo3 := c.Router == "neo3"
		mkScript, mkHeader, tiny := neo2Script, neo2HeaderBytes, []byte{0x51}
		var w *sideWorld
		if isNeo3 {
			mkScript, mkHeader, tiny = neo3Script, neo3HeaderBytes, []byte{0x11}
			w = newSideWorldOn(base, c16Chain, utils.NEO3_ROUTER, []byte{5, 0, 0, 0}, u32le(neo3Magic))
			w.registerStateValidators(c.Set)
			if len(c.Set) >= 3 {
				ctx.NonTrivial()
			}
		} else {
			w = newSideWorldOn(base, c16Chain, utils.NEO_ROUTER, make([]byte, 20), nil)
		}
		w.NextBlock()
		tracked := scriptSpec{M: c.M, Keys: canonicalOrder(c.Set)}
		idx := uint32(genesis)
		if r := w.syncGenesis(mkHeader(neoHeader{Index: idx}, hash160(mkScript(tracked)), tiny)); !r.OK() {
			ctx.Failf("setup: operator-signed syncGenesisHeader failed: %v", r.Err)
		}
		for _, call := range c.Calls {
			w.NextBlock()
			var raws [][]byte
			var last *scriptSpec
			var lastIdx uint32
			for _, spec := range call {
				next := tracked
				if spec.HasNew {
					next = scriptSpec{M: spec.NewM, Keys: canonicalOrder(spec.New)}
				}
				_, sigs := spec.Plan.resolve(tracked.Keys, tracked.M, true)
				ver := mkScript(tracked)
				if spec.Script == "tiny" {
					ver = tiny
				}
				raws = append(raws, mkHeader(neoHeader{Index: spec.Height, Salt: spec.Salt, Sigs: sigs}, hash160(mkScript(next)), ver))
				if spec.HasNew && spec.Height > idx {
					n := next
					last, lastIdx = &n, spec.Height
				}
			}
			if r := w.syncHeaders(raws); r.OK() {
				if gi, nc, ok := w.neoTracked(); ok && last != nil && gi == lastIdx && bytes.Equal(nc, hash160(mkScript(*last))) {
					tracked, idx = *last, lastIdx
					ctx.Label(c.Router + ":validator-change-accepted")
				}
			} else {
				ctx.Label(c.Router + ":headers-rejected")
			}
		}
		// import up to the signature gate (the proof names another contract / is empty for N3)
		w.NextBlock()
		_, sigs := c.Msg.Plan.resolve(tracked.Keys, tracked.M, true)
		var raw, proof []byte
		if isNeo3 {
			n := len(c.Set)
			raw = neo3MsgBytes(neoMsg{Index: c.Msg.Height, Sigs: func() []sigSpec {
				_, s := c.Msg.Plan.resolve(canonicalOrder(c.Set), n-(n-1)/3, true)
				return s
			}()}, neo3CanonicalScript(n-(n-1)/3, c.Set))
		} else {
			raw = neo2MsgBytes(neoMsg{Index: c.Msg.Height, Sigs: sigs}, mkScript(tracked))
			key := append(bytesOf(0xEE, 20), append(make([]byte, 16), 16)...)
			proof = append(varBytes(key), 0)
		}
		importTx(w, c.Msg.Height, proof, raw)
	}
	ctx.Label(fmt.Sprintf("transactions-repeated:%d", det.txs))
}

func hasRepeat(idx []uint32) bool {
	seen := map[uint32]bool{}
	for _, v := range idx {
		if seen[v] {
			return true
		}
		seen[v] = true
	}
	return false
}

func TestC16AOnt(t *testing.T) {
	ev.Drive(t, "C16",
		"cases (ONT, NEO, NEO N3; 4 or 7 relay validators): every transaction of a light-client history - registerSideChain and its approvals, state-validator registration and approvals (N3), "+
			"operator syncGenesisHeader, 0..3 syncBlockHeader transactions of 1..2 synthetic headers (signer plans as in C31, every second header carrying a new validator set), syncCrossChainMsg, "+
			"ImportOuterTransfer and its replay - is executed 8 times (thorough 16) on fresh transaction caches over the SAME prior state before it is committed; ONT peer configs use dense, sparse/huge, "+
			"all-equal and partly repeated consensus indexes. All executions must agree on success/failure, error text, return value, the full written state (keys, values, deletions) and the notifications. "+
			"non-trivial: a transaction stores a record built from a map with >= 3 entries (ONT peer set of >= 3 peers, approver set with 7 validators, N3 state validators); distinct by JSON of the case",
		genC16, runC16)
}
