package pontneo

import (
	"crypto/sha256"
	"encoding/json"

	ocommon "github.com/ontio/ontology/common"
	otypes "github.com/ontio/ontology/core/types"
	"github.com/polynetwork/poly/common"
	vconfig "github.com/polynetwork/poly/consensus/vbft/config"
	hscommon "github.com/polynetwork/poly/native/service/header_sync/common"
	"github.com/polynetwork/poly/native/service/header_sync/ont"
	"github.com/polynetwork/poly/native/service/utils"
)

// ---------------------------------------------------------------------------------------------
// Ontology wire formats, written by hand from the format (independent of the ontology library)

func varUint(v uint64) []byte {
	switch {
	case v < 0xFD:
		return []byte{byte(v)}
	case v <= 0xFFFF:
		return []byte{0xFD, byte(v), byte(v >> 8)}
	case v <= 0xFFFFFFFF:
		return append([]byte{0xFE}, u32le(uint32(v))...)
	}
	return append([]byte{0xFF}, u64le(v)...)
}

func varBytes(b []byte) []byte { return append(varUint(uint64(len(b))), b...) }

func dsha(b []byte) []byte {
	a := sha256.Sum256(b)
	c := sha256.Sum256(a[:])
	return c[:]
}

// ontHeader is the description of a synthetic Ontology header.
type ontHeader struct {
	Height uint32    `json:"height"`
	Salt   uint32    `json:"salt,omitempty"`   // goes into the timestamp: distinct headers at one height
	NewCfg []int     `json:"newcfg,omitempty"` // non-nil: header carries NewChainConfig with these pool keys
	HasCfg bool      `json:"hascfg,omitempty"` // NewCfg meaningful (allows an empty peer list)
	NewIdx []uint32  `json:"newidx,omitempty"` // consensus index of each NewCfg peer (copied verbatim by the light client); nil: dense 1..n
	Keys   []int     `json:"keys"`             // bookkeepers (pool indices, in order, duplicates allowed)
	Sigs   []sigSpec `json:"sigs"`             // SigData in order
}

func ontPayload(h ontHeader) []byte {
	info := &vconfig.VbftBlockInfo{Proposer: 1, LastConfigBlockNum: 0}
	if h.HasCfg {
		cfg := &vconfig.ChainConfig{Version: 1, View: 1, N: uint32(len(h.NewCfg)), C: uint32(len(h.NewCfg) / 3)}
		for i, k := range h.NewCfg {
			idx := uint32(i + 1)
			if len(h.NewIdx) == len(h.NewCfg) {
				idx = h.NewIdx[i]
			}
			cfg.Peers = append(cfg.Peers, &vconfig.PeerConfig{Index: idx, ID: sidePubHex(k)})
		}
		info.NewChainConfig = cfg
	}
	b, err := json.Marshal(info)
	if err != nil {
		panic(err)
	}
	return b
}

func ontHeaderUnsigned(h ontHeader) []byte {
	var b []byte
	b = append(b, u32le(0)...)           // version
	b = append(b, make([]byte, 32*3)...) // prev hash, tx root, block root
	b = append(b, u32le(1600000000+h.Salt)...)
	b = append(b, u32le(h.Height)...)
	b = append(b, u64le(0x1122334455667788)...) // consensus data
	b = append(b, varBytes(ontPayload(h))...)
	b = append(b, make([]byte, 20)...) // next bookkeeper
	return b
}

func ontHeaderHash(h ontHeader) []byte { return dsha(ontHeaderUnsigned(h)) }

func ontHeaderBytes(h ontHeader) []byte {
	b := ontHeaderUnsigned(h)
	hash := dsha(b)
	b = append(b, varUint(uint64(len(h.Keys)))...)
	for _, k := range h.Keys {
		b = append(b, varBytes(sidePub33(k))...)
	}
	b = append(b, varUint(uint64(len(h.Sigs)))...)
	for _, s := range h.Sigs {
		b = append(b, varBytes(makeSig(s, hash))...)
	}
	return b
}

// ontMsg is the description of a synthetic Ontology cross-chain message + bookkeeper list.
type ontMsg struct {
	Height uint32    `json:"height"`
	Keys   []int     `json:"keys"`
	Sigs   []sigSpec `json:"sigs"`
}

func ontMsgUnsigned(m ontMsg, root []byte) []byte {
	b := []byte{0}
	b = append(b, u32le(m.Height)...)
	b = append(b, root...)
	return b
}

// ontMsgBytes: CrossChainMsg serialization followed by the bookkeeper list (the format both
// SyncCrossChainMsg and the ONT MakeDepositProposal parse).
func ontMsgBytes(m ontMsg, root []byte) []byte {
	b := ontMsgUnsigned(m, root)
	hash := dsha(b)
	b = append(b, varUint(uint64(len(m.Sigs)))...)
	for _, s := range m.Sigs {
		b = append(b, varBytes(makeSig(s, hash))...)
	}
	b = append(b, varUint(uint64(len(m.Keys)))...)
	for _, k := range m.Keys {
		b = append(b, varBytes(sidePub33(k))...)
	}
	return b
}

// ---------------------------------------------------------------------------------------------
// reading the Ontology light-client state back

func (w *sideWorld) ontStoredHash(height uint32) []byte {
	return w.hsGet(hscommon.HEADER_INDEX, utils.GetUint64Bytes(w.chainID), utils.GetUint32Bytes(height))
}

func (w *sideWorld) ontKeyHeights() []uint32 {
	kh, err := ont.GetKeyHeights(w.Service(), w.chainID)
	if err != nil {
		panic("harness: GetKeyHeights: " + err.Error())
	}
	return kh.HeightList
}

// ontPeers returns the peer ids recorded at a key height (nil, false if none).
func (w *sideWorld) ontPeers(height uint32) (map[string]bool, bool) {
	raw := w.hsGet(hscommon.CONSENSUS_PEER, utils.GetUint64Bytes(w.chainID), utils.GetUint32Bytes(height))
	if raw == nil {
		return nil, false
	}
	cp := new(ont.ConsensusPeers)
	if err := cp.Deserialization(common.NewZeroCopySource(raw)); err != nil {
		panic("harness: ConsensusPeers: " + err.Error())
	}
	out := map[string]bool{}
	for id := range cp.PeerMap {
		out[id] = true
	}
	return out, true
}

func (w *sideWorld) ontMsgStored(height uint32) bool {
	m, err := ont.GetCrossChainMsg(w.Service(), w.chainID, height)
	return err == nil && m != nil
}

// sanity: the hand-written encodings decode with the ontology library to the same hash.
func ontSelfCheck(h ontHeader) string {
	raw := ontHeaderBytes(h)
	hd, err := otypes.HeaderFromRawBytes(raw)
	if err != nil {
		return "header does not decode: " + err.Error()
	}
	hh := hd.Hash()
	if string(hh[:]) != string(ontHeaderHash(h)) {
		return "header hash differs from the library's"
	}
	_ = ocommon.UINT256_SIZE
	return ""
}
